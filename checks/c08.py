"""C08 -- comparisons on a field the record lacks are false and never raise.

Specification: spec/Selector.tla (reference semantics; Cmp with the missing-field sentinel is False, helpers
skip missing fields).  The finite grammar of the property -- operator x position of the missing operand x
kind of the other operand x boolean context, plus the helper functions -- is enumerated COMPLETELY; every
expression is evaluated by both engines on every record; TLC evaluates the reference semantics on each
(expression, record) pair and checks the engines' answers (spec/Trace_Selector.tla).  The stream half
(filtering a heterogeneous stream never aborts or drops the rest of a source) is checked through the real
readers and rdump.
"""
import io, json, os

from vf import check, common, selgen as sg, streamfilter, tlc
from vf.common import MachineryError

PROP = "C08"


def validate(ctx, cases, tags, label, prop=PROP, keyfn=None, with_c=False, grouped=False, envs=None):
    """cases -> TLC verdict; returns number of violating (case, record) pairs"""
    import re as _re

    path = os.path.join(common.scratch("sel"), "cases_" + _re.sub(r"[^A-Za-z0-9]+", "_", label)[:60] + ".json")
    envs = envs if envs is not None else sg.envs(with_c, grouped)
    tlc.write_json(path, {"recs": envs, "cases": cases})
    r = ctx.tlc("Trace_Selector", "Trace_Selector.cfg", f"{label}: {len(cases)} expressions x {len(envs)} records x 2 engines", env={"TRACE_FILE": path})
    os.remove(path)
    seen = set()
    for v in r.violations:
        cid, rid = v["state"].get("cid"), v["state"].get("rid")
        if cid is None:
            raise MachineryError(f"cannot attribute counter-example: {v}")
        c = cases[cid - 1]
        if v["inv"] == "RefOK":
            raise MachineryError(f"reference semantics disagrees with CPython on {c['src']!r} record {rid}: py={c['py'][rid-1]}")
        eng = {"EngI": "I", "EngC": "C", "Refuse": "I"}[v["inv"]]
        k = (cid, rid, eng)
        if k in seen:
            continue
        seen.add(k)
        key = {"engine": "interpreted" if eng == "I" else "compiled", "check": v["inv"], **tags[cid - 1]}
        if keyfn:
            key = keyfn(key, c, rid, eng)
        ctx.violation(key, {"expression": c["src"], "record": rid, "observed": c[eng][rid - 1], "cpython": c["py"][rid - 1]})
    ctx.count(len(cases) * len(envs), len(cases) * len(envs) * 2)
    return len(seen)


def reversed_order_cases(arg):
    """In a NEW interpreter the records are met in REVERSE order (the grouped record and the record with the extra field
    first): whatever a process-wide cache keyed by type name remembers, it now remembers the other descriptor.
    arg = {"grammar": "c08" | "c07", "seed": n}.  -> cases in the usual shape (per-record results in record order)."""
    import random

    frecs, D = sg.real_records(with_c=True, grouped=True)
    plain = [{k: sg.val(v) for k, v in r.items()} for r in sg.RECS] + [dict({k: sg.val(v) for k, v in sg.RECS[0].items()}, q="a")]
    if arg["grammar"] == "c08":
        ex = [(e, t) for e, t in sg.c08_exprs() if t.get("ctx") in ("bare", "not") or t.get("pos") == "helper"]
    else:
        allx, _ = sg.c07_exprs(random.Random(arg["seed"]), 12000)
        ex = [(e, t) for e, t in allx if t["group"] in ("typed", "helper", "ip_path", "typed_chain", "kinds", "gen_named")]
    order = list(range(len(frecs) - 1, -1, -1))
    out = []
    for e, t in ex:
        c = sg.make_case(e, [frecs[i] for i in order], [plain[i] for i in order])
        for key in ("py", "I", "C"):
            back = [None] * len(order)
            for pos, i in enumerate(order):
                back[i] = c[key][pos]
            c[key] = back
        c["tag"] = t
        out.append(c)
    return out


def stream_half(ctx):
    """filtering a stream that mixes record types: output = exactly the records that have the field and satisfy the condition"""
    from flow.record import RecordDescriptor, RecordReader, RecordWriter
    from flow.record.tools import rdump

    A = RecordDescriptor("h/a", [("varint", "n"), ("string", "s")])
    Bd = RecordDescriptor("h/b", [("varint", "n"), ("string", "other")])
    tmp = common.scratch("c08s")
    p = os.path.join(tmp, "mixed.records")
    recs = []
    with RecordWriter(p) as w:
        for i in range(1, 13):
            r = A(i, "ab"[i % 2]) if i % 3 else Bd(i, "xyz"[i % 3] if i % 2 else "a")
            recs.append(r)
            w.write(r)
    sels = {
        "r.other == 'a'": lambda r: hasattr(r, "other") and r.other == "a",
        "r.other != 'a'": lambda r: False if not hasattr(r, "other") else r.other != "a",
        "r.other >= 'a'": lambda r: hasattr(r, "other") and r.other >= "a",
        "r.other <= 'y'": lambda r: hasattr(r, "other") and r.other <= "y",
        "r.other < 'b'": lambda r: hasattr(r, "other") and r.other < "b",
        "r.other > 'a'": lambda r: hasattr(r, "other") and r.other > "a",
        "r.other in ['a', 'x']": lambda r: hasattr(r, "other") and r.other in ["a", "x"],
        "'a' in r.other": lambda r: hasattr(r, "other") and "a" in r.other,
        "r.n >= 6 and r.other >= 'a'": lambda r: r.n >= 6 and hasattr(r, "other") and r.other >= "a",
        "r.s == 'a' or r.other == 'a'": lambda r: (hasattr(r, "s") and r.s == "a") or (hasattr(r, "other") and r.other == "a"),
        "field_equals(r, ['other'], ['A'])": lambda r: hasattr(r, "other") and r.other.lower() == "a",
    }
    for s, ref in sels.items():
        exp = [r.n for r in recs if ref(r)]
        for how in ("reader", "reader-compiled", "rdump", "rdump -n"):
            try:
                if how == "reader":
                    got = [r.n for r in RecordReader(p, selector=s)]
                elif how == "reader-compiled":
                    from flow.record.selector import CompiledSelector

                    got = [r.n for r in RecordReader(p, selector=CompiledSelector(s))]
                else:
                    out = os.path.join(tmp, "out.records")
                    rdump.main([p, "-s", s, "-w", out] + (["-n"] if how.endswith("-n") else []))
                    got = [r.n for r in RecordReader(out)]
            except Exception as e:
                got = "raised " + type(e).__name__
            ctx.case(("stream", s, how))
            if got != exp:
                op = [o for o in ("<=", ">=", "!=", "==", " not in ", " in ", "<", ">") if o in s][0].strip()
                ctx.violation({"check": "stream-filter", "how": how, "op": {"<=": "LtE", ">=": "GtE"}.get(op, op)}, {"selector": s, "expected_ids": exp, "got": got})


def run(tier):
    ctx = check.Ctx(PROP, tier)
    # the reference semantics itself: exhaustive model-level lemmas (missing => every comparison False, in every context)
    ctx.design("MC_Selector", "MC_Selector_c08.cfg", "model lemmas: MissingCompareFalse over operator x operand kind x record", workers=4)
    frecs, D = sg.real_records(with_c=True, grouped=True)      # the fifth record is a GROUPED record (first member = record 1)
    plain = [{k: sg.val(v) for k, v in r.items()} for r in sg.RECS] + [dict({k: sg.val(v) for k, v in sg.RECS[0].items()}, q="a")]
    ex = sg.c08_exprs()
    cases = [sg.make_case(e, frecs, plain) for e, tag in ex]
    tags = [tag for e, tag in ex]
    for c, t in zip(cases[:3], tags[:3]):
        ctx.sample({"expression": c["src"], "tag": t, "interpreted": c["I"], "compiled": c["C"]})
    for c in cases:
        ctx.case(c["src"])
    validate(ctx, cases, tags, "C08 grammar", keyfn=lambda key, c, rid, eng: dict(key, record_has_field_m=(rid == 4), observed=c[eng][rid - 1]["k"] + (":" + c[eng][rid - 1].get("c", "") if c[eng][rid - 1]["k"] == "exc" else "")), with_c=True, grouped=True)
    # the same comparisons in a fresh interpreter that meets the records in reverse order
    rc = common.in_fresh_process("c08", "reversed_order_cases", {"grammar": "c08", "seed": ctx.seed})
    for c in rc:
        ctx.case("reversed:" + c["src"])
    validate(ctx, rc, [dict(c.pop("tag"), order="reversed") for c in rc], "C08 grammar, records met in reverse order by a fresh interpreter",
             keyfn=lambda key, c, rid, eng: dict(key, record_has_field_m=(rid == 4), observed=c[eng][rid - 1]["k"] + (":" + c[eng][rid - 1].get("c", "") if c[eng][rid - 1]["k"] == "exc" else "")), with_c=True, grouped=True)
    # record types with a field literally called `record` (what a wrapped record calls the record it wraps)
    wrecs, wenvs = sg.wrapper_named_records()
    wex = sg.wrapper_named_exprs()
    wcases = [sg.make_case(e, wrecs, [{} for _ in wrecs]) for e, tag in wex]
    for c in wcases:
        c["py"] = [{"k": "skip", "v": False} for _ in wrecs]
        ctx.case("holder:" + c["src"])
    validate(ctx, wcases, [tag for e, tag in wex], "C08 helpers / comparisons on records with a field named `record`",
             keyfn=lambda key, c, rid, eng: dict(key, observed=c[eng][rid - 1]["k"] + (":" + c[eng][rid - 1].get("c", "") if c[eng][rid - 1]["k"] == "exc" else "")), envs=wenvs)
    stream_half(ctx)
    keep = [i for i, (e, t) in enumerate(ex) if not any(x["k"] == "field" and x["f"] == "c" for x in sg.walk(e))]   # the stream files carry no command field
    streamfilter.run(ctx, [ex[i] for i in keep], [cases[i] for i in keep], [tags[i] for i in keep], PROP, tier == "thorough")
    ctx.exhaustive = True
    ctx.extra["rule"] = "the finite grammar of the property, completely: 8 operators x {left,right} x 13 operand kinds x 10 boolean contexts (+ chains, helpers, truthiness) x 3 records x 2 engines; distinct = distinct expression texts"
    return ctx.finish()
