"""C09 -- the interpreted selector is a sandbox.

Specification: spec/Policy.tla (decision of the Call branch for every spelling of a call target, and what is
then invoked); TLC checks OnlyWhitelistedInvoked for all shapes x generator flag x syntactic context.
Binding: every shape of the model is rendered to source, nested in every syntactic context, and evaluated by
the real Selector on a record whose values are instrumented canaries (every method call is logged);
spec/Trace_Policy.tla checks on each observed case that disallowed shapes are refused, that no canary method
is ever invoked and that the record is unchanged.
"""
import ast, itertools, json, os

from vf import check, common, tlc
from vf.common import MachineryError

PROP = "C09"
LOG = []
SHARED_LIST = ['X']   # a mutable value reachable from the record (r.fl and r.c.fl)


def _by_helper():
    """is the canary method being called by one of the selector's own whitelisted helper functions?"""
    import sys

    f = sys._getframe(2)
    return f.f_code.co_name in ("lower", "upper", "field_equals", "field_contains", "field_regex") and f.f_globals.get("__name__") == "flow.record.selector"


class Canary(str):
    def upper(self):
        if _by_helper():
            return str.upper(self)
        LOG.append("upper"); return "U"

    def lower(self):
        if _by_helper():
            return str.lower(self)
        LOG.append("lower"); return "L"

    def strip(self, *a):
        LOG.append("strip"); return "S"

    def format(self, *a, **k):
        LOG.append("format"); return "F"

    def gettypename(self, *a, **k):
        LOG.append("gettypename"); return "string"

    def encode(self, *a, **k):
        LOG.append("encode"); return b"E"

    @property
    def s(self):
        return Canary("inner")

    @property
    def fl(self):
        return SHARED_LIST

    @property
    def o(self):
        return ObjCanary()

    @property
    def ipaddress(self):
        return CallableCanary("ip")


class ObjCanary:
    """a record value that is NOT text: every method call is logged"""

    def __getattr__(self, name):
        if name.startswith("__"):
            raise AttributeError(name)

        def method(*a, **k):
            LOG.append("obj." + name)
            return "O"
        return method

    def __eq__(self, other):
        return False

    def __hash__(self):
        return 1


class CallableCanary(Canary):
    """what a record value may offer under the name of a whitelisted constructor: calling it is logged"""

    def __call__(self, *a, **k):
        LOG.append("call"); return "C"


HELPERS = ["lower", "upper", "fields"]
NAMES = ["r", "net", "f", "string"] + HELPERS + ["str", "any"] + ["len", "open"]
GENFLAGS = ["none", "f", "string", "fields", "f_op", "net_val", "late_string"]
ATTRS = ["strip", "upper", "__class__", "__x", "s", "ipaddress", "fl", "o"]
CONTEXTS = ["bare", "arg", "operand", "listelt", "genelt", "geniter", "gencond", "kwarg", "not", "boolop", "add_list", "mult", "bitor", "helper_strings", "helper_fields", "primed", "fields_arg", "fields_kwarg", "helper_unknown_kwarg", "helper_extra_positional"]


def targets():
    bases = [{"b": "name", "n": n} for n in NAMES] + [{"b": "callres"}, {"b": "const"}, {"b": "paren"}]
    chains = [[]] + [[x] for x in ATTRS] + [[x, y] for x in ATTRS for y in ATTRS]
    out = []
    for b in bases:
        for c in chains:
            for call in (True, False):
                out.append({"base": b, "chain": c, "call": call})
    for b in ("lambda", "subscript"):
        for call in (True, False):
            out.append({"base": {"b": b}, "chain": [], "call": call})
    return out


def render(t, g, ctx):
    b = t["base"]
    base = {"name": b.get("n"), "callres": "lower(r.c)", "const": "'abc'", "paren": "(r.c + 'x')", "lambda": "(lambda: 1)", "subscript": "r.fl[0]"}[b["b"]]
    tgt = base + "".join("." + a for a in t["chain"])
    if t["call"] and g == "late_string":
        X = tgt + ("([any(g)])" if b.get("n") == "any" and not t["chain"] else "(any(g))")      # the argument advances the suspended generator held in g (see the wrapper below)
    elif not t["call"]:
        X = tgt
    elif t["chain"] and t["chain"][-1] == "ipaddress" and b.get("n") == "net" and len(t["chain"]) == 1:
        X = tgt + "('1.2.3.4')"
    elif b.get("n") in ("lower", "upper", "len", "open", "string", "str") and not t["chain"]:
        X = tgt + "(r.c)"
    elif b.get("n") == "any" and not t["chain"]:
        X = tgt + "([r.c])"
    elif b.get("n") == "fields" and not t["chain"]:
        X = tgt + "('string')"
    elif b.get("n") in ("str", "any", "lower", "upper", "fields") and t["chain"]:
        X = tgt + "(r.c)"        # a method reached THROUGH a whitelisted name, given the value it would work on: str.upper(r.c)
    else:
        X = tgt + "()"
    e = {
        "bare": f"{X} == 1", "arg": f"lower({X}) == 1", "operand": f"({X} + 'x') == 1", "listelt": f"[{X}] == 1",
        "genelt": f"any({X} == 1 for y in [1])", "geniter": f"any(y == 1 for y in [{X}])", "gencond": f"any(y == 1 for y in [1] if {X})",
        "kwarg": f"field_contains(r, ['c'], ['x'], nocase={X})", "not": f"not {X}", "boolop": f"True and {X}",
        "add_list": f"({X} + ['y']) == 1", "mult": f"({X} * 2) == 1", "bitor": f"({X} | 1) == 1",
        "helper_strings": f"field_equals(r, ['c'], {X})", "helper_fields": f"field_contains(r, {X}, ['zz'])",
        "primed": f"{X} == 1",
        # parameters a helper does not document: an extra keyword, an extra positional argument
        "helper_unknown_kwarg": f"field_equals(r, ['c'], ['canary'], _lower={X})", "helper_extra_positional": f"field_contains(r, ['c'], ['canary'], True, False, {X})",
        "fields_arg": f"any(f.name == 'x' for f in fields({X}))", "fields_kwarg": f"any(f.name == 'x' for f in fields(typename={X}))",
    }[ctx]
    if g == "late_string":
        e = f"any({e} for g in [(1 for string in [r.c.strip])])"
    elif g == "f_op":
        e = f"1 in ({e} for f in [r.c.strip])"
    elif g == "net_val":
        e = f"any({e} for net in [r.c])"       # the variable shadows the ROOT of dotted constructors and is bound to a record value
    elif g != "none":
        e = f"any({e} for {g} in [r.c.strip])"
    if ctx == "primed":
        # the genuine, whitelisted calls of the same names were made (and allowed) earlier in the SAME expression
        e = f"(string('a') == 'b') or (net.ipaddress('1.2.3.4') == 'b') or (lower('A') == 'b') or (upper('a') == 'b') or ({e})"
    return e


def run_shape(src, D, entry="match"):
    """entry: the way the untrusted expression reaches the evaluator -- Selector.match or Selector.explain_selector"""
    from flow.record.selector import Selector

    LOG.clear()
    rec = D.recordType.__new__(D.recordType)
    can = Canary("canary")
    del SHARED_LIST[:]
    SHARED_LIST.append("X")
    fl = SHARED_LIST
    object.__setattr__(rec, "c", can)
    object.__setattr__(rec, "fl", fl)
    object.__setattr__(rec, "o", ObjCanary())
    for k in ("_source", "_classification", "_generated", "_version"):
        object.__setattr__(rec, k, None)
    try:
        if entry == "match":
            Selector(src).match(rec)
        elif entry == "make_selector":
            # a trusted caller (rdump's default) asked for the COMPILED form of the same text earlier in this process;
            # the untrusted request that follows must still get the interpreted engine
            from flow.record.selector import make_selector

            try:
                make_selector(src, force_compiled=True)
            except Exception:
                pass
            make_selector(src).match(rec)
        else:
            Selector(src).explain_selector(rec)
        refused, exc = False, "none"
    except BaseException as e:  # noqa
        if isinstance(e, (KeyboardInterrupt, SystemExit)):
            raise
        refused, exc = True, type(e).__name__
    changed = not (rec.c is can and rec.fl is fl and fl == ["X"] and rec._source is None and str.__eq__(can, "canary"))
    return {"refused": refused, "exc": exc, "invoked": list(LOG), "changed": changed}


def run(tier):
    from flow.record import RecordDescriptor
    from flow.record import selector as selmod

    ctx = check.Ctx(PROP, tier)
    thorough = tier == "thorough"
    ctx.design("Policy", "MC_Policy.cfg", "all call/read shapes (15 bases x chains <= 2 over 5 attribute classes) x 8 in-generator flags x 20 contexts", workers=4)
    if thorough:
        ctx.sensitivity("Policy", "MC_Policy_dev_Path.cfg", "as-built path resolution must violate OnlyWhitelistedInvoked", "OnlyWhitelistedInvoked", workers=4)
        ctx.sensitivity("Policy", "MC_Policy_dev_GenVar.cfg", "generator variable as call target must violate OnlyWhitelistedInvoked", "OnlyWhitelistedInvoked", workers=4)
        ctx.sensitivity("Policy", "MC_Policy_dev_Late.cfg", "looking the target up after the arguments must violate OnlyWhitelistedInvoked", "OnlyWhitelistedInvoked", workers=4)
        ctx.sensitivity("Policy", "MC_Policy_dev_Root.cfg", "testing only the root of a dotted target must violate OnlyWhitelistedInvoked", "OnlyWhitelistedInvoked", workers=4)
        ctx.sensitivity("Policy", "MC_Policy_dev_Shadow.cfg", "generator variable named like a field type must violate OnlyWhitelistedInvoked", "OnlyWhitelistedInvoked", workers=4)
    # the grammar's partition of Python's expression nodes: every ast.expr subclass is either handled by the
    # shapes/contexts above or must be refused syntactically -- assert the refused set really is refused
    D = RecordDescriptor("t/c9", [("string", "c"), ("stringlist", "fl"), ("string", "o")])
    refused_syntax = {"Lambda": "(lambda: 1)() == 1", "Subscript": "r.fl[0] == 'x'", "IfExp": "(1 if r.c else 2) == 1", "Dict": "{1: 2} == 1", "Set": "{1} == 1",
                      "ListComp": "[x for x in r.fl] == 1", "SetComp": "{x for x in r.fl} == 1", "DictComp": "{x: 1 for x in r.fl} == 1", "JoinedStr": "f'{r.c}' == 1",
                      "NamedExpr": "(y := 1) == 1", "Starred": "[*r.fl] == 1", "Await": None, "Yield": None, "YieldFrom": None, "FormattedValue": None, "Slice": "r.fl[0:1] == 1",
                      "TemplateStr": None, "Interpolation": None}
    handled = {"BoolOp", "BinOp", "UnaryOp", "Compare", "Call", "Constant", "Attribute", "Name", "List", "Tuple", "GeneratorExp"}
    known = set(refused_syntax) | handled
    for cls in ast.expr.__subclasses__():
        if cls.__name__ not in known and not cls.__name__.startswith("_") and cls.__name__ not in ("Num", "Str", "Bytes", "NameConstant", "Ellipsis", "Index", "ExtSlice", "Suite", "AugLoad", "AugStore", "Param"):
            raise MachineryError(f"ast.expr subclass {cls.__name__} is not classified by the C09 grammar")
    for name, src in refused_syntax.items():
        if src is None:
            continue
        for entry in ("match", "explain"):
            o = run_shape(src, D, entry)
            ctx.case(("syntax", name, entry))
            if not o["refused"] or o["invoked"] or o["changed"]:
                ctx.violation({"check": "refused-syntax", "node": name, "entry": entry}, {"source": src, "observed": o})
    cases, metas = [], []
    ts = targets()
    # a hostile expression that IS evaluated (a broken sandbox) can do anything -- `open(True)` wraps the process's standard
    # output in a file object that closes it when collected: keep copies of the standard descriptors and put them back
    import gc

    saved_fds = [os.dup(i) for i in (0, 1, 2)]
    for t in ts:
        for g in GENFLAGS:
            for c in (CONTEXTS if thorough or True else CONTEXTS[:4]):
                src = render(t, g, c)
                cases.append({"t": t, "g": g, "ctx": c, "obs": run_shape(src, D)})
                metas.append(src)
                ctx.case(src)
                if c in ("bare", "not", "geniter"):       # the second entry point of the interpreted engine
                    cases.append({"t": t, "g": g, "ctx": c, "obs": run_shape(src, D, "explain")})
                    metas.append("explain_selector: " + src)
                    ctx.case("explain:" + src)
                if c in ("bare", "genelt"):               # the factory the readers use, after the compiled form of the same text was built
                    cases.append({"t": t, "g": g, "ctx": c, "obs": run_shape(src, D, "make_selector")})
                    metas.append("make_selector after force_compiled: " + src)
                    ctx.case("make_selector:" + src)
    gc.collect()
    for i, fd in enumerate(saved_fds):
        os.dup2(fd, i)
        os.close(fd)
    for i in (0, 57, 1203):
        ctx.sample({"source": metas[i], **cases[i]})
    path = os.path.join(common.scratch("c09"), "cases.json")
    tlc.write_json(path, cases)
    r = ctx.tlc("Trace_Policy", "Trace_Policy.cfg", f"{len(cases)} observed shapes", env={"TRACE_FILE": path}, workers=8)
    seen, drift = set(), 0
    for v in r.violations:
        cid = v["state"].get("cid")
        if cid is None:
            raise MachineryError(f"cannot attribute counter-example: {v}")
        c = cases[cid - 1]
        if v["inv"] == "Contract":
            if cid in seen:
                continue
            seen.add(cid)
            t = c["t"]
            ctx.violation({"check": "Contract", "base": t["base"]["b"] + (":" + t["base"]["n"] if "n" in t["base"] else ""), "chain": ".".join(t["chain"]), "call": t["call"],
                           "in_generator": c["g"], "invoked": c["obs"]["invoked"], "refused": c["obs"]["refused"]}, {"source": metas[cid - 1], "ctx": c["ctx"], "observed": c["obs"]})
        else:
            drift += 1
            if drift <= 3:
                print(f"MODEL-DRIFT property={PROP}: the model allows {metas[cid-1]!r} but it was refused ({c['obs']['exc']})")
    if drift:
        ctx.note(f"model drift on {drift} shapes (allowed by the model, refused by the code: not a sandbox violation)")
    ctx.count(len(cases), len(cases))
    ctx.exhaustive = True
    ctx.extra["rule"] = "every call/read target shape of Policy.tla x in-generator flag x 10 syntactic contexts, plus one expression per refused ast node kind; distinct = distinct source texts"
    ctx.assumptions += ["the claim is 'no accepted shape within the enumerated grammar'; the grammar is built from Python's ast node list and the partition is asserted against ast.expr.__subclasses__()",
                        "canaries: a str subclass whose upper/strip/format/encode log their invocation; a bound method of it is the callable generator variable"]
    return ctx.finish()
