"""C10 -- reading with a selector equals filtering afterwards; matching is pure.

Specification: spec/FilterLoop.tla (the per-reader loop with the selector object's cross-record state; TLC
checks OutIsFilter over all sequences <= 4 of three record shapes x three selector kinds) and
spec/Trace_Filter.tla.  Binding: record sequences mixing two descriptors are written to a binary stream, JSON,
Avro, CSV and SQLite file; for every selector (text, Selector object, CompiledSelector object; taken from the
C07 grammar plus typed-matcher / helper forms) the reader is iterated WITH the selector and WITHOUT it followed
by selector.match on each record; the same selector object is then shown the records in reverse order.  TLC
replays the loop over the logged per-record outcomes.
"""
import json, os

from vf import check, common, gen, observe, selgen as sg, tlc
from vf.common import MachineryError

PROP = "C10"


def adapters():
    from flow.record import RecordDescriptor

    DA = RecordDescriptor("t/sel", sg.FIELDS)
    DB = RecordDescriptor("t/other", [("varint", "n"), ("string", "q")])
    DM = RecordDescriptor("t/sel", sg.FIELDS_M)  # same type name as DA, one more (string) field
    DV = RecordDescriptor("t/avro", [("varint", "n"), ("string", "s"), ("boolean", "t")])
    return {
        "stream": ("out.records", [DA, DB, DM]), "streamgz": ("out.records.gz", [DA, DB, DM]), "json": ("out.json", [DA, DB, DM]), "avro": ("out.avro", [DV]),
        "csv": ("out.csv", [DV]), "sqlite": ("sqlite://out.db", [DA, DB]),
    }


def build(desc, i, rnd):
    names = [n for _, n in desc.get_field_tuples()]
    vals = {"n": i, "s": rnd.choice(["", "a", "Ab", "b", "a  b", "a b", "a\tb"]), "l": rnd.choice([[], ["a"], ["a", "b"], ["Ab"]]), "z": None, "t": rnd.choice([True, False]), "q": rnd.choice(["a", "x"]),
            "ip": rnd.choice(["10.0.0.1", "10.0.0.2", None]), "p": rnd.choice(["/a", "/a/B", None]), "w": rnd.choice(["a", "zz"]), "m": rnd.choice(["only-in-m", "a"])}
    return desc(**{k: vals[k] for k in names}, _generated=gen.GEN)


def rid(r):
    try:
        return int(r.n)
    except Exception:
        return -1


def obs(r):
    o = observe.obs_record(r)
    if r._desc.name == "csv/reader" and isinstance(o.get("values"), dict):
        o["values"].pop("_generated", None)      # the CSV reader stamps records it builds with the time of reading
    return json.dumps(o, sort_keys=True)


# independent meaning of some selectors over the WRITTEN values (used where the reader returns the values unchanged)
REF = {
    "Type.string == 'only-in-m'": lambda v: v.get("m") == "only-in-m",
    "'only-in' in Type.string": lambda v: "only-in" in (v.get("m") or ""),
    "field_contains(r, Type.string, ['only-in-m'])": lambda v: v.get("m") == "only-in-m",
    "r.q == 'a'": lambda v: v.get("q") == "a",
    "r.n in [1, 2, 5]": lambda v: v["n"] in (1, 2, 5),
    "has_field(r, 's')": lambda v: "s" in v,
    "not r.t": lambda v: not v.get("t", False),
    "r.n >= 3 or r.q == 'x'": lambda v: v["n"] >= 3 or v.get("q") == "x",
    "r.missing == 1": lambda v: False,
    "r.s == 'a  b'": lambda v: v.get("s") == "a  b",
    "r.s == 'a\tb'": lambda v: v.get("s") == "a\tb",
    "r.s in ['a  b', 'zz']": lambda v: v.get("s") in ("a  b", "zz"),
    "'  ' in r.s": lambda v: "  " in (v.get("s") or ""),
    "r.m == 'only-in-m'": lambda v: v.get("m") == "only-in-m",
    "has_field(r, 'm')": lambda v: "m" in v,
    "any(f.name == 'm' for f in fields('string'))": lambda v: "m" in v,
    "not (r.m == 'a')": lambda v: not (v.get("m") == "a"),
    "any(f.name == 'q' for f in fields('string'))": lambda v: "q" in v,
}


def _may_raise(f):
    f.may_raise = True
    return f


for _k in ("'only-in' in Type.string", "field_contains(r, Type.string, ['only-in-m'])", "Type.string == 'only-in-m'"):
    REF[_k] = _may_raise(REF[_k])


def run_case(path, sel_obj, nrec, written=None, ref=None):
    """-> case dict for Trace_Filter"""
    from flow.record import RecordReader

    # (1) WITH the selector
    inline, end_inline, inline_obs = [], "end", []
    try:
        rd = RecordReader(path, selector=sel_obj)
        for r in rd:
            inline.append(rid(r))
            inline_obs.append(obs(r))
        rd.close()
    except Exception as e:
        end_inline = "raise:" + type(e).__name__
    # (2) WITHOUT, then match
    rd = RecordReader(path)
    allrecs = list(rd)
    rd.close()
    after, end_after, after_obs, pure = {}, "end", [], {}
    matcher = sel_obj
    if isinstance(sel_obj, str):
        from flow.record.selector import make_selector

        matcher = make_selector(sel_obj)
    for r in allrecs:
        before = obs(r)
        try:
            m = bool(matcher.match(r))
        except Exception as e:
            end_after = "raise:" + type(e).__name__
            break
        pure[rid(r)] = obs(r) == before
        after[rid(r)] = m
        if m:
            after_obs.append(before)
    # (3) the same selector object meets the records in reverse order, and a FRESH selector object sees each
    #     record in isolation: the result must not depend on which records were matched before
    stable = {}
    src_text = sel_obj if isinstance(sel_obj, str) else str(sel_obj)
    for r in reversed(allrecs):
        i = rid(r)
        if i not in after:
            continue
        try:
            fresh = type(matcher)(src_text)
            stable[i] = bool(matcher.match(r)) == after[i] and bool(fresh.match(r)) == after[i]
        except Exception:
            stable[i] = False
    # (4) endurance: the same selector object goes on meeting the same records (a long-running filter job): whatever it
    #     counts, caches or leaks per match, the answers stay what they were
    if end_after == "end" and allrecs:
        for _rep in range(-(-160 // len(allrecs))):
            for r in allrecs:
                i = rid(r)
                try:
                    if bool(matcher.match(r)) != after.get(i):
                        stable[i] = False
                except Exception:
                    stable[i] = False
    recs = []
    for r in allrecs:
        i = rid(r)
        recs.append({"id": i, "inline": i in inline, "after": after.get(i, False), "pure": pure.get(i, True), "stable": stable.get(i, True)})
    ref_ok = True
    if ref is not None and written is not None:
        # a selector whose meaning is known independently: exactly those records, and no error (typed matchers may
        # legitimately raise on an unset text field: those two are only compared when iteration ends normally)
        if getattr(ref, "may_raise", False) and end_inline != "end":
            ref_ok = True
        else:
            ref_ok = end_inline == "end" and inline == [i for i, v in written if ref(v)]
    return {"recs": recs, "ref_ok": ref_ok, "end_inline": end_inline, "end_after": end_after, "values_equal": inline_obs == after_obs or end_inline != "end" or end_after != "end",
            "n_all": len(allrecs)}


def fixed_order_cases(order):
    """A NEW process meets the two descriptors that share the type name t/sel in a fixed order (the plain one first, or
    the one with the extra field m first) -- on the binary and the JSON reader, for the selectors whose meaning depends
    on which fields a record has.  -> cases for Trace_Filter (run through common.in_fresh_process)."""
    import random

    from flow.record import RecordWriter
    from flow.record.selector import CompiledSelector, Selector

    ad = adapters()
    DA, DB, DM = ad["stream"][1]
    seq = [DA, DM, DA, DM, DB, DM] if order == "plain-first" else [DM, DA, DM, DB, DA, DM]
    rnd = random.Random(7)
    tmp = common.scratch("c10fixed")
    out = []
    for aname in ("stream", "json"):
        full = os.path.join(tmp, ad[aname][0])
        written = []
        with RecordWriter(full) as w:
            for i, dsc in enumerate(seq, 1):
                rec = build(dsc, i, rnd)
                if dsc is DM:
                    rec.m = "only-in-m" if i % 4 != 0 else "a"
                written.append((i, {fn: getattr(rec, fn) for _, fn in rec._desc.get_field_tuples()}))
                w.write(rec)
        for s in ("Type.string == 'only-in-m'", "'only-in' in Type.string", "field_contains(r, Type.string, ['only-in-m'])", "r.m == 'only-in-m'", "has_field(r, 'm')",
                  "r.q == 'a'", "any(f.name == 'm' for f in fields('string'))", "Type.string == 'a'", "not (r.m == 'a')"):
            for fname, mk in (("text", lambda s: s), ("selector", Selector), ("compiled", CompiledSelector)):
                if fname == "compiled" and "fields(" in s:
                    continue
                c = run_case(full, mk(s), len(seq), written, REF.get(s))
                c["adapter"], c["form"], c["selector"], c["order"] = aname, fname, s, order
                out.append(c)
    return out


KW_SELECTORS = [f"field_contains(r, ['s', 'w'], [{w!r}], nocase={nc}, word_boundary={wb})" for w in ("ab", "AB", "a", "B") for nc in (True, False) for wb in (True, False)] + \
               [f"field_equals(r, ['s', 'w'], [{w!r}], nocase={nc})" for w in ("ab", "AB", "a") for nc in (True, False)] + \
               [f"field_regex(r, ['s'], {rx!r})" for rx in ("a.", "A.", "^a", "(?i)^a", "b$")] + \
               ["lower(r.s) == 'ab'", "upper(r.s) == 'AB'", "r.s in ['a', 'Ab']", "r.s == 'Ab'", "r.s == 'ab'", "str(r.n) == '1'", "str(r.t) == 'True'", "str(r.n) == 'True'",
                "Type.string == 'ab'", "Type.string == 'Ab'", "'A' in Type.string", "'a' in Type.string"]


def selector_order_cases(order):
    """A NEW process evaluates the same list of selectors (helper calls that differ only in an option, in a literal's case or
    type) on the same records -- forwards, backwards or in a seeded shuffle.  What one selector leaves behind in the process
    must not change the answers of another.  -> {selector text: [result per record and engine]}"""
    import random

    from flow.record import RecordDescriptor
    from flow.record.selector import CompiledSelector, Selector

    D = RecordDescriptor("t/ord", [("string", "s"), ("string", "w"), ("varint", "n"), ("boolean", "t")])
    recs = [D(a, b, n, t, _generated=gen.GEN) for a, b, n, t in (("ab", "x", 1, True), ("AB", "x", 0, False), ("xab", "Ab y", 1, False), ("Ab", "a b", 2, True), ("x ab y", "", 1, True), ("x AB y", "B", 0, True), ("", "a", 1, False))]
    sels = list(KW_SELECTORS)
    if order == "backward":
        sels.reverse()
    elif order != "forward":
        random.Random(int(order)).shuffle(sels)
    out = {}
    for s in sels:
        res = []
        for cls in (Selector, CompiledSelector):
            for r in recs:
                try:
                    res.append(bool(cls(s).match(r)))
                except Exception as e:
                    res.append("exc:" + type(e).__name__)
        out[s] = res
    return out


class _Reenter(str):
    """a text value whose comparison looks at ANOTHER record with the same selector object before it answers (a filter used
    from two places at once: a callback, a second reader, another thread)"""
    hook = None

    def __eq__(self, other):
        h = type(self).hook
        if h is not None:
            type(self).hook = None
            try:
                h()
            finally:
                type(self).hook = h
        return str.__eq__(self, other)

    __hash__ = str.__hash__


def reentrant_cases():
    from flow.record import RecordDescriptor
    from flow.record.selector import CompiledSelector, Selector

    D = RecordDescriptor("t/re", [("string", "s"), ("string", "w"), ("varint", "n")])
    out = []
    for src in ("r.s == 'a' and r.w == 'b'", "r.s == 'a' and r.n == 1", "r.s == 'a' or r.w == 'b'", "(r.s == 'a') == (r.w == 'b')", "any(x == 'a' for x in [r.s, r.w]) and r.n == 1", "r.s == 'a' and lower(r.w) == 'b'"):
        for cls, form in ((Selector, "selector"), (CompiledSelector, "compiled")):
            plain = [D("a", "b", 1, _generated=gen.GEN), D("a", "zz", 2, _generated=gen.GEN), D("q", "b", 1, _generated=gen.GEN)]
            other = D("q", "q", 9, _generated=gen.GEN)
            expected = [bool(cls(src).match(r)) for r in plain]
            sel = cls(src)
            recs = []
            for i, r in enumerate(plain):
                rr = r._desc.recordType.__new__(r._desc.recordType)
                for k in r.__slots__:
                    object.__setattr__(rr, k, getattr(r, k))
                object.__setattr__(rr, "s", _Reenter(str(r.s)))
                _Reenter.hook = lambda: sel.match(other)
                try:
                    got = bool(sel.match(rr))
                except Exception:
                    got = None
                finally:
                    _Reenter.hook = None
                recs.append({"id": i + 1, "inline": expected[i], "after": expected[i], "pure": True, "stable": got == expected[i]})
            out.append(({"recs": recs, "ref_ok": True, "end_inline": "end", "end_after": "end", "values_equal": True, "n_all": len(recs), "adapter": "reentrant", "form": form}, src))
    return out


EXTRA_SELECTORS = ["Type.string == 'only-in-m'", "'only-in' in Type.string", "field_contains(r, Type.string, ['only-in-m'])", "'zz' in r.l + ['zz']", "(r.l + r.l) == []", "r.l * 2 == []",
                   "Type.string == 'a'", "'a' in Type.string", "Type.varint > 3", "name(r) == 't/sel'", "has_field(r, 's')", "r.s in ['a', 'Ab']",
                   "any(x == 'a' for x in r.l)", "any(x == 'a' for x in r.l) and any(x == 'b' for x in r.l)", "field_contains(r, ['s', 'q'], ['A'])",
                   "r.q == 'a'", "r.q != 'a'", "r.n % 2 == 0 and r.s != ''", "not r.t", "r.n >= 3 or r.q == 'x'", "r.missing == 1", "r.n",
                   "any(f.name == 's' for f in fields('string'))", "any(f.name == 'q' for f in fields('string'))", "lower(r.s) == 'ab'", "r.n in [1, 2, 5]", "r.s < 'b'",
                   # string literals whose white space matters (two blanks, a tab)
                   "r.s == 'a  b'", "r.s == 'a\tb'", "r.s in ['a  b', 'zz']", "'  ' in r.s",
                   # results that are falsy / truthy without being booleans
                   "r.s", "r.z", "r.l", "r.n % 2", "lower(r.s)", "r.missing", "r.t and r.s", "r.s or r.q", "r.n - 3",
                   # a comparison on a field one type lacks OR a helper / typed matcher that looks at values
                   "r.q == 'zz' or field_contains(r, ['s'], ['A'])", "r.missing == 1 or field_equals(r, ['s'], ['a'])", "r.q == 'zz' or field_regex(r, ['s'], 'A.*')",
                   "r.q == 'zz' or Type.string == 'Ab'", "r.m == 'zz' or field_contains(r, ['s', 'w'], ['zz'])"]


def run(tier):
    from flow.record import RecordWriter
    from flow.record.selector import CompiledSelector, Selector

    ctx = check.Ctx(PROP, tier)
    thorough = tier == "thorough"
    ctx.design("FilterLoop", "MC_FilterLoop.cfg", "all sequences <= 4 over 3 record shapes x 5 selector kinds", actions=("Step",), workers=4)
    if thorough:
        ctx.sensitivity("FilterLoop", "MC_FilterLoop_dev_ns.cfg", "a namespace that survives between records must violate OutIsFilter", "OutIsFilter", workers=4)
        ctx.sensitivity("FilterLoop", "MC_FilterLoop_dev_ign.cfg", "an adapter that ignores the selector must violate OutIsFilter", "OutIsFilter", workers=4)
        ctx.sensitivity("FilterLoop", "MC_FilterLoop_dev_false.cfg", "a reader that skips only on `is False` must violate OutIsFilter", "OutIsFilter", workers=4)
        ctx.sensitivity("FilterLoop", "MC_FilterLoop_dev_cache.cfg", "a per-type reject cache must violate OutIsFilter", "OutIsFilter", workers=4)
    exprs, _ = sg.c07_exprs(ctx.rnd, 1500)
    pool = [sg.src(e) for e, t in exprs if sg.supported_interpreted(e)]
    sels = EXTRA_SELECTORS + ctx.rnd.sample(pool, 40 if not thorough else 400)
    tmp = common.scratch("c10")
    cases, metas = [], []
    nseq = 3 if not thorough else 10
    for aname, (url, descs) in adapters().items():
        for q in range(nseq):
            for f in os.listdir(tmp):
                os.remove(os.path.join(tmp, f))
            full = url.replace("://", "://" + tmp + "/") if "://" in url else os.path.join(tmp, url)
            n = ctx.rnd.randint(3, 8)
            written = []
            with RecordWriter(full) as w:
                for i in range(1, n + 1):
                    rec = build(ctx.rnd.choice(descs), i, ctx.rnd)
                    written.append((i, {fn: getattr(rec, fn) for _, fn in rec._desc.get_field_tuples()}))
                    w.write(rec)
            for s in sels:
                forms = {"text": s}
                try:
                    forms["selector"] = Selector(s)
                    forms["compiled"] = CompiledSelector(s)
                except SyntaxError:
                    continue
                for fname, so in forms.items():
                    if fname == "compiled" and ("fields(" in s):
                        continue  # `fields` exists only in the interpreted namespace
                    c = run_case(full, so, n, written, REF.get(s) if aname in ("stream", "streamgz", "json") else None)
                    c["adapter"], c["form"] = aname, fname
                    cases.append(c)
                    metas.append((aname, fname, s, q))
                    ctx.case((aname, fname, s, q))
    # readers opened through a URL that carries adapter options in its query string (the selector must survive that)
    from flow.record import RecordDescriptor as _RD

    DQ = _RD("t/query", [("varint", "n"), ("string", "q")])
    for aname, wurl, rurl in (("stream?query", "stream://" + os.path.join(tmp, "q.records"), "stream://" + os.path.join(tmp, "q.records") + "?unusedarg=1"),
                              ("json?query", "jsonfile://" + os.path.join(tmp, "q.json"), "jsonfile://" + os.path.join(tmp, "q.json") + "?unusedarg=1"),
                              ("sqlite?query", "sqlite://" + os.path.join(tmp, "q.db"), "sqlite://" + os.path.join(tmp, "q.db") + "?batch_size=5"),
                              ("csv?query", "csvfile://" + os.path.join(tmp, "q.csv"), "csvfile://" + os.path.join(tmp, "q.csv") + "?unusedarg=1")):
        with RecordWriter(wurl) as w:
            for i in range(1, 7):
                w.write(DQ(i, "a" if i % 2 else "x", _generated=gen.GEN))
        for s in ("r.q == 'a'", "r.n in [1, 2, 5]", "not r.q == 'a'") if not aname.startswith("csv") else ("r.q == 'a'", "r.n in ['1', '2', '5']"):
            for fname, mk in (("text", lambda s: s), ("selector", Selector), ("compiled", CompiledSelector)):
                c = run_case(rurl, mk(s), 6)
                c["adapter"], c["form"] = aname, fname
                cases.append(c)
                metas.append((aname, fname, s, 0))
                ctx.case((aname, fname, s))
    # GROUPED records of differing composition under one group name (all grouped records are instances of one Python class,
    # and two of these even have the same flattened fields): with / without the field q, members of different types
    from flow.record import GroupedRecord

    GDa, GDb, GDb2 = _RD("t/gsel", [("varint", "n"), ("string", "s")]), _RD("t/gother", [("string", "q")]), _RD("t/gother2", [("string", "q")])
    def _g(kind, i):
        a = GDa(i, "a" if i % 2 else "b", _generated=gen.GEN)
        if kind == "with-q":
            return GroupedRecord("g/mix", [a, GDb("a" if i % 3 else "x", _generated=gen.GEN)])
        if kind == "with-q-other-member-type":
            return GroupedRecord("g/mix", [a, GDb2("a" if i % 3 else "x", _generated=gen.GEN)])
        return GroupedRecord("g/mix", [a])
    for oname, order in (("without-first", ["no-q", "with-q", "with-q-other-member-type", "no-q", "with-q", "with-q-other-member-type", "with-q"]),
                         ("with-first", ["with-q-other-member-type", "with-q", "no-q", "with-q", "with-q-other-member-type", "no-q"])):
        pg = os.path.join(tmp, "grouped_%s.records" % oname)
        gwritten = []
        with RecordWriter(pg) as w:
            for i, kind in enumerate(order, 1):
                g = _g(kind, i)
                w.write(g)
                gwritten.append((i, dict({"n": i, "s": str(g.s), "_names": [m._desc.name for m in g.records]}, **({"q": str(g.q)} if kind != "no-q" else {}))))
        gref = {"r.q == 'a'": lambda v: v.get("q") == "a", "r.q in ['a', 'x']": lambda v: v.get("q") in ("a", "x"), "'t/gother' in names(r)": lambda v: "t/gother" in v["_names"],
                "'t/gother2' in names(r)": lambda v: "t/gother2" in v["_names"], "'t/gsel' in names(r) and 't/gother' in names(r)": lambda v: "t/gsel" in v["_names"] and "t/gother" in v["_names"], "name(r) == 'g/mix'": lambda v: True,
                "r.s == 'a' and r.q == 'a'": lambda v: v["s"] == "a" and v.get("q") == "a", "field_equals(r, ['q'], ['a'])": lambda v: v.get("q") == "a", "has_field(r, 'q')": lambda v: "q" in v}
        for s in ("r.q == 'a'", "r.q != 'a'", "r.q in ['a', 'x']", "'t/gother' in names(r)", "'t/gother2' in names(r)", "'t/gsel' in names(r) and 't/gother' in names(r)", "name(r) == 'g/mix'", "r.s == 'a' and r.q == 'a'",
                  "field_equals(r, ['q'], ['a'])", "has_field(r, 'q')"):
            for fname, mk in (("text", lambda s: s), ("selector", Selector), ("compiled", CompiledSelector)):
                c = run_case(pg, mk(s), len(order), gwritten if s in gref else None, gref.get(s))
                c["adapter"], c["form"] = "stream/grouped-" + oname, fname
                cases.append(c)
                metas.append((c["adapter"], fname, s, 0))
                ctx.case((c["adapter"], fname, s))
    # records that are EQUAL apart from the fields configured to be ignored in comparisons, filtered on such a field while
    # that configuration is active: the answer belongs to the record at hand, not to one that merely compares equal to it
    from flow.record.base import ignore_fields_for_comparison

    DI = _RD("t/ign", [("varint", "n"), ("string", "s"), ("string", "same")])
    pi = os.path.join(tmp, "ign.records")
    with RecordWriter(pi) as w:
        for i in range(1, 9):
            w.write(DI(i, "a" if i in (1, 4, 5, 8) else "b", "same", _generated=gen.GEN, _source="hostA" if i % 3 else "hostB"))
    with ignore_fields_for_comparison({"n", "s", "_source", "_generated"}):
        for s in ("r.s == 'a'", "r._source == 'hostB'", "r.s == 'a' and r._source == 'hostA'", "r.n in [2, 3, 4]"):
            for fname, mk in (("text", lambda s: s), ("selector", Selector), ("compiled", CompiledSelector)):
                ref = {"r.s == 'a'": lambda v: v["s"] == "a", "r.n in [2, 3, 4]": lambda v: v["n"] in (2, 3, 4)}.get(s)
                wr = [(i, {"n": i, "s": "a" if i in (1, 4, 5, 8) else "b"}) for i in range(1, 9)]
                c = run_case(pi, mk(s), 8, wr if ref else None, ref)
                c["adapter"], c["form"] = "stream+ignore-setting", fname
                cases.append(c)
                metas.append(("stream+ignore-setting", fname, s, 0))
                ctx.case(("ignore-setting", fname, s))
    # hand-made CSV input with RAGGED rows (fewer cells than the header, an empty line): a missing trailing cell is an unset field
    ragged = os.path.join(tmp, "ragged.csv")
    with open(ragged, "w", newline="") as f:
        f.write('"n","s","q"\r\n"1","a","x"\r\n"2"\r\n"3","b"\r\n"4","a","x"\r\n"5","a"\r\n"6"\r\n"7","","a"\r\n"8"\r\n')
    for s in ("r.s == 'a'", "r.q == 'x'", "r.s != 'a'", "not r.s", "r.q", "r.s == 'a' and r.q == 'x'", "r.q == None", "r.s in ['a', 'b']", "field_equals(r, ['q'], ['x'])"):
        for fname, mk in (("text", lambda s: s), ("selector", Selector), ("compiled", CompiledSelector)):
            c = run_case("csvfile://" + ragged, mk(s), 8)
            c["adapter"], c["form"] = "csv-ragged", fname
            cases.append(c)
            metas.append(("csv-ragged", fname, s, 0))
            ctx.case(("csv-ragged", fname, s))
    # process-wide state: two fresh interpreters meet the same-name descriptors in opposite orders
    for order in ("plain-first", "extra-field-first"):
        for c in common.in_fresh_process("c10", "fixed_order_cases", order):
            cases.append(c)
            metas.append((c["adapter"] + "/" + order, c["form"], c["selector"], 0))
            ctx.case(("fixed-order", order, c["adapter"], c["form"], c["selector"]))
    # process-wide state between SELECTORS: the same list evaluated forwards, backwards and shuffled by fresh interpreters
    runs = {o: common.in_fresh_process("c10", "selector_order_cases", o) for o in ("forward", "backward", str(ctx.seed + 3), str(ctx.seed + 4))}
    base = runs["forward"]
    for stext in KW_SELECTORS:
        same = all(runs[o].get(stext) == base.get(stext) for o in runs)
        n = len(base[stext])
        recs = [{"id": i + 1, "inline": base[stext][i] is True, "after": base[stext][i] is True, "pure": True, "stable": all(runs[o][stext][i] == base[stext][i] for o in runs)} for i in range(n)]
        cases.append({"recs": recs, "ref_ok": True, "end_inline": "end", "end_after": "end", "values_equal": True, "n_all": n, "adapter": "selector-order", "form": "both"})
        metas.append(("selector-order", "both engines, 4 evaluation orders", stext, 0))
        ctx.case(("selector-order", stext))
    # the same selector object used from two places at once
    for c, src in reentrant_cases():
        cases.append(c)
        metas.append(("reentrant", c["form"], src, 0))
        ctx.case(("reentrant", c["form"], src))
    for i in (0, len(cases) // 2):
        ctx.sample({"adapter": metas[i][0], "form": metas[i][1], "selector": metas[i][2], "case": cases[i]})
    path = os.path.join(common.scratch("c10t"), "cases.json")
    tlc.write_json(path, cases)
    r = ctx.tlc("Trace_Filter", "Trace_Filter.cfg", f"{len(cases)} (adapter, selector, form, sequence) cases", env={"TRACE_FILE": path})
    seen = set()
    for v in r.violations:
        cid = v["state"].get("cid")
        if cid is None:
            raise MachineryError(f"cannot attribute counter-example: {v}")
        if cid in seen:
            continue
        seen.add(cid)
        a, f, s, q = metas[cid - 1]
        ctx.violation({"check": v["inv"], "adapter": a, "form": f, "selector": s}, {"case": cases[cid - 1]})
    ctx.count(len(cases), sum(len(c["recs"]) for c in cases))
    ctx.extra["rule"] = "cases = adapters (stream, stream+gzip, json, avro, csv, sqlite) x record sequences of 3..8 records over two descriptors x selectors (20 hand-written typed/helper/generator forms + a seeded sample of the C07 grammar) x 3 selector forms"
    return ctx.finish()
