"""C13 -- timestamps are timezone-aware and keep their instant everywhere.

Specification: spec/Timestamps.tla (tzinfo kind x input form x storage format x display setting; Aware,
InputInstant, InstantKept, OffsetRule, DisplayOnlyShows -- TLC also shows that losing `fold` on the way in breaks
InputInstant) and spec/Trace_Timestamps.tla.
Binding: the matrix tzinfo kind (naive, UTC, fixed offsets incl. sub-minute, IANA zones with normal / fold 0 / fold 1 /
gap wall times) x year class (1, 1969, 1970, 2038, 9999) x input form (object, ISO text, epoch number) x storage
format (binary stream, JSON, SQLite, Avro) on the real code: the instant of the input is computed with the
standard library (fold-aware) and compared with the instant and offset of the field value and of the value read
back.  The same records are written in sub-processes under different FLOW_RECORD_TZ / TZ settings and the bytes
must be identical.
"""
import datetime as dt, hashlib, io, json, os, subprocess, sys
from zoneinfo import ZoneInfo

from vf import check, common, gen, tlc
from vf.common import MachineryError

PROP = "C13"
UTC = dt.timezone.utc
EPOCH = dt.datetime(1970, 1, 1, tzinfo=UTC)
AMS = ZoneInfo("Europe/Amsterdam")
NYC = ZoneInfo("America/New_York")


def instant(d):
    """fold-aware UTC instant of an aware datetime as [days, seconds, microseconds] since the epoch (plain stdlib arithmetic)"""
    off = d.utcoffset()
    naive_utc = dt.datetime(d.year, d.month, d.day, d.hour, d.minute, d.second, d.microsecond) - off   # plain stdlib object (the field type re-adds UTC on replace)
    delta = naive_utc - dt.datetime(1970, 1, 1)
    return [delta.days, delta.seconds, delta.microseconds]


def offset_s(d):
    o = d.utcoffset()
    return None if o is None else o.days * 86400 + o.seconds


def inputs():
    """(kind, yearclass, aware datetime that IS the intended input, how to present it as object)"""
    out = []
    fixed = dt.timezone(dt.timedelta(hours=5, minutes=30))
    sub = dt.timezone(dt.timedelta(seconds=-3661))
    # (2106-02-07T06:28:16Z is 2**32 seconds, 2262-04-11 is 2**63 nanoseconds, 3000 / 9000 are simply far away)
    years = {"y1": (1, 1, 2), "y1969": (1969, 12, 31), "y1970": (1970, 1, 1), "y2038": (2038, 1, 19), "y2106": (2106, 2, 7), "y2107": (2107, 3, 4), "y2262": (2262, 4, 12),
             "y3000": (3000, 1, 1), "y9000": (9000, 6, 6), "y9999": (9999, 12, 30)}
    for yc, (y, m, d) in years.items():
        base = (y, m, d, 3, 14, 8, 123456)
        out.append(("naive", yc, dt.datetime(*base)))                       # naive means UTC
        out.append(("utc", yc, dt.datetime(*base, tzinfo=UTC)))
        out.append(("fixed", yc, dt.datetime(*base, tzinfo=fixed)))
        out.append(("subminute", yc, dt.datetime(*base, tzinfo=sub)))
        if 1900 < y < 2100:
            out.append(("zone", yc, dt.datetime(*base, tzinfo=AMS)))
    out.append(("zone", "normal", dt.datetime(2021, 7, 1, 12, 0, 0, 1, tzinfo=AMS)))
    out.append(("fold0", "dst-end", dt.datetime(2021, 10, 31, 2, 30, 0, 5, tzinfo=AMS, fold=0)))
    out.append(("fold1", "dst-end", dt.datetime(2021, 10, 31, 2, 30, 0, 5, tzinfo=AMS, fold=1)))
    out.append(("fold1", "dst-end-nyc", dt.datetime(2021, 11, 7, 1, 30, 0, 0, tzinfo=NYC, fold=1)))
    out.append(("fold0", "dst-end-nyc", dt.datetime(2021, 11, 7, 1, 30, 0, 0, tzinfo=NYC, fold=0)))
    out.append(("gap", "dst-start", dt.datetime(2021, 3, 28, 2, 30, 0, 0, tzinfo=AMS)))
    out.append(("gap", "dst-start-fold1", dt.datetime(2021, 3, 28, 2, 30, 0, 0, tzinfo=AMS, fold=1)))
    return out


CHILD = r'''
import sys, os, io, hashlib, datetime as dt, warnings
warnings.simplefilter("ignore")
sys.path.insert(0, sys.argv[1])
from zoneinfo import ZoneInfo
from flow.record import RecordDescriptor, RecordStreamWriter, RecordWriter
from flow.record.jsonpacker import JsonRecordPacker
D = RecordDescriptor("t/disp", [("datetime", "ts"), ("datetime[]", "tl"), ("string", "s")])
vals = [dt.datetime(2021, 10, 31, 2, 30, tzinfo=ZoneInfo("Europe/Amsterdam")), dt.datetime(2020, 1, 1, 12, 0, 0, 5), dt.datetime(1969, 1, 1, tzinfo=dt.timezone(dt.timedelta(hours=-8))), None,
        # the edges of the year range: converting these to a display zone with a non-zero offset overflows, so anything that
        # formats a record on the way to storage shows up as a failure that depends on the setting
        dt.datetime(1, 1, 1, tzinfo=dt.timezone.utc), dt.datetime(1, 1, 1, 3, 0, 0, 1, tzinfo=dt.timezone(dt.timedelta(hours=1))),
        dt.datetime(9999, 12, 31, 23, 59, 59, 999999, tzinfo=dt.timezone.utc), dt.datetime(9999, 12, 31, 20, tzinfo=dt.timezone(dt.timedelta(hours=-3))),
        # the other input forms: epoch numbers, ISO text with and without an offset, a naive object -- none of them may be read
        # through the process's own time zone
        1600000000, 1600000000.5, -86400 * 365, "2021-07-01T12:30:15", "2021-07-01T12:30:15+05:30", "2021-12-01T00:00:00.000001Z", dt.datetime(2021, 7, 1, 12, 30, 15, 250)]
recs = [D(v, [v] if v else [], "x", _generated=dt.datetime(2020, 2, 2, tzinfo=dt.timezone.utc)) for v in vals]
b = io.BytesIO(); w = RecordStreamWriter(b)
for r in recs: w.write(r)
h = hashlib.sha256(b.getvalue()); w.fp = None
p = JsonRecordPacker()
for r in recs: h.update(p.pack(r).encode())
tmp = sys.argv[2]
for url in ("o.avro", "sqlite://o.db"):
    full = url.replace("://", "://" + tmp + "/") if "://" in url else os.path.join(tmp, url)
    DA = RecordDescriptor("t/dispa", [("datetime", "ts"), ("string", "s")])
    with RecordWriter(full) as w2:
        for v in vals: w2.write(DA(v, "x", _generated=dt.datetime(2020, 2, 2, tzinfo=dt.timezone.utc)))
import sqlite3
con = sqlite3.connect(os.path.join(tmp, "o.db")); h.update(repr(con.execute('select * from "t/dispa"').fetchall()).encode()); con.close()
import fastavro
h.update(repr([sorted(r.items()) for r in fastavro.reader(open(os.path.join(tmp, "o.avro"), "rb"))]).encode())
# comparison and hashing are not affected either
h.update(repr([recs[0] == recs[1], hash(recs[0]) == hash(D(vals[0], [vals[0]], "x", _generated=dt.datetime(2020, 2, 2, tzinfo=dt.timezone.utc)))]).encode())
print(h.hexdigest())
'''


def run(tier):
    from flow.record import RecordDescriptor, RecordReader, RecordStreamReader, RecordStreamWriter, RecordWriter
    import flow.record.fieldtypes as ft

    ctx = check.Ctx(PROP, tier)
    thorough = tier == "thorough"
    ctx.design("Timestamps", "MC_Timestamps.cfg", "8 tzinfo kinds x 3 input forms x 4 storage formats x 4 display settings, display changes as actions", actions=("SetDisplay",), workers=4)
    ctx.sensitivity("Timestamps", "MC_Timestamps_dev.cfg", "losing fold on the way in must violate InputInstant", "InputInstant", workers=4)
    tmp = common.scratch("c13")
    D = RecordDescriptor("t/ts", [("datetime", "ts"), ("varint", "n")])
    # a type whose FIRST version (in this process and in the database) has no timestamp field; the second one adds it
    Devo_old = RecordDescriptor("t/tsevo", [("varint", "n")])
    Devo_new = RecordDescriptor("t/tsevo", [("varint", "n"), ("datetime", "ts")])
    cases = []
    ins = inputs()
    if thorough:
        for _, v in gen.random_values("datetime", ctx.rnd, 300):
            ins.append(("random", "rnd", v))
    for kind, yc, d in ins:
        aware_in = d if d.tzinfo is not None else d.replace(tzinfo=UTC)
        try:
            in_inst, in_off = instant(aware_in), offset_s(aware_in)
        except OverflowError:
            continue
        forms = {"object": d}
        try:
            forms["isotext"] = aware_in.isoformat() if d.tzinfo is not None else d.isoformat()
            if 1 < aware_in.year < 9999:
                # epoch NUMBER: exact for whole microseconds only through integer seconds + the object's microseconds; use integer seconds
                whole = aware_in.replace(microsecond=0)
                forms["epoch"] = (instant(whole)[0] * 86400 + instant(whole)[1])
                # ... and an epoch number with a FRACTION that a float holds exactly (half a second; round g): before 1970 the
                # number is negative, where truncation and floor part ways
                if abs(forms["epoch"]) < 2 ** 40:
                    forms["epoch_half"] = forms["epoch"] + 0.5
        except Exception:
            pass
        # the same value made with the field type's OWN constructors (inherited from datetime): instances of the field type
        # are stored as they are, so they have to be right when they are made
        try:
            forms["ft_fromisoformat"] = ft.datetime.fromisoformat(forms["isotext"])
            forms["ft_components"] = ft.datetime(d.year, d.month, d.day, d.hour, d.minute, d.second, d.microsecond, d.tzinfo, fold=d.fold)
            if not d.fold:        # (combine() on a datetime SUBCLASS does not carry the fold flag over: CPython's, not the library's)
                forms["ft_combine"] = ft.datetime.combine(d.date(), d.timetz())
        except Exception:
            pass
        if kind == "naive" and yc == "y2038":
            forms["ft_replace_tzinfo_none"] = ft.datetime(aware_in).replace(tzinfo=None)
        for form, value in forms.items():
            exp_inst = in_inst if form != "epoch" else instant(aware_in.replace(microsecond=0))
            if form == "epoch_half":
                exp_inst = instant(aware_in.replace(microsecond=500000))
            try:
                rec = D(value, 1, _generated=gen.GEN)
                stored = rec.ts
                st_aware = stored.tzinfo is not None and stored.utcoffset() is not None
                st_inst, st_off = instant(stored), offset_s(stored)
            except Exception as e:
                cases.append({"kind": "roundtrip", "tz": kind, "year": yc, "form": form, "fmt": "input", "in_instant": exp_inst, "stored_instant": [0, 0, 0], "stored_offset": 0, "stored_aware": False,
                              "out_instant": [0, 0, 0], "out_offset": 0, "out_aware": False, "raised": True, "exc": type(e).__name__ + ":" + str(e)[:60], "digests": ["-"]})
                continue
            for fmt in ("binary", "binary-path", "json", "sqlite", "sqlite-evolved", "avro"):
                c = {"kind": "roundtrip", "tz": kind, "year": yc, "form": form, "fmt": fmt.split("-")[0], "via": fmt, "in_instant": exp_inst, "stored_instant": st_inst, "stored_offset": st_off, "stored_aware": st_aware,
                     "out_instant": [0, 0, 0], "out_offset": 0, "out_aware": False, "raised": False, "exc": "none", "digests": ["-"]}
                try:
                    if fmt == "binary":
                        b = io.BytesIO()
                        w = RecordStreamWriter(b)
                        w.write(rec)
                        data = b.getvalue()
                        w.fp = None
                        back = list(RecordStreamReader(io.BytesIO(data)))
                    elif fmt == "sqlite-evolved":
                        for f in os.listdir(tmp):
                            os.remove(os.path.join(tmp, f))
                        full = "sqlite://" + os.path.join(tmp, "evo.db")
                        with RecordWriter(full) as w:
                            w.write(Devo_old(0, _generated=gen.GEN))
                            w.write(Devo_new(1, value, _generated=gen.GEN))
                        back = [r for r in RecordReader(full) if int(r.n) == 1]
                    else:
                        url = {"binary-path": "o.records.gz", "json": "o.json", "sqlite": "sqlite://o.db", "avro": "o.avro"}[fmt]
                        for f in os.listdir(tmp):
                            os.remove(os.path.join(tmp, f))
                        full = url.replace("://", "://" + tmp + "/") if "://" in url else os.path.join(tmp, url)
                        with RecordWriter(full) as w:
                            w.write(rec)
                        back = list(RecordReader(full))
                    o = back[0].ts
                    c["out_aware"] = isinstance(o, dt.datetime) and o.tzinfo is not None and o.utcoffset() is not None
                    c["out_instant"], c["out_offset"] = instant(o), offset_s(o)
                except Exception as e:
                    c["raised"], c["exc"] = True, type(e).__name__ + ":" + str(e)[:60]
                cases.append(c)
                ctx.case((kind, yc, form, fmt))
    # SEQUENCES through one writer: zones whose offset is zero for part of the year, winter first and summer first (whatever
    # a writer remembers about a zone object from one timestamp must not decide how the next one is written)
    from zoneinfo import ZoneInfo as _ZI

    for zname in ("Europe/London", "Europe/Lisbon", "Africa/Casablanca", "Europe/Amsterdam"):
        z = _ZI(zname)
        winter, summer = dt.datetime(2021, 1, 15, 12, 0, 0, 1, tzinfo=z), dt.datetime(2021, 7, 15, 12, 0, 0, 2, tzinfo=z)
        for order_name, seq in (("winter-first", [winter, summer, winter, summer]), ("summer-first", [summer, winter, summer])):
            for fmt in ("binary", "json", "sqlite", "avro"):
                url = {"binary": "o.records", "json": "o.json", "sqlite": "sqlite://o.db", "avro": "o.avro"}[fmt]
                for f in os.listdir(tmp):
                    os.remove(os.path.join(tmp, f))
                full = url.replace("://", "://" + tmp + "/") if "://" in url else os.path.join(tmp, url)
                recs_ = [D(v, i, _generated=gen.GEN) for i, v in enumerate(seq)]
                try:
                    with RecordWriter(full) as w:
                        for r in recs_:
                            w.write(r)
                    back = sorted(RecordReader(full), key=lambda r: int(r.n))
                    err = None
                except Exception as e:
                    back, err = [], type(e).__name__ + ":" + str(e)[:60]
                for i, r in enumerate(recs_):
                    st = r.ts
                    c = {"kind": "roundtrip", "tz": zname, "year": order_name + "#%d" % i, "form": "object", "fmt": fmt, "via": fmt + "-sequence", "in_instant": instant(seq[i]), "stored_instant": instant(st),
                         "stored_offset": offset_s(st), "stored_aware": True, "out_instant": [0, 0, 0], "out_offset": 0, "out_aware": False, "raised": err is not None or i >= len(back), "exc": err or "none", "digests": ["-"]}
                    if not c["raised"]:
                        o = back[i].ts
                        c["out_aware"] = o.tzinfo is not None and o.utcoffset() is not None
                        c["out_instant"], c["out_offset"] = instant(o), offset_s(o)
                    cases.append(c)
                    ctx.case(("sequence", zname, order_name, i, fmt))
    # display settings: the same records written in sub-processes under different settings
    digests = []
    settings = [{}, {"FLOW_RECORD_TZ": "Europe/Amsterdam"}, {"FLOW_RECORD_TZ": "NONE"}, {"FLOW_RECORD_TZ": "America/New_York", "TZ": "Asia/Tokyo"}, {"TZ": "America/Los_Angeles"}, {"FLOW_RECORD_TZ": "Not/AZone"}]
    for env in settings:
        sub = common.scratch("c13child")
        for f in os.listdir(sub):
            os.remove(os.path.join(sub, f))
        e = {k: v for k, v in os.environ.items() if k not in ("FLOW_RECORD_TZ", "TZ")}
        e.update(env)
        p = subprocess.run(["/venv/bin/python", "-c", CHILD, os.path.realpath(common.REPO), sub], env=e, stdout=subprocess.PIPE, stderr=subprocess.PIPE, text=True, timeout=120)
        digests.append(p.stdout.strip() or ("ERR:" + p.stderr.strip()[-80:]))
        ctx.case(("display", json.dumps(env, sort_keys=True)))
    cases.append({"kind": "display", "tz": "-", "year": "-", "form": "-", "fmt": "-", "in_instant": [0, 0, 0], "stored_instant": [0, 0, 0], "stored_offset": 0, "stored_aware": True, "out_instant": [0, 0, 0], "out_offset": 0,
                  "out_aware": True, "raised": False, "exc": "none", "digests": digests, "settings": [json.dumps(s) for s in settings]})
    ctx.sample({"case": cases[0]})
    ctx.sample({"case": cases[-1]})
    path = os.path.join(common.scratch("c13t"), "cases.json")
    tlc.write_json(path, cases)
    r = ctx.tlc("Trace_Timestamps", "Trace_Timestamps.cfg", f"{len(cases)} timestamp cases", env={"TRACE_FILE": path}, workers=8)
    seen = set()
    for v in r.violations:
        cid = v["state"].get("cid")
        if cid is None:
            raise MachineryError(f"cannot attribute counter-example: {v}")
        if (cid, v["inv"]) in seen:
            continue
        seen.add((cid, v["inv"]))
        c = cases[cid - 1]
        ctx.violation({"check": v["inv"], "tz": c["tz"], "year": c["year"], "form": c["form"], "fmt": c["fmt"], "raised": c["raised"]}, {"case": c})
    ctx.count(len(cases), len(cases))
    ctx.extra["rule"] = "matrix tzinfo kind x year class x input form x storage format (binary on file object, binary gz path, json, sqlite, avro) + 6 display/TZ settings in sub-processes"
    ctx.assumptions += ["instants are computed and compared in Python as (days, seconds, microseconds) integers; the model decides kinds, not numbers", "an epoch NUMBER is given in whole seconds, or whole seconds plus exactly one half"]
    return ctx.finish()
