"""C16 -- rdump output is the specified slice of the filtered input.

Specification: spec/Rdump.tla (the pipeline as a pure function), spec/MC_Rdump.tla (algebraic lemmas checked
by TLC over the enumerated universe of source layouts x option combinations), spec/Trace_Rdump.tla.
Binding: configurations from the same universe become real files (raw and gzip; truncated = cut inside a
frame located with the independent decoder; garbage; missing) and a real in-process `rdump.main(argv)` call --
to a stream file (optionally split) and in the jsonlines / csv / line modes to captured stdout, with the
compiled and with the interpreted (-n) selector.  The output is parsed back independently and TLC compares it
with Pipeline(srcs, cfg).
"""
import csv, glob, hashlib, io, itertools, json, os, re, sys, datetime as dt

from vf import check, common, gen, refcodec as rc, tlc
from vf.common import MachineryError

PROP = "C16"
csv.field_size_limit(2 ** 31 - 1)       # (one run carries a 17 MiB cell)
SEL = {"none": None, "n_gt_2": "r.n > 2", "other_y": "r.other == 'y'", "s_b": "r.s == 'b'", "n_ge_other": "r.n >= 2 and r.other == 'y'",
       "other_ge_x": "r.other >= 'x'", "not_other_y": "not (r.other == 'y')"}
R = {1: [(1, "A"), (3, "A"), (2, "B")], 2: [(4, "B"), (5, "A"), (6, "B")], 3: [(7, "A"), (9, "A"), (8, "A2")]}      # (1 and 3, 7 and 9: two frames of the same length in a row)


def descs():
    from flow.record import RecordDescriptor

    A = RecordDescriptor("t/a", [("string", "s"), ("varint", "n"), ("datetime", "t1"), ("datetime", "t2")])
    B = RecordDescriptor("t/b", [("varint", "n"), ("string", "other")])
    A2 = RecordDescriptor("t/a", [("varint", "n"), ("string", "s"), ("string", "extra")])  # same name as A, other fields
    return A, B, A2


def mkrec(A, B, i, d, A2=None, big=False):
    if d == "A2":
        return A2(i, "a" if i % 2 == 1 else "b", "e" * (17 * 2 ** 20) if big else "e", _source="orig", _generated=gen.GEN)
    if d == "A":
        t2 = None if i % 5 == 0 else dt.datetime(2021, 2, i, tzinfo=dt.timezone.utc)       # record 5 has a timestamp field WITHOUT a value
        return A("a" if i % 2 == 1 else "b", i, dt.datetime(2020, 1, i, tzinfo=dt.timezone.utc), t2, _source="orig", _generated=gen.GEN)
    return B(i, "y" if i % 3 == 0 else "x", _source="orig", _generated=gen.GEN)


def src_choices(k):
    rs = [{"id": i, "d": d} for i, d in R[k]]
    out = [{"kind": "good", "recs": rs, "keep": len(rs)}, {"kind": "missing", "recs": rs, "keep": 0}, {"kind": "garbage", "recs": rs, "keep": 0}]
    out += [{"kind": "trunc", "recs": rs, "keep": k2} for k2 in range(len(rs))]
    return out


def universe(rnd, n):
    lays = [list(x) for x in itertools.product(src_choices(1), src_choices(2), src_choices(3))]
    fields = [[], ["n"], ["other", "n", "bogus"], ["t2", "n", "t1"], ["other"], ["extra", "t1"]]      # the last two leave NO field for some record type
    excls = [[], ["s"], ["t1"]]
    out = []
    for _ in range(n):
        cfg = {"skip": rnd.choice([0, 0, 1, 2]), "cnt": rnd.choice([0, 0, 1, 3]), "sel": rnd.choice(list(SEL)), "fields": rnd.choice(fields), "excl": rnd.choice(excls),
               "override": rnd.choice(["no", "no", "no", "set", "empty"]), "mts": rnd.random() < 0.4, "split": rnd.choice([0, 0, 2, 1]), "sl": rnd.choice([0, 0, 1])}
        out.append((rnd.choice(lays), cfg))
    return out


class Files:
    def __init__(self, tmp, A, B, A2):
        self.tmp, self.A, self.B, self.A2, self.cache = tmp, A, B, A2, {}

    def path(self, src, idx):
        from flow.record import RecordWriter

        key = json.dumps(src, sort_keys=True) + str(idx)
        if key in self.cache:
            return self.cache[key]
        gz = idx == 1 and src["kind"] == "good"
        cutgz = idx == 2 and src["kind"] == "trunc"          # the truncated THIRD source (index 2) is also compressed (and its gzip trailer is gone)
        p = os.path.join(self.tmp, "s_" + hashlib.md5(key.encode()).hexdigest()[:10] + (".records.gz" if gz else ".cut.records.gz" if cutgz else ".records"))
        if src["kind"] == "garbage" and idx == 2:
            # a gzip file whose compressed data is CORRUPT (not cut): the decompressor raises its own kind of error
            import gzip, zlib

            p = p[: -len(".records")] + ".corrupt.records.gz"
            blob = bytearray(gzip.compress(rc.header_frame() + b"".join(rc.record_frame("t/b", [("varint", "n"), ("string", "other")], [i, "x" * 40, None, None, None, 1]) for i in range(30)), mtime=0))
            for j in range(12, 40):
                blob[j] ^= 0x5A
            with open(p, "wb") as f:
                f.write(bytes(blob))
        elif src["kind"] == "garbage" and idx == 1:
            # a well-framed stream whose first frame after the header is of a kind no reader knows (the packer raises a bare Exception)
            with open(p, "wb") as f:
                import struct

                raw = lambda body: struct.pack(">I", len(body)) + body
                f.write(rc.header_frame() + raw(bytes([0xC7, 0x02, 0x55, 0x01, 0x02])) + raw(bytes([0xC7, 0x03, 0x0E, 0x7E, 0x01, 0x02])))
        elif src["kind"] == "garbage":
            with open(p, "wb") as f:
                f.write(b"this is not a record stream at all, just bytes" * 3)
        elif src["kind"] != "missing":
            praw = p if not cutgz else p[: -len(".gz")]
            with RecordWriter(praw) as w:
                for r in src["recs"]:
                    w.write(mkrec(self.A, self.B, r["id"], r["d"], self.A2, big=bool(src.get("big"))))
            if src["kind"] == "trunc":
                data = open(praw, "rb").read()
                fr, dec = rc.frames(data), rc.decode_stream(data)
                recpos = [i for i, x in enumerate(dec) if x[0] == "REC"]
                f = fr[recpos[src["keep"]]]  # first frame that is NOT intact
                # where inside the first damaged frame the file ends: in the middle, or -- first source -- two bytes before its end
                # (what is missing then equals the end of the previous frame of the same type)
                cut = data[: f[0] + 4 + (f[1] // 2 if idx != 0 else f[1] - 2)]
                if cutgz:
                    import gzip

                    os.remove(praw)
                    cut = gzip.compress(cut, mtime=0)[:-8]
                with open(p, "wb") as out:
                    out.write(cut)
        self.cache[key] = p
        return p


def parse_stream_file(path):
    """independent decoding of a written stream file -> list of output records as the model describes them"""
    with open(path, "rb") as f:
        data = f.read()
    dec = rc.decode_stream(data)
    descs, out = {}, []
    for d in dec:
        if d[0] == "DESC":
            descs[(d[1], rc.descriptor_hash(d[1], d[2]))] = d
        elif d[0] == "REC":
            ident = (str(d[1][0]), d[1][1])
            desc = descs[ident]
            names = [n for t, n in desc[2]]
            vals = dict(zip(names + ["_source", "_classification", "_generated", "_version"], d[2]))
            out.append({"id": vals.get("n", 0) or 0, "d": "B" if desc[1] == "t/b" else "A", "fields": names, "src": vals["_source"] if vals["_source"] is not None else "none",
                        "cls": vals["_classification"] if vals["_classification"] is not None else "none", "tsd": vals.get("ts_description", "none") or "none",
                        "_ts": vals.get("ts"), "_vals": vals})
    return out


def check_values(rec):
    try:
        return _check_values(rec)
    except Exception:
        return False  # a value of an unexpected shape is a changed value


def _check_values(rec):
    """values other than the overridden metadata must be unchanged; ts must equal the field named by ts_description"""
    v = rec["_vals"]
    i = v.get("n")
    ok = True
    if "s" in v:
        ok &= v["s"] == ("a" if i % 2 == 1 else "b") if i else True
    if "other" in v and i:
        ok &= v["other"] == ("y" if i % 3 == 0 else "x")
    T2 = lambda i: None if i % 5 == 0 else ("dt", 2021, 2, i, 0, 0, 0, 0)
    same = lambda got, exp: got is None if exp is None else (got is not None and tuple(got) == exp)
    if rec["tsd"] != "none" and i:
        exp = ("dt", 2020, 1, i, 0, 0, 0, 0) if rec["tsd"] == "t1" else T2(i)
        ok &= same(rec["_ts"], exp)
    for f, exp in (("t1", lambda i: ("dt", 2020, 1, i, 0, 0, 0, 0)), ("t2", T2)):
        if f in v and i:
            ok &= same(v[f], exp(i))
    return bool(ok)


def run_rdump(files, lay, cfg, mode, compiled, tmp):
    from flow.record.tools import rdump

    srcs = [files.path(s, i) for i, s in enumerate(lay)]
    for f in glob.glob(os.path.join(tmp, "out*")):
        os.remove(f)
    argv = list(srcs) + ["--skip", str(cfg["skip"])]
    if cfg["cnt"]:
        argv += ["-c", str(cfg["cnt"])]
    if SEL[cfg["sel"]]:
        argv += ["-s", SEL[cfg["sel"]]]
    if cfg["fields"]:
        argv += ["-F", ",".join(cfg["fields"])]
    if cfg["excl"]:
        argv += ["-X", ",".join(cfg["excl"])]
    if cfg["override"] == "set":
        argv += ["--record-source", "OVR", "--record-classification", "CLS"]
    elif cfg["override"] == "empty":
        argv += ["--record-source", "", "--record-classification", ""]
    if cfg["mts"]:
        argv += ["--multi-timestamp"]
    if not compiled:
        argv += ["-n"]
    case = {"srcs": lay, "cfg": cfg, "mode": mode, "compiled": compiled, "raised": False, "exc": "none", "parts": [], "values_ok": True}
    if mode in ("wjson", "wcsv"):
        # -w with a bare path: the extension selects the writer (json lines with descriptors / csv), whatever other options are given
        out = os.path.join(tmp, "out.json" if mode == "wjson" else "out.csv")
        argv += ["-w", out]
        try:
            rdump.main(argv)
        except BaseException as e:  # noqa
            if isinstance(e, KeyboardInterrupt):
                raise
            case["raised"], case["exc"] = True, type(e).__name__ + ":" + str(e)[:80]
        recs = []
        try:
            text = open(out, "rb").read().decode("utf-8", "surrogateescape") if os.path.exists(out) else ""
            if mode == "wjson":
                for line in text.splitlines():
                    o = json.loads(line)
                    if o.get("_type") != "record":
                        continue
                    names = [k for k in o if not k.startswith("_")]
                    recs.append({"id": o.get("n", 0) or 0, "d": "-", "fields": names, "src": "-", "cls": "-", "tsd": o.get("ts_description") or "none"})
            else:
                hdr = None
                for row in csv.reader(io.StringIO(text, newline="")):
                    if "_source" in row:
                        hdr = row
                        continue
                    i = int(row[hdr.index("n")]) if hdr and "n" in hdr and row[hdr.index("n")].isdigit() else 0
                    recs.append({"id": i, "d": "-", "fields": [], "src": "-", "cls": "-", "tsd": "-"})
        except Exception as e:
            case["raised"], case["exc"] = True, "unparsable output: " + type(e).__name__ + ":" + str(e)[:60]
        case["parts"] = [recs]
        return case
    if mode == "stream":
        out = os.path.join(tmp, "out.records")
        argv += ["-w", out]
        if cfg["split"]:
            argv += ["--split", str(cfg["split"])]
            if cfg.get("sl"):
                argv += ["--suffix-length", str(cfg["sl"])]     # fewer digits than the number of parts needs: the names must still be distinct
        try:
            rdump.main(argv)
        except BaseException as e:  # noqa
            if isinstance(e, KeyboardInterrupt):
                raise
            case["raised"], case["exc"] = True, type(e).__name__ + ":" + str(e)[:80]
        # parts in the NUMERIC order of their suffix (a suffix may outgrow its configured length)
        fs = sorted(glob.glob(os.path.join(tmp, "out*")), key=lambda f: [int(x) for x in re.findall(r"\d+", os.path.basename(f))] + [os.path.basename(f)])
        for f in fs:
            try:
                recs = parse_stream_file(f) if os.path.getsize(f) else []
            except Exception as e:
                case["raised"], case["exc"] = True, "unreadable output: " + type(e).__name__
                recs = []
            case["values_ok"] &= all(check_values(r) for r in recs)
            case["parts"].append([{k: v for k, v in r.items() if not k.startswith("_")} for r in recs])
        return case
    # stdout modes
    argv += ["-m", mode] if mode not in ("list", "text") else (["-l"] if mode == "list" else [])    # "text": rdump's default output
    case["listed"], case["processed"] = [], -1
    buf = io.BytesIO()
    saved = sys.stdout
    wrapper = io.TextIOWrapper(buf, encoding="utf-8", errors="surrogateescape", newline="", write_through=True)
    sys.stdout = wrapper
    raw = b""
    try:
        rdump.main(argv)
    except BaseException as e:  # noqa
        if isinstance(e, KeyboardInterrupt):
            raise
        case["raised"], case["exc"] = True, type(e).__name__ + ":" + str(e)[:80]
    finally:
        sys.stdout = saved
        try:
            wrapper.flush()
            raw = buf.getvalue()
            wrapper.detach()
        except Exception:
            case["raised"], case["exc"] = True, "stdout was closed by the tool"
    text = raw.decode("utf-8", "surrogateescape")
    recs = []
    try:
        if mode == "jsonlines":
            for line in text.splitlines():
                o = json.loads(line)
                names = [k for k in o if not k.startswith("_")]
                recs.append({"id": o.get("n", 0) or 0, "d": "-", "fields": names, "src": "-", "cls": "-", "tsd": o.get("ts_description") or "none"})
        elif mode == "csv":
            rows = list(csv.reader(io.StringIO(text, newline="")))
            hdr = None
            for row in rows:
                if "_source" in row or row[:1] in (["s"], ["n"], ["ts"], ["other"], ["t2"], ["t1"]):
                    if not any(c.isdigit() and len(c) < 3 for c in row) or hdr is None or "_generated" in row:
                        hdr = row
                        continue
                i = int(row[hdr.index("n")]) if hdr and "n" in hdr else 0
                recs.append({"id": i, "d": "-", "fields": [], "src": "-", "cls": "-", "tsd": "-"})
        elif mode == "text":
            for line in text.splitlines():
                m = re.search(r"\bn=(\d+)", line)
                recs.append({"id": int(m.group(1)) if m else 0, "d": "-", "fields": [], "src": "-", "cls": "-", "tsd": "-"})
        elif mode == "list":
            for m in re.finditer(r'RecordDescriptor\("([^"]+)", \[\n(.*?)\]\)', text, re.S):
                case["listed"].append({"name": m.group(1), "fields": [n for n in re.findall(r'\("[^"]+", "([^"]+)"\)', m.group(2)) if not n.startswith("_")]})
            pm = re.search(r"^Processed (\d+) records$", text, re.M)
            case["processed"] = int(pm.group(1)) if pm else -1
        elif mode == "line":
            for blk in re.split(r"^--\[ RECORD \d+ \]--\n", text, flags=re.M)[1:]:
                m = re.search(r"^\s*n = (\d+)$", blk, re.M)
                recs.append({"id": int(m.group(1)) if m else 0, "d": "-", "fields": [], "src": "-", "cls": "-", "tsd": "-"})
    except Exception as e:
        case["raised"], case["exc"] = True, "unparsable output: " + type(e).__name__ + ":" + str(e)[:60]
    case["parts"] = [recs]
    return case


def run(tier):
    ctx = check.Ctx(PROP, tier)
    thorough = tier == "thorough"
    ctx.design("MC_Rdump", "MC_Rdump_small.cfg" if not thorough else "MC_Rdump.cfg",
               "pipeline lemmas (identity, count bound, isolation of bad sources, slice-after-filter, projection keeps records, split) over layouts x options", timeout=3000)
    A, B, A2 = descs()
    tmp = common.scratch("c16")
    files = Files(tmp, A, B, A2)
    uni = universe(ctx.rnd, 700 if not thorough else 12000)
    # always include the plain identity run and the documented corner cases
    plain = {"skip": 0, "cnt": 0, "sel": "none", "fields": [], "excl": [], "override": "no", "mts": False, "split": 0, "sl": 0}
    lay_good = [src_choices(1)[0], src_choices(2)[0], src_choices(3)[0]]
    # a legitimately LARGE record (17 MiB of text in one field) in an intact source, followed by nothing / preceded by records
    lay_big = [src_choices(1)[0], src_choices(2)[0], dict(src_choices(3)[0], big=True)]
    uni = [(lay_big, plain), (lay_big, dict(plain, sel="other_ge_x")), (lay_good, plain), (lay_good, dict(plain, mts=True)), (lay_good, dict(plain, sel="other_ge_x")), (lay_good, dict(plain, mts=True, split=1, sl=1)), (lay_good, dict(plain, split=1, sl=1)), ([src_choices(1)[1], src_choices(2)[2], src_choices(3)[0]], plain)] + uni
    cases = []
    for k, (lay, cfg) in enumerate(uni):
        modes = [("stream", True), ("stream", False)]
        if k % 3 == 0:
            modes += [(m, k % 2 == 0) for m in ("jsonlines", "csv", "line", "text")]
        if k % 3 == 2:
            modes += [("wjson", k % 2 == 0), ("wcsv", k % 2 == 1)]
        if k % 3 == 1:
            modes += [("list", k % 2 == 0)]
        for mode, compiled in modes:
            if mode in ("csv", "wcsv") and cfg["fields"] in (["other"], ["extra", "t1"]):
                continue      # rows without any column cannot be told from blank lines by the CSV parser of this harness
            c = run_rdump(files, lay, cfg if mode == "stream" else dict(cfg, split=0, **({"mts": False} if mode == "list" else {})), mode, compiled, tmp)
            cases.append(c)
            ctx.case(json.dumps([[s["kind"], s["keep"]] for s in lay]) + json.dumps(cfg, sort_keys=True) + mode + str(compiled))
    ctx.sample({"case": cases[5]})
    path = os.path.join(common.scratch("c16t"), "cases.json")
    # the TLC model treats fields as sequences of names: an empty -F list is <<>>
    tlc.write_json(path, cases)
    r = ctx.tlc("Trace_Rdump", "Trace_Rdump.cfg", f"{len(cases)} rdump runs", env={"TRACE_FILE": path})
    seen, drift = set(), 0
    for v in r.violations:
        cid = v["state"].get("cid")
        if cid is None:
            raise MachineryError(f"cannot attribute counter-example: {v}")
        c = cases[cid - 1]
        if v["inv"] in ("Contract", "ContractList"):
            if cid in seen:
                continue
            seen.add(cid)
            ctx.violation({"check": v["inv"], "mode": c["mode"], "compiled": c["compiled"], "sel": c["cfg"]["sel"], "mts": c["cfg"]["mts"], "split": c["cfg"]["split"],
                           "fields": ",".join(c["cfg"]["fields"]), "excl": ",".join(c["cfg"]["excl"]), "raised": c["raised"]},
                          {"case": c})
        else:
            drift += 1
    for i, c in enumerate(cases):
        if not c["values_ok"] and (i + 1) not in seen:
            ctx.violation({"check": "values-unchanged", "mode": c["mode"], "mts": c["cfg"]["mts"], "fields": ",".join(c["cfg"]["fields"])}, {"case": c})
    if drift:
        ctx.note(f"model drift on {drift} runs (part boundaries differ from the greedy split; contract evaluated separately)")
        print(f"MODEL-DRIFT property={PROP}: {drift} runs")
    ctx.count(len(cases), sum(sum(len(p) for p in c["parts"]) for c in cases))
    ctx.extra["rule"] = ("configurations drawn with the seed from layouts (3 sources, each good / missing / garbage / truncated after k records; one source gzip) x options "
                         "(skip, count, 7 selectors incl. comparisons on a field only one type has, -F, -X, metadata overrides, --multi-timestamp, --split) x output (stream file, jsonlines, csv, line) x compiled / -n")
    ctx.assumptions += ["--count 0 is excluded (the tool's help leaves its meaning open); -E and network adapters are outside"]
    return ctx.finish()
