"""C04 -- a damaged stream yields an intact prefix, never altered records.

Specification: spec/StreamBytes.tla (writer micro-steps, faults, reader; Design => Contract checked by TLC),
spec/Trace_Bytes.tla (conformance).  Binding = fault enumeration on the real code: for generated streams
(raw and gzip) every byte offset as a cut, and every index of a failing or short fp.write x partial
counts; the frame layout comes from the independent decoder, the observation from the real reader; TLC
evaluates the contract (verdict) and the as-built reader model (drift) on every case.
"""
import gzip, io, json, os, signal, zlib

from vf import check, codecdrv as cd, common, gen, observe, refcodec as rc, tlc

PROP = "C04"


class Fault(Exception):
    pass


class FaultyFile(io.RawIOBase):
    """File object whose write call number `fail_at` (0-based) stores only `partial` bytes and then raises
    (mode 'raise') or returns the short count (mode 'short'; the history stops there).  Mode 'transient': that one
    call raises with nothing written and every later call works again (the application carries on).  Mode
    'short-continue': that one call stores `partial` bytes and returns the count; every later call works (a raw file
    object under memory / quota pressure): the writer has to hand over the rest."""

    def __init__(self, fail_at=None, partial=0, mode="raise"):
        self.data = bytearray()
        self.calls = []
        self.fail_at, self.partial, self.mode = fail_at, partial, mode
        self.tripped = False

    def writable(self):
        return True

    def write(self, b):
        b = bytes(b)
        i = len(self.calls)
        if self.tripped:
            return len(b)  # the process is gone after the short write: nothing else reaches the disk
        if self.fail_at is not None and i == self.fail_at and self.mode == "transient":
            self.calls.append(len(b))
            raise Fault("injected transient write failure")
        if self.fail_at is not None and i == self.fail_at and self.mode == "short-continue":
            j = min(self.partial if self.partial >= 0 else len(b) + self.partial, max(len(b) - 1, 0))
            self.data += b[:j]
            self.calls.append(len(b))
            return j
        if self.fail_at is not None and i == self.fail_at and self.mode == "blocking-continue":
            # a non-blocking pipe / socket that is full: it takes j bytes, SAYS so in the exception, and works again later
            j = min(self.partial if self.partial >= 0 else len(b) + self.partial, max(len(b) - 1, 0))
            self.data += b[:j]
            self.calls.append(len(b))
            import errno

            raise BlockingIOError(errno.EAGAIN, "write could not complete without blocking", j)
        if self.fail_at is not None and i == self.fail_at:
            j = min(self.partial if self.partial >= 0 else len(b) + self.partial, max(len(b) - 1, 0))
            self.data += b[:j]
            self.calls.append(len(b))
            self.tripped = True
            if self.mode == "raise":
                raise Fault("injected write failure")
            return j
        self.calls.append(len(b))
        self.data += b
        return len(b)

    def flush(self):
        pass


def _idents(node, acc):
    """identifiers (name, hash) a REC / GRP node carries, recursively"""
    if isinstance(node, tuple) and len(node) == 3 and node[0] == "GRP":
        for m in node[2]:
            _idents(m, acc)
    elif isinstance(node, tuple) and len(node) == 3 and node[0] == "REC":
        i = node[1]
        acc.append((str(i[0]), i[1]) if isinstance(i, tuple) and len(i) == 2 else ("?", str(i)))
        for v in node[2]:
            _idents(v, acc)
    elif isinstance(node, tuple):
        for v in node:
            _idents(v, acc)
    return acc


def layout_of(data, lost_at=None, lost=None, hole=False):
    """frame layout of a stream as the independent decoder sees it: kind, body size, and the descriptor ids a frame
    defines (DESC) or needs (REC).  ids number the distinct (name, fields) definitions in order of appearance; a REC's
    identifier resolves to the latest definition the WRITER began under it.  `lost` = (decoded node, body size) of a
    frame that never reached the disk, to be placed at index `lost_at`."""
    items = [(d, n, False) for (off, n, body), d in zip(rc.frames(data), rc.decode_stream(data))]
    if lost is not None:
        items.insert(lost_at, (lost[0], lost[1], True))
    lay, dids, intent = [], {}, {}
    for d, n, islost in items:
        ishole, islost = (islost and hole), (islost and not hole)
        if d[0] == "HDR":
            lay.append({"k": "HDR", "len": n, "ids": [], "lost": islost})
        elif d[0] == "DESC":
            key = (d[1], tuple(d[2]))
            did = dids.setdefault(key, len(dids) + 1)
            intent[(d[1], rc.descriptor_hash(d[1], d[2]))] = did
            lay.append({"k": "DESC", "len": n, "ids": [did], "lost": islost})
        else:
            ids = sorted({intent.get(i, 0) for i in _idents(d, [])})
            lay.append({"k": "REC", "len": n, "ids": ids, "lost": islost})
        lay[-1]["hole"] = ishole
    return lay


class Runaway(Exception):
    pass


class Dribble(io.RawIOBase):
    """a raw file object that never takes more than `n` bytes per write call (a nearly full pipe): every part of every
    frame goes out in several short writes in a row"""

    def __init__(self, n, limit):
        self.data, self.n, self.limit = bytearray(), n, limit

    def writable(self):
        return True

    def write(self, b):
        if len(self.data) > self.limit:
            raise Runaway("the writer keeps writing: far more bytes than the whole stream has")
        b = bytes(b)[: self.n]
        self.data += b
        return len(b)

    def flush(self):
        pass


class Hang(BaseException):
    pass


HANGS = [0]          # reads that neither ended nor raised; after a few the enumeration stops (each costs the full timeout)
MAX_HANGS = 3


def _alarm(sig, frm):
    raise Hang()


def read_disk(blob, via="fileobj", tmp=None, ext=".records"):
    """-> (list of records yielded, 'end' | 'raise', exception name)"""
    from flow.record import RecordReader, RecordStreamReader

    out, how, exc = [], "end", None
    signal.signal(signal.SIGALRM, _alarm)
    signal.setitimer(signal.ITIMER_REAL, 20.0 if not HANGS[0] else 3.0)      # a reader that neither ends nor raises is observed as "hang"
    try:
        if via == "fileobj":
            it = RecordReader(fileobj=io.BytesIO(blob))
        elif via == "lowlevel":
            it = RecordStreamReader(io.BytesIO(blob))
        else:
            p = os.path.join(tmp, "cut" + ext)
            with open(p, "wb") as f:
                f.write(blob)
            it = RecordReader(p)
        for r in it:
            out.append(r)
    except Hang:
        how, exc = "hang", "no end and no exception within 20 s"
        HANGS[0] += 1
    except BaseException as e:  # noqa
        if isinstance(e, (KeyboardInterrupt, SystemExit)):
            raise
        how, exc = "raise", type(e).__name__
    finally:
        signal.setitimer(signal.ITIMER_REAL, 0)
    return out, how, exc


def identical(out, obs_written):
    if len(out) > len(obs_written):
        return False
    try:
        return all(cd.obs_key(a) == b for a, b in zip(out, obs_written))
    except Exception:
        return False


def run(tier):
    from flow.record import RecordStreamWriter

    ctx = check.Ctx(PROP, tier, level="model_checking")
    thorough = tier == "thorough"
    ctx.design("StreamBytes", "MC_StreamBytes.cfg", "exhaustive: <=4 frames after the header x body sizes {1,2} x every failing call x every partial count", actions=("Begin", "Body"), workers=4)
    if thorough:
        for d, must in (("BoundaryRaises", True), ("TolerantBody", True), ("SkipAfterDesc", True), ("LostDescTolerated", True), ("IgnoresShortCount", True)):
            ctx.sensitivity("StreamBytes", f"MC_StreamBytes_dev_{d}.cfg", f"deviation {d} must violate IntactPrefix", "IntactPrefix", workers=4)
        r = ctx.tlc("StreamBytes", "MC_StreamBytes_dev_ShortLenRaises.cfg", "negative control: raising instead of ending inside a length prefix is NOT a violation", workers=4)
        if r.violations:
            raise common.MachineryError("negative control ShortLenRaises violated the contract: the contract is too strict")
    streams = gen.fixed_streams() + gen.sample_streams(ctx.rnd, 10 if not thorough else 60, (3, 7) if not thorough else (3, 12)) + gen.big_streams()
    cases, meta = [], []
    tmp = common.scratch("c04files")
    for si, recs in enumerate(streams):
        if HANGS[0] >= MAX_HANGS:
            ctx.note(f"enumeration stopped after {HANGS[0]} reads that neither ended nor raised")
            break
        buf = io.BytesIO()
        w = RecordStreamWriter(buf)
        for r in recs:
            w.write(r)
        data = buf.getvalue()
        w.fp = None
        written = [cd.obs_key(r) for r in recs]
        try:
            lay = layout_of(data)
        except Exception as e:
            ctx.violation({"check": "layout", "stream": si}, {"error": repr(e)})
            continue
        if si < 2:
            ctx.sample({"stream": si, "layout": lay, "bytes": len(data), "records": len(recs)})
        # (a) every byte offset of the raw stream (for a stream with very large frames: the offsets around every frame
        #     boundary and a seeded sample of the others)
        big = len(data) > 20000
        if big:
            edges, pos = set(), 0
            for f in lay:
                for dlt in (-2, -1, 0, 1, 2, 3, 4, 5):
                    edges.add(pos + dlt)
                pos += 4 + f["len"]
            edges |= {len(data) - 1, len(data)} | set(ctx.rnd.sample(range(len(data)), 60))
            all_cuts = sorted(c for c in edges if 0 <= c <= len(data))
        else:
            all_cuts = range(0, len(data) + 1)
        for cut in all_cuts:
            if HANGS[0] >= MAX_HANGS:
                break
            vias = ["fileobj", "lowlevel"] + (["path"] if thorough or cut % 5 == si % 5 else [])
            for via in vias:
                out, how, exc = read_disk(data[:cut], via, tmp)
                cases.append({"layout": lay, "cut": cut, "pin_boundary": True, "raw": True, "calls_comparable": True, "calls": [],
                              "obs": {"yielded": len(out), "identical": identical(out, written), "how": how}})
                meta.append({"kind": "cut:" + via, "stream": si, "cut": cut, "exc": exc})
        # (b) gzip container: cut the compressed file; "on disk" = what a streaming zlib decoder recovers
        gz = io.BytesIO()
        with gzip.GzipFile(fileobj=gz, mode="wb", mtime=0) as g:
            g.write(data)
        gzb = gz.getvalue()
        gstep = 1 if not big else max(1, len(gzb) // 150)
        for cut in list(range(0, len(gzb), gstep)) + [len(gzb)]:
            try:
                plain = zlib.decompressobj(wbits=31).decompress(gzb[:cut])
            except zlib.error:
                plain = b""
            for via in ["fileobj"] + (["path"] if thorough or cut % 3 == 0 else []):
                out, how, exc = read_disk(gzb[:cut], via, tmp, ".records.gz")
                # a compressed file that stops where the decoded bytes end exactly at a frame boundary (a writer that flushed and
                # is still running, a file that lost its trailer) is a stream that ends at a frame boundary: it reads without error
                cases.append({"layout": lay, "cut": len(plain), "pin_boundary": True, "raw": False, "calls_comparable": True, "calls": [],
                              "obs": {"yielded": len(out), "identical": identical(out, written), "how": how}})
                meta.append({"kind": "gzcut:" + via, "stream": si, "cut": cut, "plain": len(plain), "exc": exc})
        # (c) every index of a failing / short fp.write x partial counts
        ncalls = 2 * len(lay)
        if big:
            continue        # the call-level faults are covered by the ordinary streams
        for mode in ("raise", "short"):
            for k in range(ncalls):
                for partial in (0, 1, -1):
                    ff = FaultyFile(k, partial, mode)
                    w = RecordStreamWriter(ff)
                    try:
                        for r in recs:
                            w.write(r)
                            if ff.tripped:
                                break
                    except Fault:
                        pass
                    except OSError:
                        if not ff.tripped:      # the writer may refuse to go on after a write that took nothing
                            raise
                    except Exception as e:
                        ctx.violation({"check": "writer-fault-handling", "exc": type(e).__name__}, {"stream": si, "call": k})
                    w.fp = None
                    disk = bytes(ff.data)
                    out, how, exc = read_disk(disk)
                    cases.append({"layout": lay, "cut": len(disk), "pin_boundary": True, "raw": True, "calls_comparable": True, "calls": ff.calls,
                                  "obs": {"yielded": len(out), "identical": identical(out, written) and data.startswith(disk), "how": how}})
                    meta.append({"kind": "fault:" + mode, "stream": si, "call": k, "partial": partial, "disk": len(disk), "exc": exc})
        # (c2) a SHORT write after which the writer lives on: one fp.write call takes only part of its data and says so
        for k, partial, cmode in [(k, partial, "short-continue") for k in range(ncalls) for partial in (0, 1, 2, 3, -1, -2, -4)] + \
                                 [(k, partial, "blocking-continue") for k in range(ncalls) for partial in (1, 3, -1)]:
            if True:
                ff = FaultyFile(k, partial, cmode)
                w = RecordStreamWriter(ff)
                wrote_all = True
                try:
                    for r in recs:
                        w.write(r)
                except Exception as e:
                    wrote_all = False      # refusing to go on is fine; going on over a hole is not
                w.fp = None
                disk = bytes(ff.data)
                out, how, exc = read_disk(disk)
                try:
                    slay = layout_of(disk) if wrote_all else lay
                except Exception:
                    slay = lay                 # not even a frame sequence any more: judged against the intended layout
                cases.append({"layout": slay if wrote_all else lay, "cut": len(disk), "pin_boundary": True, "raw": wrote_all, "calls_comparable": False, "calls": [],
                              "obs": {"yielded": len(out), "identical": identical(out, written), "how": how}})
                meta.append({"kind": cmode, "stream": si, "call": k, "partial": partial, "disk": len(disk), "exc": exc, "writer_went_on": wrote_all})
        # (c3) a file object that takes at most n bytes per call, for every call: the stream must come out byte for byte the same
        for nmax in (1, 2, 3, 5, 64):
            dr = Dribble(nmax, 3 * len(data) + 1000)
            w = RecordStreamWriter(dr)
            wrote_all = True
            try:
                for r in recs:
                    w.write(r)
            except Runaway as e:
                ctx.violation({"check": "writer-runs-away", "kind": "dribble", "max_bytes_per_call": nmax}, {"stream": si, "error": str(e)})
                wrote_all = False
            except Exception:
                wrote_all = False
            w.fp = None
            disk = bytes(dr.data)
            out, how, exc = read_disk(disk)
            cases.append({"layout": lay, "cut": len(disk), "pin_boundary": True, "raw": wrote_all and disk == data, "calls_comparable": False, "calls": [],
                          "obs": {"yielded": len(out), "identical": identical(out, written) and (disk == data or not wrote_all), "how": how}})
            meta.append({"kind": "dribble", "stream": si, "call": nmax, "partial": None, "disk": len(disk), "exc": exc, "same_bytes": disk == data})
        # (d) a transient failure: one fp.write(length) call raises with nothing written and the application carries
        #     on with the next record -- the frame is absent, the stream stays well formed
        colliding = len({(f["k"], tuple(f["ids"])) for f in lay if f["k"] == "DESC"}) != len(
            {rc.descriptor_hash(d[1], d[2]) for d in rc.decode_stream(data) if d[0] == "DESC"})
        refnodes = rc.decode_stream(data)
        for k in ([] if colliding else range(0, ncalls)):
            ff = FaultyFile(k, 0, "transient")
            w = RecordStreamWriter(ff)
            okw = []
            for r in recs:
                try:
                    w.write(r)
                    okw.append(cd.obs_key(r))
                except Fault:
                    pass
                except Exception as e:
                    ctx.violation({"check": "writer-fault-handling", "exc": type(e).__name__}, {"stream": si, "call": k, "mode": "transient"})
            w.fp = None
            disk = bytes(ff.data)
            try:
                if k % 2 == 0:
                    tlay = layout_of(disk, k // 2, (refnodes[k // 2], lay[k // 2]["len"]))
                else:
                    # a failing BODY call: the length part is on disk, what follows is misaligned -- the frames behind the
                    # hole are recovered from the bytes behind the dangling length
                    at = sum(4 + f["len"] for f in lay[: k // 2]) + 4
                    tlay = layout_of(disk[: at - 4] + disk[at:], k // 2, (refnodes[k // 2], lay[k // 2]["len"]), hole=True)
            except Exception as e:
                ctx.violation({"check": "transient-layout", "stream": si, "call": k}, {"error": repr(e)})
                continue
            for via in ("fileobj", "lowlevel"):
                out, how, exc = read_disk(disk, via)
                cases.append({"layout": tlay, "cut": len(disk), "pin_boundary": True, "raw": True, "calls_comparable": True, "calls": ff.calls,
                              "obs": {"yielded": len(out), "identical": identical(out, okw), "how": how}})
                meta.append({"kind": "transient:" + via, "stream": si, "call": k, "lost": tlay[k // 2]["k"], "disk": len(disk), "exc": exc})
    for c, m in zip(cases, meta):
        ctx.case((m["stream"], m["kind"].split(":")[0], m.get("cut", m.get("call")), m.get("partial")))
    # TLC evaluates contract and design on every case (chunks of <= 15 MB of JSON)
    path_dir = common.scratch("c04")
    chunk, start, size = [], 0, 0
    def flush(chunk, start):
        p = os.path.join(path_dir, f"cases_{start}.json")
        tlc.write_json(p, chunk)
        r = ctx.tlc("Trace_Bytes", "Trace_Bytes.cfg", f"conformance cases {start}..{start+len(chunk)-1}", env={"TRACE_FILE": p})
        os.remove(p)
        drift = 0
        seen = set()
        for v in r.violations:
            cid = v["state"].get("cid")
            if cid is None:
                raise common.MachineryError(f"cannot attribute TLC counter-example to a case: {v}")
            m = meta[start + cid - 1]
            c = cases[start + cid - 1]
            if v["inv"] == "Contract":
                if cid in seen:
                    continue
                seen.add(cid)
                ctx.violation({"check": "IntactPrefix", "kind": m["kind"], "stream_layout": "".join(f["k"][0] for f in c["layout"]), "cut": c["cut"],
                               "obs": c["obs"]}, {"case": c, "meta": m})
            else:
                drift += 1
                if drift <= 3:
                    print(f"MODEL-DRIFT property={PROP} {v['inv']}: {m} obs={c['obs']} (contract still evaluated separately)")
        if drift:
            ctx.note(f"model drift on {drift} cases")
        ctx.count(len(chunk), len(chunk))
    for i, c in enumerate(cases):
        chunk.append(c)
        size += 60 + 50 * len(c["layout"]) + 4 * len(c["calls"])
        if size > 12_000_000:
            flush(chunk, start)
            chunk, start, size = [], i + 1, 0
    if chunk:
        flush(chunk, start)
    ctx.level = "model_checking"
    ctx.extra["rule"] = "one case per (stream, byte offset) for raw streams, per compressed offset for gzip, per (failing fp.write index, partial count, raise|short); distinct = distinct (stream, fault) pairs"
    ctx.extra["fault_kinds"] = sorted({m["kind"] for m in meta})
    import collections
    ctx.extra["transient_outcomes"] = {f"{k[0]}/{k[1]}": n for k, n in sorted(collections.Counter((m["lost"], c["obs"]["how"]) for c, m in zip(cases, meta) if m["kind"].startswith("transient")).items())}
    ctx.assumptions += ["faults are single: one cut or one failing call per history", "a transient failure (the application carries on) is a failing LENGTH call with nothing written: the frame is absent; failing body calls leave a misaligned stream about which the property says nothing",
                        "transient failures are not combined with descriptor pairs whose identifiers coincide (C03's recorded finding)", "a short write is followed by no further writes (otherwise 'frames completely written' is undefined)",
                        "for gzip the bytes 'on disk' are the plain prefix recovered by an independent streaming zlib decoder"]
    return ctx.finish()
