"""C19 -- Avro export preserves supported values and never corrupts silently.

Specification: spec/CodecAvro.tla (mapped / unmapped field types, representability classes, the allowed outcomes
same / single precision / UTC instant / refused, a second descriptor in one file) and spec/Trace_Avro.tla.
Binding: write histories on the real AvroWriter -- good records around one probe record of every field type x
representability class (None, fits, beyond 32 bit, beyond 64 bit, text Avro cannot hold), or a probe of a second
descriptor with the same or another name -- are read back with AvroReader and with fastavro.reader directly; the
probe's outcome, the integrity of the surrounding records, the descriptor carried in the schema and the
container's validity are logged and TLC checks them against the model.
"""
import datetime as dt, io, json, math, os, struct

import subprocess, io
from vf import check, common, gen, tlc
from vf.common import MachineryError

PROP = "C19"
UTC = dt.timezone.utc


def probes():
    """(type, class, value)"""
    vc = gen.value_classes()
    P = []
    for T in ("varint", "filesize", "unix_file_mode"):
        P += [(T, "none", None), (T, "fits", 0), (T, "fits", 2**31), (T, "fits", 2**63 - 1), (T, "beyond32", 2**40), (T, "beyond64", 2**63), (T, "beyond64", 2**64 + 5)]
        if T == "varint":
            P += [(T, "fits", -(2**63)), (T, "beyond64", -(2**63) - 1), (T, "beyond64", 2**200), (T, "fits", -1)]
    P += [("uint16", "none", None), ("uint16", "fits", 0), ("uint16", "fits", 65535)]
    P += [("uint32", "none", None), ("uint32", "fits", 0), ("uint32", "fits", 2**31 - 1), ("uint32", "beyond32", 2**31), ("uint32", "beyond32", 2**32 - 1)]
    P += [("float", "none", None)] + [("float", "fits", v) for l, v in vc["float"] if v is not None] + [("float", "fits", 16777217.0), ("float", "fits", 1e39)]
    P += [("boolean", "none", None), ("boolean", "fits", True), ("boolean", "fits", False)]
    P += [("datetime", "none", None)] + [("datetime", "fits", v) for l, v in vc["datetime"] if v is not None]
    for T in ("string", "wstring", "uri"):
        P += [(T, "none", None), (T, "fits", ""), (T, "fits", "café \U0001f600"), (T, "fits", "a\x00b"), (T, "nonutf8", "ab\udcff")]
    P += [("bytes", "none", None), ("bytes", "fits", b""), ("bytes", "fits", b"\x00\xff" * 40)]
    P += [("digest", "fits", (gen.MD5, None, None)), ("digest", "none", None)]
    P += [("path", "fits", "/a/b"), ("net.ipaddress", "fits", "1.2.3.4"), ("string[]", "fits", ["a"]), ("command", "fits", "ls -l"), ("dynamic", "fits", "x"),
          ("stringlist", "fits", ["a"]), ("net.tcp.Port", "fits", 80)]
    return P


def f32(x):
    try:
        return struct.unpack(">f", struct.pack(">f", x))[0]
    except OverflowError:
        return math.copysign(math.inf, x)


def same_float(a, b):
    return (a != a and b != b) or (a == b and math.copysign(1, a) == math.copysign(1, b))


def classify(T, written, got):
    """outcome of one probe value that was found in the file"""
    if written is None:
        return "same" if got is None else "different"
    if T == "float":
        if same_float(float(got), f32(float(written))):
            return "single"
        return "same" if same_float(float(got), float(written)) else "different"
    if T == "datetime":
        w = written if written.tzinfo else written.replace(tzinfo=UTC)
        if not isinstance(got, dt.datetime) or got.tzinfo is None:
            return "different"
        gw, ww = got.astimezone(UTC), w.astimezone(UTC)      # compare instants as UTC wall clocks (aware == is special around folds)
        same = (gw.year, gw.month, gw.day, gw.hour, gw.minute, gw.second, gw.microsecond) == (ww.year, ww.month, ww.day, ww.hour, ww.minute, ww.second, ww.microsecond)
        return "utc" if (got.utcoffset() == dt.timedelta(0) and same) else "different"
    if T == "boolean":
        return "same" if bool(got) == bool(written) else "different"
    if T in ("string", "wstring", "uri"):
        return "same" if str(got) == written else "different"
    if T == "bytes":
        return "same" if bytes(got) == written else "different"
    return "same" if got == written else "different"


def optimized_cases(_arg):
    """Run in an interpreter started with PYTHONOPTIMIZE=1 (assert statements are stripped): a record of a second type offered
    to an Avro writer -> cases for Trace_Avro (probe kinds second-same-name / second-other-name)."""
    import fastavro

    from flow.record import RecordDescriptor
    from flow.record.adapter.avro import AvroWriter

    assert False, "never evaluated under -O"      # (if this raises, the interpreter is NOT optimising)
    tmp = common.scratch("c19opt")
    out = []
    for kind in ("second-same-name", "second-other-name"):
        p = os.path.join(tmp, "o.avro")
        if os.path.exists(p):
            os.remove(p)
        D = RecordDescriptor("av/opt", [("varint", "n"), ("string", "f")])
        F2 = RecordDescriptor("av/opt" if kind == "second-same-name" else "av/opt_other", [("varint", "n"), ("string", "g")])
        case = {"T": "string", "c": "none", "probe": kind, "layout": "last (python -O)", "outcome": "?", "probe_in_file": False, "good_records_intact": True, "std_reader_opens": True,
                "descriptor_carried": True, "exc": "none", "value": "a record of a second type, interpreter started with PYTHONOPTIMIZE=1", "times": 1}
        w = AvroWriter(p)
        w.write(D(1, "a", _generated=gen.GEN))
        w.write(D(2, "b", _generated=gen.GEN))
        refused = False
        try:
            w.write(F2(99, "x", _generated=gen.GEN))
        except BaseException as e:  # noqa
            refused, case["exc"] = True, type(e).__name__ + ":" + str(e)[:60]
        w.flush()
        w.close()
        with open(p, "rb") as fh:
            std = list(fastavro.reader(fh))
        ns = [r.get("n") for r in std]
        case["probe_in_file"] = 99 in ns
        case["good_records_intact"] = [n for n in ns if n != 99] == [1, 2]
        case["outcome"] = "refused" if refused else ("written-with-first-schema" if 99 in ns else "dropped")
        out.append(case)
    return out


def colliding_cases():
    """Round g: a SECOND record type whose descriptor has the same name AND the same 32-bit identifier as the file's type
    (the identifier is computed over the name and the field names and types strung together: `xw`+`string` and
    `x`+`wstring` are the same characters).  It is still a second type and must be refused, not encoded under the first
    type's schema.  -> cases for Trace_Avro (probe kind second-same-name)."""
    import fastavro
    from flow.record import RecordDescriptor
    from flow.record.adapter.avro import AvroWriter

    tmp = common.scratch("c19col")
    out = []
    A = [("varint", "n"), ("string", "xw")]
    B = [("varint", "n"), ("wstring", "x")]
    for first, second, order in ((A, B, "string xw, then wstring x"), (B, A, "wstring x, then string xw")):
        for layout in ("last", "middle"):
            p = os.path.join(tmp, "o.avro")
            if os.path.exists(p):
                os.remove(p)
            D, F2 = RecordDescriptor("av/col", first), RecordDescriptor("av/col", second)
            case = {"T": "string", "c": "none", "probe": "second-same-name", "layout": f"{layout} (same descriptor hash: {order})", "outcome": "?", "probe_in_file": False,
                    "good_records_intact": True, "std_reader_opens": True, "descriptor_carried": True, "exc": "none",
                    "value": "a record of a second type whose identifier coincides with the first type's", "times": 1, "same_identifier": D.identifier == F2.identifier}
            w = AvroWriter(p)
            w.write(D(1, "a", _generated=gen.GEN))
            w.write(D(2, "b", _generated=gen.GEN))
            refused = False
            try:
                w.write(F2(99, "probe", _generated=gen.GEN))
            except Exception as e:
                refused, case["exc"] = True, type(e).__name__ + ":" + str(e)[:60]
            try:
                if layout == "middle":
                    w.write(D(3, "c", _generated=gen.GEN))
                w.flush()
                w.close()
                with open(p, "rb") as fh:
                    std = list(fastavro.reader(fh))
                ns = [r.get("n") for r in std]
                case["probe_in_file"] = 99 in ns
                case["good_records_intact"] = [n for n in ns if n != 99] == ([1, 2, 3] if layout == "middle" else [1, 2])
            except Exception as e:
                case["good_records_intact"] = False
                case["exc"] = "after the probe: " + type(e).__name__ + ":" + str(e)[:60]
            case["outcome"] = "refused" if refused else ("written-with-first-schema" if case["probe_in_file"] else "dropped")
            out.append(case)
    return out


def tz_cases(arg):
    """Run in a NEW interpreter whose local time zone (TZ) is not UTC: timestamps of every kind are exported to Avro and
    read back; the instant must not depend on where the exporting process runs."""
    import time

    import fastavro
    from flow.record import RecordDescriptor
    from flow.record.adapter.avro import AvroReader, AvroWriter

    if hasattr(time, "tzset"):
        time.tzset()
    tmp = common.scratch("c19tz")
    D = RecordDescriptor("av/tz", [("varint", "n"), ("datetime", "f")])
    vals = [v for l, v in gen.value_classes()["datetime"] if v is not None]
    out = []
    for v in vals:
        p = os.path.join(tmp, "o.avro")
        if os.path.exists(p):
            os.remove(p)
        case = {"T": "datetime", "c": "fits", "probe": "value", "layout": "alone", "outcome": "?", "probe_in_file": True, "good_records_intact": True, "std_reader_opens": True,
                "descriptor_carried": True, "exc": "none", "value": repr(v)[:50], "tz": arg}
        try:
            w = AvroWriter(p)
            w.write(D(99, v, _generated=gen.GEN))
            w.flush()
            w.close()
            rd = AvroReader(p)
            lib = list(rd)
            rd.close()
            with open(p, "rb") as fh:
                std = list(fastavro.reader(fh))
            o1, o2 = classify("datetime", v, lib[0].f), classify("datetime", v, std[0]["f"])
            case["outcome"] = o1 if o1 == o2 or o2 in ("same", "single", "utc") else "different"
            g = lib[0]._generated
            if g is None or g.astimezone(UTC).replace(tzinfo=None) != gen.GEN.astimezone(UTC).replace(tzinfo=None):
                case["good_records_intact"] = False
        except Exception as e:
            case["outcome"], case["exc"] = "refused", type(e).__name__ + ":" + str(e)[:60]
            case["probe_in_file"] = False
        out.append(case)
    return out


def run(tier):
    import fastavro
    from flow.record import RecordDescriptor, RecordReader, RecordWriter
    from flow.record.adapter.avro import AvroReader, AvroWriter

    ctx = check.Ctx(PROP, tier)
    thorough = tier == "thorough"
    ctx.design("CodecAvro", "MC_CodecAvro.cfg", "21 field types x representability classes x second-descriptor kinds", workers=4)
    ctx.sensitivity("CodecAvro", "MC_CodecAvro_dev.cfg", "a mixed-type test by name only must violate MixedRefused", "MixedRefused", workers=4)
    if thorough:
        ctx.sensitivity("CodecAvro", "MC_CodecAvro_dev2.cfg", "a mixed-type test skipped for the descriptor seen last must violate MixedRefused", "MixedRefused", workers=4)
    tmp = common.scratch("c19")
    cases = []
    uniq = [0]

    def history(T, c, value, probe_kind, layout, times=1):
        uniq[0] += 1
        p = os.path.join(tmp, "o.avro")
        if os.path.exists(p):
            os.remove(p)
        mapped_ok = T in ("varint", "filesize", "unix_file_mode", "uint16", "uint32", "float", "boolean", "datetime", "string", "wstring", "uri", "bytes")
        # the descriptor of the file: the probe's field plus an id; for unmapped types the FIRST write already fails
        D = RecordDescriptor("av/t%d" % (uniq[0] % 7), [("varint", "n"), (T, "f")])
        G = RecordDescriptor("av/t%d" % (uniq[0] % 7), [("varint", "n"), ("string", "g")])             # same name, other fields
        O = RecordDescriptor("av/other", [("varint", "n"), (T if mapped_ok else "string", "f")])       # other name
        case = {"T": T, "c": c, "probe": probe_kind, "layout": layout, "outcome": "?", "probe_in_file": False, "good_records_intact": True, "std_reader_opens": True,
                "descriptor_carried": True, "exc": "none", "value": repr(value)[:50]}
        good_before = 2 if layout in ("middle", "last") else 0
        good_after = 2 if layout in ("middle", "first") else 0
        base_desc = D if probe_kind == "value" and mapped_ok else (D if mapped_ok else G)
        goodD = base_desc if mapped_ok or probe_kind != "value" else G

        def good(i):
            # the reserved fields carry information too: they must come back with the record
            if goodD is G:
                return G(i, "g%d" % i, _generated=gen.GEN, _source="src%d" % i, _classification="cls")
            return D(i, None, _generated=gen.GEN, _source="src%d" % i, _classification="cls")

        w = AvroWriter(p)
        refused = False
        try:
            for i in range(good_before):
                w.write(good(i + 1))
            refusals = 0
            for _k in range(times):          # `times` CONSECUTIVE records of the foreign type (a caller that carries on after the error)
                try:
                    if probe_kind == "value":
                        w.write(D(99, value, _generated=gen.GEN))
                    elif probe_kind == "second-same-name":
                        w.write((G if goodD is D else D)(99, "x" if goodD is D else None, _generated=gen.GEN))
                    else:
                        w.write(O(99, None, _generated=gen.GEN))
                except Exception as e:
                    refusals += 1
                    case["exc"] = type(e).__name__ + ":" + str(e)[:60]
            refused = refusals == times
            for i in range(good_after):
                w.write(good(10 + i))
        except Exception as e:
            case["good_records_intact"] = False
            case["exc"] = "good write failed: " + type(e).__name__ + ":" + str(e)[:60]
        try:
            w.flush()
            w.close()
        except Exception as e:
            refused_late = True
            case["exc"] = "close: " + type(e).__name__ + ":" + str(e)[:60]
            refused = True
        # standard reader
        std = []
        try:
            with open(p, "rb") as fh:
                std = list(fastavro.reader(fh))
        except Exception as e:
            case["std_reader_opens"] = False
        # library reader
        lib, libdesc = [], None
        try:
            rd = AvroReader(p)
            libdesc = rd.desc
            lib = list(rd)
            rd.close()
        except Exception as e:
            if not (refused and not good_before and not good_after):
                case["std_reader_opens"] = case["std_reader_opens"] and False
        ns = [r.get("n") for r in std]
        want_good = [i + 1 for i in range(good_before)] + [10 + i for i in range(good_after)]
        case["probe_in_file"] = 99 in ns
        case["good_records_intact"] &= [n for n in ns if n != 99] == want_good and [int(r.n) for r in lib if int(r.n) != 99] == want_good
        for r in lib:
            if int(r.n) != 99:
                case["good_records_intact"] &= (r._source == "src%d" % int(r.n) and r._classification == "cls" and r._generated is not None
                                                and r._generated.astimezone(UTC).replace(tzinfo=None) == gen.GEN.astimezone(UTC).replace(tzinfo=None))
        for r in std:
            if r.get("n") != 99:
                case["good_records_intact"] &= r.get("_source") == "src%d" % r.get("n") and r.get("_classification") == "cls" 
        if refused:
            case["outcome"] = "refused"
            if not want_good:
                case["std_reader_opens"] = True  # nothing but a refused record: an empty (or no) container is fine
        else:
            pr = [r for r in lib if int(r.n) == 99]
            ps = [r for r in std if r.get("n") == 99]
            if probe_kind != "value":
                case["outcome"] = "written-with-first-schema" if (pr or ps) else "dropped"
            elif len(pr) != 1 or len(ps) != 1:
                case["outcome"] = "dropped"
            else:
                try:
                    o1 = classify(T, value, getattr(pr[0], "f"))
                    o2 = classify(T, value, ps[0]["f"])
                    case["outcome"] = o1 if o1 == o2 or o2 in ("same", "single", "utc") else "different"
                except Exception:
                    case["outcome"] = "different"     # the probe came back without its field / in another shape
            case["descriptor_carried"] = libdesc is not None and libdesc.name == goodD.name and tuple(libdesc.get_field_tuples()) == tuple(goodD.get_field_tuples())
        return case

    for T, c, v in probes():
        for layout in (("alone", "middle", "first", "last") if thorough or c != "fits" else ("alone", "middle")):
            if T == "digest" and layout != "alone":
                continue
            if layout == "first" and T in ("path", "net.ipaddress", "string[]", "command", "dynamic", "stringlist", "net.tcp.Port"):
                continue   # a refused FIRST record fixes the writer's descriptor: later records of another type are refused too (with an error: allowed)   # no record with a digest field can be written at all, so there are no good records to put around the probe
            cases.append(history(T, c, v, "value", layout))
            ctx.case((T, c, repr(v)[:30], layout))
    # the very FIRST record offered is refused for its value; the records that follow are of another type: they are either
    # refused too or written under their OWN schema with their values -- never under the refused record's
    def after_refused_first(n_other):
        uniq[0] += 1
        p = os.path.join(tmp, "o.avro")
        if os.path.exists(p):
            os.remove(p)
        Dr = RecordDescriptor("av/r%d" % (uniq[0] % 7), [("varint", "n"), ("uint32", "f")])
        Oo = RecordDescriptor("av/o%d" % (uniq[0] % 7), [("varint", "n"), ("string", "g")])
        case = {"T": "uint32", "c": "beyond32", "probe": "after-refused-first", "layout": "first", "outcome": "?", "probe_in_file": False, "good_records_intact": True, "std_reader_opens": True,
                "descriptor_carried": True, "exc": "none", "value": "2**31 then %d records of another type" % n_other}
        w = AvroWriter(p)
        first_refused, accepted = False, []
        try:
            w.write(Dr(99, 2**31, _generated=gen.GEN))
        except Exception:
            first_refused = True
        for i in range(1, n_other + 1):
            try:
                w.write(Oo(i, "g%d" % i, _generated=gen.GEN))
                accepted.append(i)
            except Exception as e:
                case["exc"] = type(e).__name__ + ":" + str(e)[:60]
        try:
            w.flush()
            w.close()
        except Exception as e:
            case["exc"] = "close: " + type(e).__name__
        if not first_refused:
            case["outcome"] = "different"          # 2**31 does not fit a 32-bit Avro int
        elif not accepted:
            case["outcome"] = "refused"
        else:
            try:
                rd = AvroReader(p)
                lib = list(rd)
                ok = rd.desc.name == Oo.name and tuple(rd.desc.get_field_tuples()) == tuple(Oo.get_field_tuples()) and [(int(r.n), str(r.g)) for r in lib] == [(i, "g%d" % i) for i in accepted]
                rd.close()
                with open(p, "rb") as fh:
                    ok &= [(r["n"], r["g"]) for r in fastavro.reader(fh)] == [(i, "g%d" % i) for i in accepted]
                case["outcome"] = "own-schema" if ok else "different"
            except Exception as e:
                case["outcome"], case["exc"] = "different", "read: " + type(e).__name__ + ":" + str(e)[:60]
        return case

    # a record that is a GROUP of records (its fields are the members' fields): refused, or written with all its values
    def grouped_case(layout):
        from flow.record import GroupedRecord

        uniq[0] += 1
        p = os.path.join(tmp, "o.avro")
        if os.path.exists(p):
            os.remove(p)
        Da = RecordDescriptor("av/ga%d" % (uniq[0] % 7), [("varint", "n"), ("string", "f")])
        Db = RecordDescriptor("av/gb%d" % (uniq[0] % 7), [("varint", "m"), ("string", "g")])
        grp = GroupedRecord("av/grp", [Da(99, "left", _generated=gen.GEN), Db(7, "right", _generated=gen.GEN)])
        case = {"T": "string", "c": "fits", "probe": "grouped", "layout": layout, "outcome": "?", "probe_in_file": False, "good_records_intact": True, "std_reader_opens": True,
                "descriptor_carried": True, "exc": "none", "value": "GroupedRecord(n=99, f='left', m=7, g='right')"}
        w = AvroWriter(p)
        refused = False
        if layout == "last":
            w.write(Da(1, "a", _generated=gen.GEN))
        try:
            w.write(grp)
        except Exception as e:
            refused, case["exc"] = True, type(e).__name__ + ":" + str(e)[:60]
        try:
            w.flush()
            w.close()
        except Exception as e:
            refused, case["exc"] = True, "close: " + type(e).__name__ + ":" + str(e)[:60]
        std = []
        try:
            if os.path.exists(p) and os.path.getsize(p):
                with open(p, "rb") as fh:
                    std = list(fastavro.reader(fh))
        except Exception:
            case["std_reader_opens"] = False
        mine = [r for r in std if r.get("n") == 99 or r.get("m") == 7 or (r.get("n") is None and layout == "alone")]
        case["probe_in_file"] = bool(mine) or len(std) > (1 if layout == "last" else 0)
        case["good_records_intact"] = layout != "last" or (bool(std) and std[0].get("n") == 1 and std[0].get("f") == "a")
        if refused:
            case["outcome"] = "refused"
        else:
            want = {"n": 99, "f": "left", "m": 7, "g": "right"}
            rows = std[1:] if layout == "last" else std
            case["outcome"] = "same" if len(rows) == 1 and all(rows[0].get(k) == v for k, v in want.items()) else "different"
        return case

    for layout in ("alone", "last"):
        cases.append(grouped_case(layout))
        ctx.case(("grouped", layout))

    # ... and one whose members SHARE field names with different values (the grouped record shows the first member's)
    def grouped_shared_case():
        from flow.record import GroupedRecord

        uniq[0] += 1
        p = os.path.join(tmp, "o.avro")
        if os.path.exists(p):
            os.remove(p)
        Da = RecordDescriptor("av/gs%d" % (uniq[0] % 7), [("varint", "n"), ("string", "f")])
        Db = RecordDescriptor("av/gt%d" % (uniq[0] % 7), [("varint", "n"), ("string", "f"), ("string", "g")])
        grp = GroupedRecord("av/grp2", [Da(99, "left", _generated=gen.GEN, _source="first"), Db(7, "right", "only-second", _generated=gen.GEN, _source="second")])
        case = {"T": "string", "c": "fits", "probe": "grouped", "layout": "shared-names", "outcome": "?", "probe_in_file": False, "good_records_intact": True, "std_reader_opens": True,
                "descriptor_carried": True, "exc": "none", "value": "GroupedRecord([n=99 f='left'], [n=7 f='right' g='only-second'])"}
        w = AvroWriter(p)
        refused = False
        try:
            w.write(grp)
        except Exception as e:
            refused, case["exc"] = True, type(e).__name__ + ":" + str(e)[:60]
        try:
            w.flush()
            w.close()
        except Exception as e:
            refused, case["exc"] = True, "close: " + type(e).__name__ + ":" + str(e)[:60]
        std = []
        try:
            if os.path.exists(p) and os.path.getsize(p):
                with open(p, "rb") as fh:
                    std = list(fastavro.reader(fh))
        except Exception:
            case["std_reader_opens"] = False
        case["probe_in_file"] = bool(std)
        if refused:
            case["outcome"] = "refused"
        else:
            want = {"n": int(grp.n), "f": str(grp.f), "g": str(grp.g), "_source": grp._source}
            case["outcome"] = "same" if len(std) == 1 and all(std[0].get(k) == v for k, v in want.items()) else "different"
        return case

    cases.append(grouped_shared_case())
    ctx.case(("grouped", "shared-names"))

    # a record type WITHOUT fields of its own (the reserved fields carry the data): several records, then a foreign one
    def fieldless_case(n_records, then_foreign):
        uniq[0] += 1
        p = os.path.join(tmp, "o.avro")
        if os.path.exists(p):
            os.remove(p)
        Z = RecordDescriptor("av/z%d" % (uniq[0] % 7), [])
        Oo = RecordDescriptor("av/zo%d" % (uniq[0] % 7), [("varint", "n")])
        case = {"T": "string", "c": "fits", "probe": "fieldless", "layout": f"{n_records} records" + (" + foreign" if then_foreign else ""), "outcome": "?", "probe_in_file": False,
                "good_records_intact": True, "std_reader_opens": True, "descriptor_carried": True, "exc": "none", "value": "records of a type without own fields"}
        w = AvroWriter(p)
        foreign_refused = True
        try:
            for i in range(n_records):
                w.write(Z(_generated=gen.GEN, _source="src%d" % i))
            if then_foreign:
                try:
                    w.write(Oo(5, _generated=gen.GEN))
                    foreign_refused = False
                except Exception:
                    pass
            w.flush()
            w.close()
        except Exception as e:
            case["exc"] = type(e).__name__ + ":" + str(e)[:60]
            case["good_records_intact"] = False
        std, lib = [], []
        try:
            with open(p, "rb") as fh:
                std = list(fastavro.reader(fh))
            rd = AvroReader(p)
            lib = list(rd)
            case["descriptor_carried"] = rd.desc.name == Z.name and tuple(rd.desc.get_field_tuples()) == ()
            rd.close()
        except Exception as e:
            case["std_reader_opens"] = False
            case["exc"] = "read: " + type(e).__name__ + ":" + str(e)[:60]
        want = ["src%d" % i for i in range(n_records)]
        case["good_records_intact"] &= [r.get("_source") for r in std] == want and [r._source for r in lib] == want
        case["probe_in_file"] = len(std) > n_records
        case["outcome"] = "same" if case["good_records_intact"] and foreign_refused else "different"
        return case

    for n_records, then_foreign in ((1, False), (3, False), (3, True)):
        cases.append(fieldless_case(n_records, then_foreign))
        ctx.case(("fieldless", n_records, then_foreign))

    # the container written to STANDARD OUTPUT by a process of its own (the interpreter's shutdown is part of the history):
    # exactly one container header, readable to its end by a standard reader, every record in it
    for mode in ("with", "close", "closeclose", "flushclose"):
        child = (
            "import sys\nsys.path.insert(0, sys.argv[1])\nfrom flow.record import RecordDescriptor, RecordWriter\n"
            "D = RecordDescriptor('av/out', [('string', 's'), ('varint', 'n')])\nmode = sys.argv[2]\n"
            "w = RecordWriter('avro://-')\n"
            "if mode == 'with':\n    with w:\n        for i in range(10): w.write(D('r%d' % i, i))\n"
            "else:\n    for i in range(10): w.write(D('r%d' % i, i))\n"
            "    if mode == 'flushclose': w.flush()\n    w.close()\n    if mode == 'closeclose': w.close()\n")
        pr = subprocess.run(["/venv/bin/python", "-c", child, os.path.realpath(common.REPO), mode], stdout=subprocess.PIPE, stderr=subprocess.PIPE, timeout=120)
        case = {"T": "string", "c": "fits", "probe": "stdout", "layout": mode, "outcome": "?", "probe_in_file": True, "good_records_intact": True, "std_reader_opens": True,
                "descriptor_carried": True, "exc": "none" if pr.returncode == 0 else "exit %d: %s" % (pr.returncode, pr.stderr.decode("utf-8", "replace")[-80:]), "value": "10 records to avro://-"}
        data = pr.stdout
        got = []
        try:
            bio = io.BytesIO(data)
            got = [(r["s"], r["n"]) for r in fastavro.reader(bio)]
            case["std_reader_opens"] = bio.read() == b"" and data.count(b"Obj\x01") == 1
        except Exception as e:
            case["std_reader_opens"] = False
            case["exc"] = "standard reader: " + type(e).__name__ + ":" + str(e)[:60]
        case["good_records_intact"] = got == [("r%d" % i, i) for i in range(10)]
        case["outcome"] = "same" if case["good_records_intact"] and pr.returncode == 0 else "different"
        cases.append(case)
        ctx.case(("stdout", mode))

    # the same timestamps exported by processes that live in other time zones
    for tzname in ("Asia/Kolkata", "America/Los_Angeles"):
        for c in common.in_fresh_process("c19", "tz_cases", tzname, {"TZ": tzname}):
            cases.append(c)
            ctx.case(("tz", tzname, c["value"]))
    # the refusal of a second record type must not hang on how the interpreter was started (python -O strips assert statements)
    for c in common.in_fresh_process("c19", "optimized_cases", None, {"PYTHONOPTIMIZE": "1"}):
        cases.append(c)
        ctx.case(("python -O", c["probe"]))
    for c in colliding_cases():
        cases.append(c)
        ctx.case(("colliding identifier", c["layout"]))
    for n_other in (1, 3):
        cases.append(after_refused_first(n_other))
        ctx.case(("after-refused-first", n_other))
    for T in ("varint", "string", "path"):
        for kind in ("second-same-name", "second-other-name"):
            for layout in ("middle", "last"):
                for times in (1, 3):
                    cases.append(history(T, "none", None, kind, layout, times))
                    cases[-1]["times"] = times
                    ctx.case((T, kind, layout, times))
    ctx.sample({"case": cases[1]})
    ctx.sample({"case": cases[-1]})
    path = os.path.join(common.scratch("c19t"), "cases.json")
    tlc.write_json(path, cases)
    r = ctx.tlc("Trace_Avro", "Trace_Avro.cfg", f"{len(cases)} Avro write histories", env={"TRACE_FILE": path}, workers=8)
    seen = set()
    for v in r.violations:
        cid = v["state"].get("cid")
        if cid is None:
            raise MachineryError(f"cannot attribute counter-example: {v}")
        if cid in seen:
            continue
        seen.add(cid)
        c = cases[cid - 1]
        ctx.violation({"check": "Contract", "type": c["T"], "class": c["c"], "probe": c["probe"], "layout": c["layout"], "outcome": c["outcome"], "probe_in_file": c["probe_in_file"],
                       "good_records_intact": c["good_records_intact"], "std_reader_opens": c["std_reader_opens"], "descriptor_carried": c["descriptor_carried"]}, {"case": c})
    ctx.count(len(cases), len(cases))
    ctx.extra["rule"] = "one history per (field type, representability class, concrete boundary value, position of the probe among good records) + second-descriptor probes (same name / other name)"
    return ctx.finish()
