"""C03 -- every record is decoded with the descriptor it was written with.

Specification: spec/Stream.tla (registry + emission order), spec/MC_Stream.tla (exhaustive), spec/Trace_Stream.tla.
Binding: write histories are driven on the real writers (low-level RecordStreamWriter on BytesIO, path-based
RecordWriter, JsonfileWriter); after every write the new bytes are split into frames by the independent
decoder (vf.refcodec / json) and logged; at the end the stream is read back with the real reader.  TLC
evaluates the property invariants on the observed behaviour (contract mode, the verdict) and matches every
step against Stream's own Write action (design mode, drift only).
"""
import io, itertools, json, os, struct, zlib

from vf import check, common, refcodec as rc, simulate, tlc
from vf.common import MachineryError

PROP = "C03"


def universe():
    from flow.record import RecordDescriptor

    return {
        "A": RecordDescriptor("t/x", [("string", "a"), ("string", "b")]),
        "Acol": RecordDescriptor("t/x", [("string", "astringb")]),
        "A2": RecordDescriptor("t/x", [("varint", "a")]),
        "B": RecordDescriptor("t/y", [("string", "q")]),
        "H": RecordDescriptor("t/h", [("record", "r"), ("record[]", "rl")]),
        "Z": RecordDescriptor("t/z", []),                                  # a marker record: no fields at all
        "U": RecordDescriptor("t_x", [("string", "a"), ("string", "b")]),  # A's fields; the name differs only in "/" vs "_"
        "Dd": RecordDescriptor("t/d", [("uint32", "v"), ("varint", "c"), ("uint32", "v")]),   # one field name declared twice
    }


FIELDS = {
    "A": ("t/x", (("string", "a"), ("string", "b"))),
    "Acol": ("t/x", (("string", "astringb"),)),
    "A2": ("t/x", (("varint", "a"),)),
    "B": ("t/y", (("string", "q"),)),
    "H": ("t/h", (("record", "r"), ("record[]", "rl"))),
    "Z": ("t/z", ()),
    "U": ("t_x", (("string", "a"), ("string", "b"))),
    "Dd": ("t/d", (("uint32", "v"), ("varint", "c"), ("uint32", "v"))),
}
BYFT = {v: k for k, v in FIELDS.items()}
IDENT = {"A": "iA", "Acol": "iA", "A2": "iA2", "B": "iB", "H": "iH", "Z": "iZ", "U": "iU", "Dd": "iD"}
NAMEKEY = {"t/x": "nA", "t/y": "nB", "t/h": "nH", "t/z": "nZ", "t_x": "nU", "t/d": "nD"}
# identifier on the wire -> model key; computed with the independent hash of vf.refcodec
WIREKEY = {}
for _d, (_n, _f) in FIELDS.items():
    WIREKEY[(_n, rc.descriptor_hash(_n, _f))] = IDENT[_d]
assert len(set(WIREKEY.values())) == 7, "A and Acol must really share an identifier"


def leaf(d, bad=False):
    return {"kind": "rec", "d": d, "kids": [], "bad": bad}


def hold(ks):
    return {"kind": "rec", "d": "H", "kids": ks, "bad": False}


CORE = [leaf(d) for d in ["A", "A2", "Acol", "B"]]
LEAVES = CORE + [leaf("Z"), leaf("U"), leaf("Dd")]
BADLEAVES = [leaf(d, True) for d in ["A", "Acol", "B"]]
HOLD = [hold(ks) for ks in [[]] + [[a] for a in LEAVES] + [[a, b] for a in CORE for b in CORE]
        + [[leaf("U"), leaf("A")], [leaf("A"), leaf("U")], [leaf("Z"), leaf("Z")], [leaf("Z"), leaf("B")]]]
GRP = [{"kind": "grp", "d": "G", "kids": [a, b], "bad": False} for a in LEAVES for b in [leaf("B"), leaf("A2"), hold([leaf("A2")])]]
# values whose write() raises part-way through packing (own text value with a lone surrogate)
BADLEAVES_JSON = [leaf("A2", True)]
FAIL_JSON = BADLEAVES_JSON + [hold([x]) for x in BADLEAVES_JSON] + [hold([a, x]) for a in CORE for x in BADLEAVES_JSON] + [hold([x, a]) for a in CORE for x in BADLEAVES_JSON]
FAIL = BADLEAVES + [hold([x]) for x in BADLEAVES] + [hold([a, x]) for a in CORE for x in BADLEAVES] + [hold([x, a]) for a in CORE for x in BADLEAVES]


def is_fail(v):
    return v.get("bad") or any(is_fail(k) for k in v["kids"])


def needs(v):
    s = {v["d"]} if v["kind"] == "rec" else set()
    for k in v["kids"]:
        s |= needs(k)
    return s


def self_colliding(v):
    n = needs(v)
    return any(a != b and IDENT[a] == IDENT[b] for a in n for b in n)


def build(DESC, v, n=[0]):
    from flow.record import GroupedRecord

    n[0] += 1
    if v["kind"] == "grp":
        return GroupedRecord("g/g", [build(DESC, k) for k in v["kids"]])
    d = v["d"]
    if d == "H":
        ks = [build(DESC, k) for k in v["kids"]]
        return DESC["H"](ks[0] if ks else None, ks[1:])
    val = "\ud800" if v.get("bad") else "x"  # a lone surrogate is accepted by the field but cannot be packed
    if d in ("A", "U"):
        return DESC[d]("1", val)
    if d == "Z":
        return DESC[d]()
    if d == "Dd":
        return DESC[d](5, 1)
    if d == "A2":
        return DESC[d](10**5000 if v.get("bad") else 3)   # json.dumps cannot turn an integer of 5000 digits into text
    return DESC[d](val)


# ---------- observation: bytes -> frames (independent of flow.record) ----------
def _wire_of(node):
    if node[0] == "GRP":
        return {"id": "grp", "kids": [_wire_of(m) for m in node[2]]}
    ident = node[1]
    if isinstance(ident, tuple) and len(ident) == 2:
        key = WIREKEY.get((str(ident[0]), ident[1]), "i?")
    else:
        key = NAMEKEY.get(str(ident), "n?")
    kids = []

    def walk(x):
        if isinstance(x, tuple) and len(x) == 3 and x[0] == "REC":
            kids.append(_wire_of(x))
        elif isinstance(x, tuple):
            for y in x:
                walk(y)

    for val in node[2]:
        walk(val)
    return {"id": key, "kids": kids}


def frames_binary(data, v):
    out = []
    try:
        dec = rc.decode_stream(data)
    except Exception as e:
        return [{"k": "BAD", "why": type(e).__name__}]
    for d in dec:
        if d[0] == "HDR":
            out.append({"k": "HDR"})
        elif d[0] == "DESC":
            out.append({"k": "DESC", "d": BYFT.get((d[1], tuple(d[2])), "?")})
        elif d[0] in ("REC", "GRP"):
            out.append({"k": "REC", "wire": _wire_of(d), "v": v})
        else:
            out.append({"k": "BAD", "why": str(d[0])})
    return out


def _jwire(obj):
    ident = obj.get("_recorddescriptor")
    key = WIREKEY.get((ident[0], ident[1]), "i?") if isinstance(ident, list) and len(ident) == 2 else "i?"
    kids = []

    def walk(x):
        if isinstance(x, dict) and x.get("_type") == "record":
            kids.append(_jwire(x))
        elif isinstance(x, list):
            for y in x:
                walk(y)

    for k, val in obj.items():
        walk(val)
    return {"id": key, "kids": kids}


def frames_json(text, v):
    out = []
    for line in text.splitlines():
        try:
            obj = json.loads(line)
        except Exception:
            out.append({"k": "BAD", "why": "notjson"})
            continue
        t = obj.get("_type")
        if t == "recorddescriptor":
            name, fields = obj["_data"]
            out.append({"k": "DESC", "d": BYFT.get((name, tuple(tuple(f) for f in fields)), "?")})
        elif t == "record":
            out.append({"k": "REC", "wire": _jwire(obj), "v": v})
        else:
            out.append({"k": "BAD", "why": "type"})
    return out


def desc_tree(r):
    from flow.record import GroupedRecord, Record

    if isinstance(r, GroupedRecord):
        return {"d": "G", "kids": [desc_tree(m) for m in r.records]}
    d = BYFT.get((r._desc.name, tuple(r._desc.get_field_tuples())), "?")
    kids = []
    if d == "H":
        if isinstance(r.r, Record):
            kids.append(desc_tree(r.r))
        for x in r.rl or []:
            kids.append(desc_tree(x) if isinstance(x, Record) else {"d": "?", "kids": []})
    return {"d": d, "kids": kids}


# ---------- drivers ----------
class LowLevel:
    """RecordStreamWriter on BytesIO, RecordStreamReader on the bytes."""

    packer = "msgpack"
    name = "lowlevel"

    def __init__(self, tmp, wid):
        from flow.record import RecordStreamWriter

        self.buf = io.BytesIO()
        self.w = RecordStreamWriter(self.buf)
        self.pos = 0

    def write(self, rec, v):
        self.w.write(rec)
        data = self.buf.getvalue()
        new = data[self.pos:]
        self.pos = len(data)
        return frames_binary(new, v)

    def after_failure(self, v):
        data = self.buf.getvalue()
        new = data[self.pos:]
        self.pos = len(data)
        return frames_binary(new, v)

    def readback(self):
        from flow.record import RecordStreamReader

        data = self.buf.getvalue()
        self.w.fp = None
        # read in TWO passes over the same reader object (take one record, then iterate again for the rest -- islice() then
        # list(), two consumers of one reader): the definitions seen during the first pass still count in the second
        rd = RecordStreamReader(io.BytesIO(data))
        first = []
        for r in rd:
            first.append(r)
            break
        return iter(first + list(rd))


class PathBased:
    """RecordWriter(path) / RecordReader(path); bytes are observed in the file after flush()."""

    packer = "msgpack"
    name = "path"
    ext = ".records"

    def __init__(self, tmp, wid):
        from flow.record import RecordWriter

        self.path = os.path.join(tmp, f"s_{wid}{self.ext}")
        self.w = RecordWriter(self.path)
        self.pos = 0

    def _new(self):
        with open(self.path, "rb") as f:
            f.seek(self.pos)
            new = f.read()
        self.pos += len(new)
        return new

    def write(self, rec, v):
        self.w.write(rec)
        self.w.flush()
        return frames_binary(self._new(), v)

    def after_failure(self, v):
        self.w.flush()
        return frames_binary(self._new(), v)

    def readback(self):
        from flow.record import RecordReader

        self.w.close()
        return iter(RecordReader(self.path))


class JsonPath(PathBased):
    packer = "json"
    name = "jsonfile"
    ext = ".json"

    def write(self, rec, v):
        self.w.write(rec)
        self.w.flush()
        return frames_json(self._new().decode(), v)

    def after_failure(self, v):
        self.w.flush()
        return frames_json(self._new().decode(), v)


def run_history(kind, hist, DESC, tmp, reuse=False):
    """hist: list of (writer id, value).  -> trace (list of events).  reuse: the SAME record object is handed to write()
    every time its value occurs in the history (fan-out to several writers, a record written twice)"""
    ws = {}
    tr = []
    objs = {}
    for wid, v in hist:
        if wid not in ws:
            ws[wid] = kind(tmp, wid)
        if reuse and not is_fail(v):
            k = json.dumps(v, sort_keys=True)
            rec = objs[k] if k in objs else objs.setdefault(k, build(DESC, v))
        else:
            rec = build(DESC, v)
        ok = True
        try:
            fr = ws[wid].write(rec, v)
        except Exception as e:
            ok = False
            if is_fail(v):
                fr = ws[wid].after_failure(v)  # what reached the stream before the exception
            else:
                fr = [{"k": "BAD", "why": "write raised " + type(e).__name__}]
        if is_fail(v) and ok:
            fr = fr + [{"k": "BAD", "why": "unpackable value was accepted"}]
        tr.append({"op": "write", "w": wid, "v": v, "ok": ok, "frames": fr})
    for wid, w in ws.items():
        trees, how = [], "end"
        try:
            for r in w.readback():
                trees.append(desc_tree(r))
        except Exception as e:
            how = "raise:" + type(e).__name__
        tr.append({"op": "read", "w": wid, "how": "end" if how == "end" else "raise", "exc": how, "trees": trees})
    return tr


def gen_histories(ctx, recs, tier, exhaustive_len, n_random, rand_len, fail=()):
    W = ["w1", "w2"]
    out = []
    fail = [v for v in fail if not self_colliding(v)]
    choices = [(w, v) for w in W for v in recs]
    # every (failing write, later write) pair on one writer, and with one good write in front
    for f in fail:
        for v in recs:
            if not self_colliding(v):
                out.append([("w1", f), ("w1", v)])
        for v in CORE:
            for v2 in CORE:
                out.append([("w1", v), ("w1", f), ("w1", v2)])
                if len(fail) < 12:
                    out.append([("w1", f), ("w1", v), ("w1", v2)])
    recs = list(recs) + list(fail)
    for n in range(1, exhaustive_len + 1):
        if n == 1:
            out += [[c] for c in choices]
        else:
            out += [list(h) for h in itertools.product(choices, repeat=n)]
    clean = [v for v in recs if not self_colliding(v)]
    dirty = [v for v in recs if self_colliding(v)]
    out = [h for h in out if not any(self_colliding(v) for _, v in h)]
    for _ in range(n_random):
        L = ctx.rnd.randint(*rand_len)
        out.append([(ctx.rnd.choice(W), ctx.rnd.choice(clean)) for _ in range(L)])
    # a small dedicated set of histories with the self-colliding values (recorded finding, see known_findings.json)
    for v in dirty:
        out.append([("w1", v)])
        for _ in range(4):
            h = [(ctx.rnd.choice(W), ctx.rnd.choice(clean)) for _ in range(ctx.rnd.randint(1, 4))]
            h.insert(ctx.rnd.randint(0, len(h)), (ctx.rnd.choice(W), v))
            out.append(h)
    return out


def _pyval(v):
    return {"kind": v["kind"], "d": v["d"], "kids": [_pyval(k) for k in v["kids"]], "bad": bool(v["bad"])}


def sim_histories(ctx, packer, n):
    """spec -> code: write histories generated by TLC from MC_Stream (up to 10 writes on two writers, failing writes included)"""
    out = []
    for beh in simulate.behaviours("MC_Stream", f"Sim_Stream_{packer}.cfg", n, 10, ctx.seed + 3):
        h = [(args[0], _pyval(args[1])) for a, args, st in beh[1:] if a in ("Write", "FailWrite")]
        if h:
            out.append(h)
    return out


def hist_key(h):
    def s(v):
        return v["d"] + ("!" if v.get("bad") else "") + ("(" + ",".join(s(k) for k in v["kids"]) + ")" if v["kids"] else "")

    return " ".join(f"{w}:{s(v)}" for w, v in h)


def validate(ctx, kind, traces, hists, label):
    """Write the trace file, run TLC in contract and design mode, turn counter-examples into violations."""
    path = os.path.join(common.scratch("c03"), f"traces_{label}.json")
    tlc.write_json(path, traces)
    nev = sum(len(t) for t in traces)
    rc_ = ctx.tlc("Trace_Stream", f"Trace_Stream_{kind.packer}_contract.cfg", f"trace validation, contract mode, {label}", env={"TRACE_FILE": path})
    seen = set()
    for v in rc_.violations:
        st = v["state"]
        tid = st.get("tid")
        if tid is None:
            raise MachineryError(f"cannot attribute TLC counter-example to a trace: {v}")
        if (tid, v["inv"]) in seen:
            continue
        if any(t == tid for t, _ in seen):
            continue  # one report per trace (the first failing invariant on the shortest prefix)
        seen.add((tid, v["inv"]))
        h = hists[tid - 1]
        step = st.get("l", 1) - 2  # index of the event just consumed
        tr = traces[tid - 1]
        ev = tr[step] if 0 <= step < len(tr) else None
        sc = any(self_colliding(x) for _, x in h)
        idents = [IDENT[d] for _, x in h for d in needs(x)]
        descs = {d for _, x in h for d in needs(x)}
        coll = any(a != b and IDENT[a] == IDENT[b] for a in descs for b in descs)
        ctx.violation(
            {"check": v["inv"], "writer": kind.name, "packer": kind.packer, "self_colliding_value": sc,
             "identifier_collision_in_history": coll, "history": hist_key(h)},
            {"failing_event": ev, "trace": tr},
        )
    rd = ctx.tlc("Trace_Stream", f"Trace_Stream_{kind.packer}_design.cfg", f"trace validation, design mode, {label}", env={"TRACE_FILE": path})
    drift = {v["state"].get("tid") for v in rd.violations if v["inv"] == "NotStuck"}
    bad_tids = {t for t, _ in seen}
    drift -= bad_tids
    # self-colliding values legitimately differ between Dev={} design and nothing else: they are part of the design too
    if drift:
        ex = sorted(drift)[:3]
        for t in ex:
            print(f"MODEL-DRIFT property={PROP} writer={kind.name} history={hist_key(hists[t-1])!r}: observed frames differ from Stream.Write (contract still satisfied)")
        ctx.note(f"model drift on {len(drift)} traces of {label}")
    ctx.count(len(traces), nev)
    return len(seen), len(drift)


def run(tier):
    ctx = check.Ctx(PROP, tier)
    DESC = universe()
    for d, (n, f) in FIELDS.items():
        if DESC[d].identifier != (n, rc.descriptor_hash(n, f)):
            # the identifier function itself changed: the wire keys below would all be unknown
            ctx.violation({"check": "identifier-function", "descriptor": d}, {"impl": list(DESC[d].identifier), "reference": [n, rc.descriptor_hash(n, f)]})
    # 1. the design satisfies the property (exhaustive, small constants)
    thorough = tier == "thorough"
    if thorough:
        ctx.design("MC_Stream", "MC_Stream_msgpack.cfg", "exhaustive: 2 writers, 35 values + 28 failing writes, <=3 writes, msgpack", actions=("Write", "FailWrite"), timeout=3000)
    else:
        ctx.design("MC_Stream", "MC_Stream_msgpack_q1.cfg", "exhaustive: 2 writers, 35 values + 28 failing writes, <=2 writes, msgpack", actions=("Write", "FailWrite"))
        ctx.design("MC_Stream", "MC_Stream_msgpack_q2.cfg", "exhaustive: 1 writer, 35 values + 28 failing writes, <=3 writes, msgpack")
    ctx.design("MC_Stream", "MC_Stream_json.cfg", "exhaustive: 2 writers, 23 values, <=3 writes, json")
    if thorough:
        ctx.sensitivity("MC_Stream", "MC_Stream_dev_guard.cfg", "deviation GuardByIdentifier must violate DefBeforeUse", "DefBeforeUse")
        ctx.sensitivity("MC_Stream", "MC_Stream_dev_shared.cfg", "deviation SharedRegistry must violate DefBeforeUse", "DefBeforeUse")
        ctx.sensitivity("MC_Stream", "MC_Stream_selfcolliding.cfg", "two colliding descriptors inside ONE frame: no emission order helps", "DefBeforeUse")
    # 2. conformance of the implementation
    tmp = common.scratch("c03files")
    plain = LEAVES + HOLD
    allv = plain + GRP
    plans = [
        (LowLevel, allv, 2 if not thorough else 2, 1500 if not thorough else 12000, (4, 12) if not thorough else (8, 30), FAIL),
        (PathBased, allv, 1, 600 if not thorough else 6000, (3, 10) if not thorough else (8, 24), FAIL),
        (JsonPath, plain, 1, 600 if not thorough else 6000, (3, 10) if not thorough else (8, 24), FAIL_JSON),
    ]
    if thorough:
        plans[1] = (PathBased, allv, 2, 6000, (8, 24), FAIL)
        plans[2] = (JsonPath, plain, 2, 6000, (8, 24), FAIL_JSON)
    for kind, recs, exl, nrand, rl, fail in plans:
        hists = gen_histories(ctx, recs, tier, exl, nrand, rl, fail if kind is not PathBased or thorough else fail[:9])
        sims = sim_histories(ctx, kind.packer, 150 if not thorough else 1500)
        ctx.extra["behaviours_simulated_by_tlc_" + kind.name] = len(sims)
        hists += sims
        # chunk so that one TLC invocation parses <= ~20 MB of JSON
        chunk, traces, size, part = [], [], 0, 0
        # histories in which a value occurs more than once are ALSO replayed with one record object per value
        def repeats(h):
            ks = [json.dumps(v, sort_keys=True) for _, v in h]
            return len(set(ks)) < len(ks)
        work = [(h, False) for h in hists] + [(h, True) for h in hists if repeats(h) and (len(h) <= 3 or zlib.crc32(hist_key(h).encode()) % 4 == 0)]
        ctx.extra["histories_with_object_reuse_" + kind.name] = sum(1 for _, r in work if r)
        for h, reuse in work:
            tr = run_history(kind, h, DESC, tmp, reuse)
            traces.append(tr)
            chunk.append(h)
            size += 120 * sum(len(json.dumps(e)) // 120 + 1 for e in tr)
            ctx.case(hist_key(h))
            if size > 16_000_000:
                validate(ctx, kind, traces, chunk, f"{kind.name}#{part}")
                chunk, traces, size, part = [], [], 0, part + 1
        if traces:
            if len(ctx.samples) < 4:
                ctx.sample({"writer": kind.name, "history": hist_key(chunk[-1]), "trace": traces[-1]})
            validate(ctx, kind, traces, chunk, f"{kind.name}#{part}")
        for f in os.listdir(tmp):
            os.remove(os.path.join(tmp, f))
    ctx.exhaustive = False
    ctx.extra["rule"] = ("bounded-exhaustive write histories (all of length <= 2 over 31 record values x 2 writers on the low-level writer) plus seeded random "
                         "longer histories on three writer kinds; distinct = distinct histories; every one contains >= 1 write and is read back")
    ctx.assumptions += ["descriptor identifier coincidences are modelled by one real colliding pair (t/x [a,b] vs t/x [astringb]); genuine 32-bit collisions of unrelated descriptors are the same case in the model",
                        "values needing two same-identifier descriptors inside ONE frame are a recorded finding (frozen format limit)"]
    return ctx.finish()
