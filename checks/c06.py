"""C06 -- descriptor names are validated; untrusted definitions cannot inject code.

Specification: spec/Descriptor.tla (the property's grammar and the implementation's recognisers as predicates
over character-class strings, Python's `$` semantics included; template free identifiers), spec/MC_Descriptor.tla
(TLC: accepted => grammatical for all class-strings <= 5), spec/Trace_Names.tla.
Binding: every class-string <= 4 is concretised (look-alike letters, control characters, quotes, parentheses,
newlines ...) and offered as field name and as type name through the constructor, and -- for a seeded subset
and for every hostile payload -- through a crafted binary descriptor frame, a JSON descriptor line and an Avro
schema `doc`.  Field TYPE names are checked against the whitelist with import resolutions logged.  The source
handed to exec is captured (the name `exec` in flow.record.base is shadowed in this process) and its AST
compared with the shape of a benign definition; trip-wire payloads must never run.
"""
import ast, builtins, importlib, io, itertools, json, keyword, os, re

from vf import check, common, refcodec as rc, tlc
from vf.common import MachineryError

PROP = "C06"
CONC = {"L": ["a", "Z", "q"], "D": ["0", "7"], "U": ["_"], "S": ["/"], "N": ["\n"], "P": [" ", ";", "(", "'", ":", "-", ".", "$", "\\", '"', ")", ",", "=", "#", "*"],
        "X": ["é", "ｆ", "а", "中"], "F": ["\u0131", "\u0130", "\u017f", "\u212a", "\ufb01", "\u00aa"], "C": ["\x00", "\r", "\t", "\x7f", "\x0b", "\x1b"]}
TRIP = os.path.join(common.VERIF, ".scratch", "c06_tripwire")
PAYLOADS = [
    "a=1):\n        pass\n    __import__('os').system('touch %s')\n    def x(self" % TRIP,
    "__import__('os').system('touch %s')" % TRIP,
    "a'); __import__('os').system('touch %s'); ('" % TRIP,
    'a"); __import__("os").system("touch %s"); ("' % TRIP,
    "a\n\nimport os\nos.system('touch %s')\n" % TRIP,
    "x/../../etc", "a b", "a;b", "a.b", "a[0]", "lambda", "a\x00b", "аbc", "a" * 5000, "a b", "a\\nb", "${a}", "{name}", "{0.__class__}", "%s", "a\rb",
]
TYPE_CANDIDATES = ["string", "string[]", "varint", "net.ipaddress", "net.ipaddress[]", "record", "record[]", "net.ipv4.Subnet",
                   "String", " string", "string ", "string[][]", "string[]x", "[]", "", "str", "int", "object", "builtins.eval", "os.system", "os", "sys.exit",
                   "net", "net.ip", "net.ipaddress.ipaddress", "net.ip.ipaddress", "fieldtypes.string", "flow.record.fieldtypes.string", "net.tcp", "net.tcp.port",
                   "typedlist", "FieldType", "datetime.datetime", "path.from_windows", "__class__", "string\n", "string\x00", "ѕtring", "net.ipaddress\n", "dynamic", "wstring",
                   "credential.username", "net.hostname", "string.__class__", "record.__init__", "uri.normalize",
                   "net[]", "net.ipv4", "net.ipv4[]", "net.tcp[]", "net.udp", "net.udp[]", "credential", "credential[]", "net.ip[]", "net.ipaddress[][]", "[]string", "string[ ]"]


class ExecSpy:
    def __init__(self):
        self.sources = []

    def __call__(self, code, g=None, l=None):
        self.sources.append(code)
        return builtins.exec(code, g, l)


class ImportSpy:
    def __init__(self):
        self.real = importlib.import_module
        self.names = []

    def __call__(self, name, package=None):
        self.names.append(name)
        return self.real(name, package)


def shape_of(src):
    """structure of the generated class source with identifiers and constants abstracted away"""
    tree = ast.parse(src)
    out = []
    for node in ast.walk(tree):
        out.append(type(node).__name__)
    return out


_BENIGN = {}


def benign_shape(nfields, kw):
    from flow.record.base import RECORD_CLASS_TEMPLATE  # noqa: only to make sure the module is loaded

    return _BENIGN.get((nfields, kw))


def accepted_checks(desc, declared, spy_sources, uid):
    """for an ACCEPTED definition: exactly the declared fields followed by the reserved ones, version stamp 1,
    generated source of the benign shape"""
    fields_exact = list(desc.recordType.__slots__) == [n for _, n in declared] + ["_source", "_classification", "_generated", "_version"]
    version_ok = True
    try:
        r = desc.recordType()
        version_ok = r._version == 1
        fields_exact &= list(r._desc.get_field_tuples()) == [tuple(x) for x in declared]
    except Exception:
        version_ok = False
    shape_ok = True
    for src in spy_sources:
        kw = any(keyword.iskeyword(n) for _, n in declared)
        key = (len(declared), kw)
        try:
            sh = shape_of(src)
        except SyntaxError:
            shape_ok = False
            continue
        if key not in _BENIGN:
            _BENIGN[key] = sh if all(re.fullmatch(r"[a-z][a-z0-9]*", n) for _, n in declared) else None
        elif _BENIGN[key] is not None and sh != _BENIGN[key]:
            shape_ok = False
    return fields_exact, version_ok, shape_ok


def run(tier):
    import flow.record.base as base
    from flow.record import RecordDescriptor, RecordStreamReader
    from flow.record.adapter.jsonfile import JsonfileReader

    ctx = check.Ctx(PROP, tier)
    thorough = tier == "thorough"
    ctx.design("MC_Descriptor", "MC_Descriptor.cfg", "accepted => grammatical, for all class-strings <= 5 over 9 character classes (field and type names)")
    if thorough:
        ctx.sensitivity("MC_Descriptor", "MC_Descriptor_dev_IgnoreCase.cfg", "a case-insensitive [a-z] must violate FieldInclusion", "FieldInclusion")
    spy, ispy = ExecSpy(), ImportSpy()
    base.exec = spy
    if os.path.exists(TRIP):
        os.remove(TRIP)
    os.makedirs(os.path.dirname(TRIP), exist_ok=True)
    # benign shapes for 1 and 2 declared fields
    for n in (1, 2):
        spy.sources.clear()
        RecordDescriptor(f"benign/shape{n}", [("string", f"f{i}") for i in range(n)])
        if spy.sources:
            _BENIGN[(n, False)] = shape_of(spy.sources[-1])
    cases = []
    uniq = itertools.count()

    def offer(s_classes, text, pos, path, before=None, empty=False):
        """deliver one candidate; returns the case dict.  before: a field declared in front of the candidate;
        empty: a type name offered together with an EMPTY field list"""
        u = next(uniq)
        declared = [("string", text)] if pos == "field" else ([] if empty else [("string", "f0")])
        if before:
            declared = [("string", before)] + declared
        tname = f"t/n{u}" if pos == "field" else text
        c = {"s": list(s_classes), "pos": pos, "path": path, "text": text[:60], "accepted": False, "exc": "none", "fields_exact": True, "version_ok": True, "source_shape_ok": True,
             "tripwire": False, "special": False}
        if pos == "field":
            c["special"] = keyword.iskeyword(text) or text in base.RESERVED_FIELDS
        else:
            c["special"] = any(keyword.iskeyword(p) or p in ("None", "True", "False") for p in text.split("/"))
        spy.sources.clear()
        desc = None
        try:
            if path == "ctor":
                desc = RecordDescriptor(tname, declared)
            elif path == "ctorstr":
                # the deprecated single-string form: "type/name\n    type field;\n ..."
                desc = RecordDescriptor(tname + "\n" + "".join(f"    {t} {n};\n" for t, n in declared))
            elif path == "frame":
                data = rc.header_frame() + rc.descriptor_frame(tname, declared) + rc.record_frame(tname, declared, ["v"] * len(declared) + [None, None, None, 1])
                recs = list(RecordStreamReader(io.BytesIO(data)))
                desc = recs[0]._desc if recs else None
                if desc is None:
                    raise ValueError("no record yielded")
            elif path == "framebin":
                # the same frame with every name in msgpack's BIN family (streams of the Python 2 era carry them so): the bytes
                # are the UTF-8 of the candidate -- a reader that drops or replaces bytes it cannot read changes the name
                B = rc.Bin
                enc = lambda x: B(x.encode("utf-8", "surrogateescape"))
                dfr = rc.frame(rc.ext(rc.T_DESC, [enc(tname), [[enc(t), enc(n)] for t, n in declared]]))
                rfr = rc.frame(rc.ext(rc.T_RECORD, [[enc(tname), rc.descriptor_hash(tname, declared)], ["v"] * len(declared) + [None, None, None, 1]]))
                rd0 = RecordStreamReader(io.BytesIO(rc.header_frame() + dfr))
                list(rd0)                                   # the definition alone: refused (raises) or registered
                reg = [d for d in getattr(getattr(rd0, "packer", None), "descriptors", {}).values()]
                recs = list(RecordStreamReader(io.BytesIO(rc.header_frame() + dfr + rfr))) if not reg or reg[0].name == tname else []
                desc = recs[0]._desc if recs else (reg[0] if reg else None)       # registered under ANOTHER name: accepted as something else
                if desc is None:
                    raise ValueError("no record yielded")
            elif path == "json":
                line1 = json.dumps({"_type": "recorddescriptor", "_data": [tname, [list(x) for x in declared]]})
                line2 = json.dumps({"_type": "record", "_recorddescriptor": [tname, rc.descriptor_hash(tname, declared)], **{n: "v" for _, n in declared}, "_source": None, "_classification": None,
                                    "_generated": "2020-01-01T00:00:00+00:00", "_version": 1})
                p = os.path.join(common.scratch("c06"), "x.json")
                with open(p, "w", encoding="utf-8", errors="surrogateescape") as f:
                    f.write(line1 + "\n" + line2 + "\n")
                rd = JsonfileReader(p)
                recs = list(rd)
                rd.close()
                desc = recs[0]._desc if recs else None
                if desc is None:
                    raise ValueError("no record yielded")
            elif path == "avro":
                import fastavro
                from flow.record.adapter.avro import AvroReader

                p = os.path.join(common.scratch("c06"), "x.avro")
                schema = {"type": "record", "name": "x", "namespace": "t", "doc": json.dumps([tname, [list(x) for x in declared]]),
                          "fields": [{"name": "f0", "type": ["string", "null"]}]}
                if before:
                    raise ValueError("not delivered")
                with open(p, "wb") as f:
                    fastavro.writer(f, fastavro.parse_schema(schema), [{"f0": "v"}])
                rd = AvroReader(p)
                desc = rd.desc
                rd.close()
            c["accepted"] = desc is not None and (desc.name == tname) and [n for _, n in desc.get_field_tuples()] == [n for _, n in declared]
            c["before"] = before or "none"
            if desc is not None and not c["accepted"]:
                c["exc"] = "accepted-as-something-else"
                c["accepted"] = True
                c["fields_exact"] = False
        except BaseException as e:  # noqa
            if isinstance(e, (KeyboardInterrupt, SystemExit)):
                raise
            c["exc"] = type(e).__name__
        if c["accepted"] and c["fields_exact"]:
            c["fields_exact"], c["version_ok"], c["source_shape_ok"] = accepted_checks(desc, declared, list(spy.sources), u)
        c["tripwire"] = os.path.exists(TRIP)
        return c

    def str_form_ok(text, pos):
        """can the candidate be spelled in the single-string form without changing what is offered?"""
        if not text or "\n" in text or text != text.strip():
            return False
        if pos == "field":
            return not re.search(r"\s", text) and not text.endswith(";")
        return True

    def classes_of(text):
        out = []
        for ch in text[:40]:
            if ch.isascii() and ch.isalpha(): out.append("L")
            elif ch.isascii() and ch.isdigit(): out.append("D")
            elif ch == "_": out.append("U")
            elif ch == "/": out.append("S")
            elif ch == "\n": out.append("N")
            elif ch.isascii() and (ch.isprintable()): out.append("P")
            elif ch in "\u0131\u0130\u017f\u212a\ufb01\u00aa": out.append("F")
            elif not ch.isascii(): out.append("X")
            else: out.append("C")
        return out
    # (1) every class-string <= 4, two concretisations, both positions, through the constructor
    alphabet = ["L", "D", "U", "S", "N", "P", "X", "C", "F"]
    strings = [()]
    for n in range(1, 5):
        strings += list(itertools.product(alphabet, repeat=n))
    for sc in strings:
        if not sc:
            continue
        for rep in range(2 if not thorough else 4):
            text = "".join(ctx.rnd.choice(CONC[k]) for k in sc)
            for pos in ("field", "type"):
                cases.append(offer(sc, text, pos, "ctor"))
                ctx.case((pos, text))
                if str_form_ok(text, pos) and (thorough or rep == 0):
                    cases.append(offer(sc, text, pos, "ctorstr"))
                    ctx.case((pos, text, "ctorstr"))
    # (1a) EVERY non-ASCII concretisation (look-alikes and letters that fold / normalise to ASCII) in a few contexts, all paths
    for ch in CONC["X"] + CONC["F"]:
        for text in (ch, ch + "d", "u" + ch + "d", "a" + ch, "test/" + ch + "nfo", ch.upper() + "x", ch.lower() + "x"):
            for pos in ("field", "type"):
                if "/" in text and pos == "field":
                    continue
                for path in ("ctor", "frame", "framebin", "json", "ctorstr"):
                    if path == "ctorstr" and not str_form_ok(text, pos):
                        continue
                    cases.append(offer(classes_of(text), text, pos, path))
                    ctx.case((pos, text, path, "nonascii"))
    # (1b) the candidate as SECOND field, after a Python-keyword field (which selects the other class template) and after a plain one
    reserved_like = ["_source", "_classification", "_generated", "_version", "_x", "__class__", "f0"]
    for before in ("from", "ok"):
        for sc in [x for x in strings if 0 < len(x) <= 3]:
            text = "".join(ctx.rnd.choice(CONC[k]) for k in sc)
            cases.append(offer(sc, text, "field", "ctor", before=before))
            ctx.case(("field2", before, text))
        for text in reserved_like + ["class", "import", "from"]:
            if text == before:
                continue  # a duplicate field name is outside the property
            for path in ("ctor", "frame", "json"):
                c = offer(classes_of(text), text, "field", path, before=before)
                cases.append(c)
                ctx.case(("field2", before, text, path))
    # (2) other delivery paths for a seeded subset of the class-strings
    subset = ctx.rnd.sample(strings[1:], 250 if not thorough else 2000)
    for sc in subset:
        text = "".join(ctx.rnd.choice(CONC[k]) for k in sc)
        for pos in ("field", "type"):
            for path in ("frame", "json", "avro"):
                cases.append(offer(sc, text, pos, path))
                ctx.case((pos, text, path))
    # (3) hostile payloads and special names, all paths (class-string computed from the text)
    specials = PAYLOADS + ["RECORD_VERSION", "Record", "self", "cls", "args", "kwargs", "k", "v", "f", "values", "class", "from", "None", "True", "x" * 200, "a" * 254, "A/b/C_1", "a/b/", "/a", "a//b", "_a", "a_", "a1", "1a"]
    specials += ["test/1abc", "_private/x", "test//a", "test/a/", "t\u00e9st/a", "test/a\rimport os", "a\rb", "a/b\x0bc", "a/b\x0cc", "a/b\x1cc", "a/b\x85c", "a/b\u2028c"]
    specials += ["test/\udcffvil", "str\udcffing", "a\udc80", "test/\u202eevil", "caf\u00e9"]           # (undecodable bytes, as surrogate escapes)
    # the reserved metadata names as (components of) a type name (round g): no component may start with an underscore
    specials += ["_source", "_version", "test/_version", "a/_classification/b", "_generated/x", "test/_source"]
    for text in specials:
        for pos in ("field", "type"):
            for path in ("ctor", "frame", "framebin", "json", "avro", "ctorstr"):
                if path in ("json", "avro", "ctor", "ctorstr", "frame") and any(0xDC80 <= ord(ch) <= 0xDCFF for ch in text):
                    continue          # raw undecodable bytes can only be delivered in the BIN family
                if path == "ctorstr" and not str_form_ok(text, pos):
                    continue
                cases.append(offer(classes_of(text), text, pos, path))
                ctx.case((pos, text, path))
    # (3b) type names offered with an EMPTY field list (a boundary of its own: nothing but the name is there to be looked at)
    ws_names = ["test/a\n    string smuggled;", "test/a\nstring x;\nvarint y;", " test/a", "test/a ", "\ttest/a", "test/a\r\n", "test/a\n", "\ntest/a", "test/a\x00", "test /a", "test/a;",
                "test/a\n\n", "test/\x0ba"] + [t for t in PAYLOADS if isinstance(t, str)][:12] + ["test/ok", "ok"]
    for text in ws_names:
        for path in ("ctor", "frame", "framebin", "json"):
            cases.append(offer(classes_of(text), text, "type", path, empty=True))
            ctx.case(("type-with-empty-field-list", text, path))
    # (5) history: a VALID definition is read first; then, with new readers, definitions whose strings are another cut of
    #     the same characters (hence the same name + hash identifier) arrive through the frame and the JSON route
    from flow.record.whitelist import WHITELIST as WL

    def resplits(fields, rnd, n):
        s = "".join(nm + ty for ty, nm in fields)
        out = []
        for k in range(0, len(s) + 1):                       # one field: name = s[:k], type = s[k:]
            out.append([(s[k:], s[:k])])
        for _ in range(n):                                   # two or three fields with random cuts
            cuts = sorted(rnd.sample(range(0, len(s) + 1), rnd.choice([3, 5])))
            parts = [s[a:b] for a, b in zip([0] + cuts, cuts + [len(s)])]
            out.append([(parts[i + 1], parts[i]) for i in range(0, len(parts) - 1, 2)])
        return [f for f in out if "".join(nm + ty for ty, nm in f) == s and [tuple(x) for x in f] != [tuple(x) for x in fields]]

    def deliver(tname, declared, path):
        if path == "frame":
            rd = RecordStreamReader(io.BytesIO(rc.header_frame() + rc.descriptor_frame(tname, declared)))
            list(rd)
            return rd.packer.descriptors.get(tname)
        from flow.record.jsonpacker import JsonRecordPacker

        return JsonRecordPacker().unpack(json.dumps({"_type": "recorddescriptor", "_data": [tname, [list(x) for x in declared]]}))

    valid_defs = [[("unix_file_mode", "mode")], [("string", "user"), ("string", "host")], [("varint", "a"), ("string", "b")], [("uint16", "port")], [("string[]", "tags"), ("boolean", "ok")]]
    for vi, vf in enumerate(valid_defs):
        for first in ("frame", "json"):
            tname = f"resplit/t{vi}{first}"
            try:
                deliver(tname, vf, first)
            except Exception as e:
                raise MachineryError(f"valid definition {vf} refused via {first}: {e!r}")
            for cf in resplits(vf, ctx.rnd, 12 if not thorough else 60):
                for path in ("frame", "json"):
                    c = {"pos": "resplit", "path": path, "first": first, "text": repr(cf)[:60], "names": [classes_of(nm) for _, nm in cf], "accepted": False, "exc": "none",
                         "types_ok": all((ty[:-2] if ty.endswith("[]") else ty) in WL for ty, _ in cf), "fields_exact": True, "tripwire": False, "s": []}
                    try:
                        dsc = deliver(tname, cf, path)
                        c["accepted"] = dsc is not None
                        if dsc is not None:
                            c["fields_exact"] = dsc.name == tname and [tuple(x) for x in dsc.get_field_tuples()] == [tuple(x) for x in cf]
                    except BaseException as e:  # noqa
                        if isinstance(e, (KeyboardInterrupt, SystemExit)):
                            raise
                        c["exc"] = type(e).__name__
                    c["tripwire"] = os.path.exists(TRIP)
                    cases.append(c)
                    ctx.case(("resplit", vi, first, path, repr(cf)))
    ctx.sample({"case": cases[100]})
    ctx.sample({"case": cases[-5]})
    # (4) field TYPE names: accepted only if whitelisted (optionally with one []); resolutions stay inside the field-type package
    from flow.record.whitelist import WHITELIST

    # every class that can be reached by a dotted name under the field-type package -- whitelisted or not -- in plain
    # and in list form
    import inspect, pkgutil

    import flow.record.fieldtypes as _ftpkg

    reachable = set()
    mods = [("", _ftpkg)]
    for mi in pkgutil.walk_packages(_ftpkg.__path__, _ftpkg.__name__ + "."):
        try:
            mods.append((mi.name[len(_ftpkg.__name__) + 1:] + ".", importlib.import_module(mi.name)))
        except Exception:
            pass
    for prefix, mod in mods:
        for nm, obj in vars(mod).items():
            if inspect.isclass(obj) and not nm.startswith("_"):
                reachable.add(prefix + nm)
    type_candidates = TYPE_CANDIDATES + sorted(x for t in reachable for x in (t, t + "[]") if x not in TYPE_CANDIDATES)
    ctx.extra["reachable_class_names_offered_as_field_types"] = len(reachable)
    importlib.import_module = ispy
    try:
        for tn in type_candidates:
            # alone; and shadowed by / shadowing another declaration of the SAME field name with a whitelisted type
            for path, shape in [(p, s) for p in ("ctor", "frame") for s in ("alone", "dup-first", "dup-last", "dup-middle")]:
                ispy.names.clear()
                ok, exc = False, "none"
                fl = {"alone": [(tn, "f")], "dup-first": [(tn, "f"), ("string", "f")], "dup-last": [("string", "f"), (tn, "f")],
                      "dup-middle": [("string", "g"), (tn, "f"), ("varint", "g"), ("string", "f")]}[shape]
                try:
                    if path == "ctor":
                        RecordDescriptor(f"t/ty{next(uniq)}", fl)
                    else:
                        nm = f"t/ty{next(uniq)}"
                        list(RecordStreamReader(io.BytesIO(rc.header_frame() + rc.descriptor_frame(nm, fl))))
                    ok = True
                except BaseException as e:  # noqa
                    if isinstance(e, (KeyboardInterrupt, SystemExit)):
                        raise
                    exc = type(e).__name__
                base_name = tn[:-2] if tn.endswith("[]") else tn
                legit = base_name in WHITELIST
                bad_imports = [n for n in ispy.names if not (n == "flow.record.fieldtypes" or n.startswith("flow.record.fieldtypes."))]
                ctx.case(("fieldtype", tn, path, shape))
                if (ok and not legit) or bad_imports or os.path.exists(TRIP):
                    ctx.violation({"check": "fieldtype-whitelist", "typename": tn[:40], "path": path, "shape": shape, "accepted": ok, "imports": bad_imports[:3]}, {"imports": ispy.names[:10], "exc": exc})
    finally:
        importlib.import_module = ispy.real
        base.exec = builtins.exec
    path = os.path.join(common.scratch("c06t"), "cases.json")
    tlc.write_json(path, cases)
    r = ctx.tlc("Trace_Names", "Trace_Names.cfg", f"{len(cases)} offered names", env={"TRACE_FILE": path})
    seen, drift = set(), 0
    for v in r.violations:
        cid = v["state"].get("cid")
        if cid is None:
            raise MachineryError(f"cannot attribute counter-example: {v}")
        c = cases[cid - 1]
        if v["inv"] == "Resplit":
            if cid in seen:
                continue
            seen.add(cid)
            ctx.violation({"check": "Resplit", "first_route": c["first"], "path": c["path"], "definition": c["text"], "accepted": c["accepted"], "fields_exact": c["fields_exact"],
                           "types_ok": c["types_ok"]}, {"case": c})
        elif v["inv"] == "Contract":
            if cid in seen:
                continue
            seen.add(cid)
            ctx.violation({"check": "Contract", "pos": c["pos"], "path": c["path"], "classes": "".join(c["s"])[:12], "text": c["text"][:30], "accepted": c["accepted"],
                           "fields_exact": c["fields_exact"], "version_ok": c["version_ok"], "source_shape_ok": c["source_shape_ok"], "tripwire": c["tripwire"]}, {"case": c})
        else:
            drift += 1
            if drift <= 3:
                print(f"MODEL-DRIFT property={PROP}: grammatical {c['pos']} name {c['text']!r} was refused via {c['path']} ({c['exc']})")
    if drift:
        ctx.note(f"model drift: {drift} grammatical names refused (not a violation: the property is accepted-ONLY-IF)")
    if os.path.exists(TRIP):
        os.remove(TRIP)
    ctx.count(len(cases), len(cases))
    ctx.extra["rule"] = "every class-string <= 4 over 8 character classes x 2 concretisations x {field name, type name} via the constructor; seeded subset and all hostile payloads also via binary frame, JSON line and Avro doc; 45 field-type name candidates"
    ctx.assumptions += ["execution is detected through the trip-wire file and through the AST shape of the source handed to exec; the harness shadows `exec` and `importlib.import_module` inside its own process only"]
    return ctx.finish()
