"""C11 -- compression and container format are detected transparently.

Specification: spec/Detect.tla (the opening procedure step by step: extension table, peek + codec magic tests in
order, container by extension/scheme for paths and by a second peek for file objects; the number of bytes a
peek delivers is explicit) and spec/Trace_Detect.tla.  TLC checks Transparent / RefusesJunk on the full matrix
and shows that a peek shorter than the codec magic breaks recognition.
Binding: the whole matrix codec x container x naming x generated record sequences: files are written by
RecordWriter under the revealing name and checked with the independent standard decompressor; the same bytes
are then read through every naming (path with extension / URL scheme, neutral path, BytesIO, a raw file object
delivering k bytes per read) and adapter outcome and records are compared with the model.
"""
import bz2, gzip, io, json, os, shutil

from vf import codecdrv as cd
from vf import check, common, gen, observe, simulate, tlc
from vf.common import MachineryError

PROP = "C11"
CODEC_EXT = {"none": "", "gzip": ".gz", "bz2": ".bz2", "lz4": ".lz4", "zstd": ".zst"}


def std_decompress(codec, blob):
    if codec == "none":
        return blob
    if codec == "gzip":
        assert blob[:2] == b"\x1f\x8b"
        return gzip.decompress(blob)
    if codec == "bz2":
        assert blob[:3] == b"BZh"
        return bz2.decompress(blob)
    if codec == "lz4":
        import lz4.frame

        assert blob[:4] == b"\x04\x22\x4d\x18"
        return lz4.frame.decompress(blob)
    import zstandard

    assert blob[:4] == b"\x28\xb5\x2f\xfd"
    return zstandard.ZstdDecompressor().decompressobj().decompress(blob)


def std_compress(codec, data):
    if codec == "none":
        return data
    if codec == "gzip":
        return gzip.compress(data, mtime=0)
    if codec == "bz2":
        return bz2.compress(data)
    if codec == "lz4":
        import lz4.frame

        return lz4.frame.compress(data)
    import zstandard

    return zstandard.ZstdCompressor().compress(data)


class Dribble(io.RawIOBase):
    """a raw binary file object that hands out at most k bytes per read (a pipe or socket fed in small pieces)"""

    def __init__(self, data, k):
        self.data, self.k, self.pos = data, k, 0

    def readable(self):
        return True

    def readinto(self, b):
        n = min(len(b), self.k, len(self.data) - self.pos)
        b[:n] = self.data[self.pos:self.pos + n]
        self.pos += n
        return n


def fifo_opener(path, blob):
    """RecordReader(<fifo path>) while another thread feeds the bytes once: a source that can be opened only once and not
    rewound.  A reader that hangs (it opened the path a second time) is released by a watchdog and counts as refused."""
    import threading

    def opener():
        from flow.record import RecordReader

        if os.path.exists(path):
            os.remove(path)
        os.mkfifo(path)

        def feed():
            try:
                with open(path, "wb") as f:
                    f.write(blob)
            except OSError:
                pass

        box = {}

        def consume():
            try:
                rd = RecordReader(path)
                box["recs"] = list(rd)
                try:
                    rd.close()
                except Exception:
                    pass
            except BaseException as e:  # noqa
                box["exc"] = e

        ft, ct = threading.Thread(target=feed, daemon=True), threading.Thread(target=consume, daemon=True)
        ft.start()
        ct.start()
        ct.join(8)
        for flags in (os.O_WRONLY | os.O_NONBLOCK, os.O_RDONLY | os.O_NONBLOCK):     # release whoever still waits in open()
            try:
                os.close(os.open(path, flags))
            except OSError:
                pass
        hung = ct.is_alive()
        ct.join(4)
        ft.join(4)
        if hung or ct.is_alive():
            raise TimeoutError("reader did not finish on a FIFO (opened the path more than once?)")
        if "exc" in box:
            raise box["exc"]
        return iter(box["recs"])

    return opener


def read_all(opener):
    try:
        rd = opener()
        out = [cd.obs_key(r) for r in rd]          # (the fold-blind observation key C01 / C02 / C04 use)
        try:
            rd.close()
        except Exception:
            pass
        return "records", out, "none"
    except BaseException as e:  # noqa
        if isinstance(e, (KeyboardInterrupt, SystemExit)):
            raise
        return "refused", [], type(e).__name__


def sources_part(ctx, thorough):
    """several sources open at the same time: every interleaving of open / read / close steps of two readers"""
    import itertools

    from flow.record import RecordDescriptor, RecordReader, RecordWriter

    ctx.design("Sources", "MC_Sources.cfg", "three readers x 3 records, every interleaving of open / read / close", actions=("Open", "Read", "Close"), workers=4)
    if thorough:
        ctx.sensitivity("Sources", "MC_Sources_dev.cfg", "one decoding context shared by all readers must violate Independent", "Independent", workers=4)
    tmp = common.scratch("c11src")
    D = RecordDescriptor("t/src", [("varint", "i"), ("string", "src"), ("bytes", "pad")])
    DV = RecordDescriptor("t/src", [("varint", "i"), ("string", "src"), ("bytes", "pad")])
    # every order of the steps o r r r c of reader a and of reader b (each reader's own steps stay in order)
    steps = {"a": ["open", "read", "read", "read", "close"], "b": ["open", "read", "read", "read", "close"]}
    scheds = []
    for pos in itertools.combinations(range(10), 5):
        ia, ib, s = iter(steps["a"]), iter(steps["b"]), []
        for k in range(10):
            s.append(("a", next(ia)) if k in pos else ("b", next(ib)))
        scheds.append(s)
    # spec -> code: interleavings generated by TLC from Sources.tla (they may stop early or close a reader before it was read to the end)
    sims = []
    for beh in simulate.behaviours("Sources", "Sim_Sources.cfg", 40 if not thorough else 400, 12, ctx.seed + 9):
        s = [(args[0], a.lower()) for a, args, st in beh[1:] if a in ("Open", "Read", "Close")]
        if s:
            sims.append(s)
    ctx.extra["source_interleavings_simulated_by_tlc"] = len(sims)
    traces, metas = [], []
    for codec, ext in CODEC_EXT.items():
        for container in ("stream", "avro"):
            paths = {}
            for r in ("a", "b"):
                fname = f"{r}.{'records' if container == 'stream' else 'avro'}{ext}"
                url = ("avro://" if container == "avro" and ext else "") + os.path.join(tmp, fname)
                with RecordWriter(url) as w:
                    for i in (1, 2, 3):
                        w.write(DV(i, r, (r.encode() * 400)[: 300 + 50 * i], _generated=gen.GEN))
                paths[r] = (url, os.path.join(tmp, fname))
            for naming in ("ext", "neutral", "fileobj"):
                if naming == "neutral" and container == "avro":
                    continue
                sel = (scheds if thorough else ctx.rnd.sample(scheds, 30) + scheds[:1] + scheds[-1:]) + (sims if thorough else sims[:12])
                for s in sel:
                    rd, it, fhs, tr = {}, {}, [], []
                    for r, op in s:
                        ev = {"op": op, "r": r, "raised": False, "exc": "none", "src": "-", "i": 0}
                        try:
                            if op == "open":
                                url, p = paths[r]
                                if naming == "ext":
                                    rd[r] = RecordReader(url)
                                elif naming == "neutral":
                                    np_ = os.path.join(tmp, "neutral_" + r)
                                    if not os.path.exists(np_):
                                        with open(np_, "wb") as o, open(p, "rb") as src:
                                            o.write(src.read())
                                    rd[r] = RecordReader(np_)
                                else:
                                    fh = open(p, "rb")
                                    fhs.append(fh)
                                    rd[r] = RecordReader(fileobj=fh)
                                it[r] = iter(rd[r])
                            elif op == "read":
                                x = next(it[r])
                                ev["src"], ev["i"] = str(x.src), int(x.i)
                            else:
                                rd[r].close()
                        except BaseException as e:  # noqa
                            if isinstance(e, KeyboardInterrupt):
                                raise
                            ev["raised"], ev["exc"] = True, type(e).__name__ + ":" + str(e)[:60]
                        tr.append(ev)
                    for fh in fhs:
                        fh.close()
                    traces.append(tr)
                    metas.append((codec, container, naming, " ".join(f"{r}:{op[0]}" for r, op in s)))
                    ctx.case(("sources",) + metas[-1])
            for f in os.listdir(tmp):
                os.remove(os.path.join(tmp, f))
            # the WRITER side of the same independence: two writers of this codec open at the same time, their writes
            # interleaved; afterwards each file is decompressed by the standard tool and read back -- what it holds is logged
            # as that sink's "reads" (Sources.tla with the roles reversed)
            for s in (scheds if thorough else ctx.rnd.sample(scheds, 12) + scheds[:1] + scheds[-1:]):
                ws, nwritten, tr, wpaths = {}, {"a": 0, "b": 0}, [], {}
                failed = None
                for r, op in s:
                    try:
                        if op == "open":
                            fname = f"w{r}.{'records' if container == 'stream' else 'avro'}{ext}"
                            wpaths[r] = (("avro://" if container == "avro" and ext else "") + os.path.join(tmp, fname), os.path.join(tmp, fname))
                            ws[r] = RecordWriter(wpaths[r][0])
                        elif op == "read":
                            nwritten[r] += 1
                            ws[r].write(DV(nwritten[r], r, (r.encode() * 400)[: 300 + 50 * nwritten[r]], _generated=gen.GEN))
                        else:
                            ws[r].close()
                    except BaseException as e:  # noqa
                        if isinstance(e, KeyboardInterrupt):
                            raise
                        failed = type(e).__name__ + ":" + str(e)[:60]
                for r in ("a", "b"):
                    tr.append({"op": "open", "r": r, "raised": failed is not None, "exc": failed or "none", "src": "-", "i": 0})
                for r in ("a", "b"):
                    url, p = wpaths[r]
                    try:
                        plain = std_decompress(codec, open(p, "rb").read())
                        ok_magic = plain[6:19] == b"RECORDSTREAM\n" if container == "stream" else plain[:3] == b"Obj"
                        if not ok_magic:
                            raise ValueError("the standard decompressor does not find the container in this file")
                        for x in RecordReader(url):
                            tr.append({"op": "read", "r": r, "raised": False, "exc": "none", "src": str(x.src), "i": int(x.i)})
                        tr.append({"op": "close", "r": r, "raised": False, "exc": "none", "src": "-", "i": 0})
                    except BaseException as e:  # noqa
                        if isinstance(e, KeyboardInterrupt):
                            raise
                        tr.append({"op": "close", "r": r, "raised": True, "exc": type(e).__name__ + ":" + str(e)[:60], "src": "-", "i": 0})
                traces.append(tr)
                metas.append((codec, container, "two-writers", " ".join(f"{r}:{op[0]}" for r, op in s)))
                ctx.case(("sinks",) + metas[-1])
                for f in os.listdir(tmp):
                    os.remove(os.path.join(tmp, f))
    path = os.path.join(common.scratch("c11srct"), "traces.json")
    tlc.write_json(path, traces)
    r = ctx.tlc("Trace_Sources", "Trace_Sources.cfg", f"{len(traces)} interleavings of two open readers", env={"TRACE_FILE": path}, workers=8)
    seen = set()
    for v in r.violations:
        tid = v["state"].get("tid")
        if tid is None:
            raise common.MachineryError(f"cannot attribute counter-example: {v}")
        if tid in seen:
            continue
        seen.add(tid)
        m = metas[tid - 1]
        ctx.violation({"check": "sources-" + v["inv"], "codec": m[0], "container": m[1], "naming": m[2]}, {"schedule": m[3], "trace": traces[tid - 1]})
    ctx.count(len(traces), sum(len(t) for t in traces))


def dispatch_part(ctx, thorough):
    """writer side: which adapter and codec a URL selects (spec/Dispatch.tla), over every (scheme, ext1, ext2, query)"""
    from flow.record import RecordDescriptor, RecordReader, RecordWriter

    ctx.design("Dispatch", "MC_Dispatch.cfg", "7 schemes x 8 container extensions x 6 codec extensions x query x clobber x pre-existing file", workers=4)
    if thorough:
        ctx.sensitivity("Dispatch", "MC_Dispatch_dev.cfg", "choosing the adapter by the FIRST extension must violate CompressedByExtension", "CompressedByExtension", workers=4)
    tmp = common.scratch("c11disp")
    D = RecordDescriptor("t/disp", [("varint", "n"), ("string", "s")])
    recs = [D(1, "one", _generated=gen.GEN), D(2, "two", _generated=gen.GEN)]
    CLS = {"StreamWriter": "stream", "JsonfileWriter": "jsonfile", "CsvfileWriter": "csvfile", "AvroWriter": "avro", "LineWriter": "line", "TextWriter": "text"}
    MAGIC = [(b"\x1f\x8b", "gzip"), (b"BZh", "bz2"), (b"\x04\x22\x4d\x18", "lz4"), (b"\x28\xb5\x2f\xfd", "zstd")]

    def sniff(plain):
        if plain[6:19] == b"RECORDSTREAM\n":
            return "stream"
        if plain[:4] == b"Obj\x01":
            return "avro"
        text = plain.decode("utf-8", "replace")
        if text.startswith("--[ RECORD 1 ]--"):
            return "line"
        if text.startswith("<t/disp "):
            return "text"
        lines = text.splitlines()
        try:
            if lines and all(isinstance(json.loads(l), dict) for l in lines):
                return "json"
        except Exception:
            pass
        if lines and lines[0].startswith("n,s,_source"):
            return "csv"
        return "unknown"

    cases = []
    for s in ["none", "stream", "jsonfile", "csvfile", "avro", "line", "text"]:
        for e1 in ["", ".records", ".json", ".jsonl", ".csv", ".avro", ".txt", ".rec"]:
            for e2 in ["", ".gz", ".bz2", ".lz4", ".zst", ".zstd"]:
                for q, clobber, exists in (("none", True, False), ("plain", True, False), ("none", False, False), ("none", False, True), ("none", True, True)):
                    if q == "plain" and not thorough and (len(e1) + len(e2)) % 2:
                        continue
                    if exists and not thorough and (len(e1) + len(s)) % 2:
                        continue
                    for f in os.listdir(tmp):
                        os.remove(os.path.join(tmp, f))
                    fname = "out" + e1 + e2
                    path = os.path.join(tmp, fname)
                    url = ("" if s == "none" else s + "://") + path + ("?unusedarg=1" if q == "plain" else "")
                    c = {"s": s, "e1": e1, "e2": e2, "q": q, "clobber": clobber, "exists": exists, "untouched": True, "raised": False, "exc": "none", "adapter": "?", "file_ok": False, "codec": "?",
                         "container": "?", "readback_checked": False, "readback_ok": True}
                    if exists:
                        with open(path, "wb") as fh:
                            fh.write(b"PRE-EXISTING CONTENT")
                    try:
                        w = RecordWriter(url, clobber=clobber)
                        c["adapter"] = CLS.get(type(w).__name__, type(w).__name__)
                        for r in recs:
                            w.write(r)
                        w.flush()
                        w.close()
                        c["file_ok"] = os.listdir(tmp) == [fname]
                        blob = open(path, "rb").read()
                        c["codec"] = next((name for m, name in MAGIC if blob.startswith(m)), "none")
                        c["container"] = sniff(std_decompress(c["codec"], blob))
                        if c["adapter"] in ("stream", "jsonfile", "avro", "csvfile"):
                            c["readback_checked"] = True
                            back = list(RecordReader(url))
                            c["readback_ok"] = [(str(r.n), str(r.s)) for r in back] == [("1", "one"), ("2", "two")]
                    except Exception as e:
                        c["raised"], c["exc"] = True, type(e).__name__ + ":" + str(e)[:80]
                    if exists:
                        try:
                            c["untouched"] = open(path, "rb").read() == b"PRE-EXISTING CONTENT"
                        except Exception:
                            c["untouched"] = False
                    cases.append(c)
                    ctx.case(("dispatch", s, e1, e2, q, clobber, exists))
    path = os.path.join(common.scratch("c11dispt"), "cases.json")
    tlc.write_json(path, cases)
    r = ctx.tlc("Trace_Dispatch", "Trace_Dispatch.cfg", f"{len(cases)} writer URLs", env={"TRACE_FILE": path}, workers=4)
    seen = set()
    for v in r.violations:
        cid = v["state"].get("cid")
        if cid is None:
            raise common.MachineryError(f"cannot attribute counter-example: {v}")
        if cid in seen:
            continue
        seen.add(cid)
        c = cases[cid - 1]
        ctx.violation({"check": "dispatch", "scheme": c["s"], "ext1": c["e1"], "ext2": c["e2"], "query": c["q"], "adapter": c["adapter"], "codec": c["codec"], "container": c["container"],
                       "raised": c["raised"]}, {"case": c})
    ctx.count(len(cases), len(cases))


def run(tier):
    from flow.record import RecordDescriptor, RecordReader, RecordWriter

    ctx = check.Ctx(PROP, tier)
    thorough = tier == "thorough"
    sources_part(ctx, thorough)
    dispatch_part(ctx, thorough)
    ctx.design("Detect", "MC_Detect.cfg", "full matrix: 5 codecs x 8 containers x 8 namings x 5 peek lengths", workers=4)
    ctx.sensitivity("Detect", "MC_Detect_shortpeek.cfg", "a first peek shorter than the codec magic breaks 'always recognised'", "AlwaysRecognised", workers=4)
    tmp = common.scratch("c11")
    # avro-mappable records (one descriptor), and general records for the stream container
    DV = RecordDescriptor("t/det", [("varint", "n"), ("string", "s"), ("boolean", "t"), ("float", "x"), ("bytes", "b")])
    cases, metas = [], []
    nseq = 2 if not thorough else 8
    for seq in range(nseq):
        nrec = ctx.rnd.choice([0, 1, 3, 7]) if seq else 3
        recs_av = [DV(i, ctx.rnd.choice(["", "a", "é"]), bool(i % 2), 1.5, b"\x00" * i, _generated=gen.GEN) for i in range(nrec)]
        streams = gen.sample_streams(ctx.rnd, 1, (nrec, nrec))[0] if nrec else []
        # a valid, uncompressed record stream (for the container class "cutcodec")
        from flow.record import RecordStreamWriter

        _b = io.BytesIO()
        _w = RecordStreamWriter(_b)
        for _r in recs_av or [DV(1, "a", True, 1.5, b"", _generated=gen.GEN)]:
            _w.write(_r)
        valid_stream_bytes = _b.getvalue()
        _w.fp = None
        for codec in CODEC_EXT:
            for container in ("stream", "avro", "json", "text", "garbage", "empty", "junkmagic", "cutcodec"):
                if container == "json" and codec != "none":
                    continue  # the property names record stream and Avro as the compressed containers; JSON is exercised uncompressed only
                recs = recs_av if container in ("avro",) else (streams if container == "stream" else recs_av)
                expect = [cd.obs_key(r) for r in recs]
                for f in os.listdir(tmp):
                    os.remove(os.path.join(tmp, f))
                written, std_ok = False, True
                if container in ("stream", "avro", "json"):
                    base_ext = {"stream": ".records", "avro": ".avro", "json": ".json"}[container]
                    fname = "f" + base_ext + CODEC_EXT[codec]
                    scheme = {"stream": "", "avro": "avro://", "json": "jsonfile://"}[container] if codec != "none" else ""
                    url_w = scheme + os.path.join(tmp, fname)
                    try:
                        with RecordWriter(url_w) as w:
                            for r in recs:
                                w.write(r)
                        written = True
                        blob = open(os.path.join(tmp, fname), "rb").read()
                        plain = std_decompress(codec, blob)
                        if container == "stream":
                            std_ok = plain[6:19] == b"RECORDSTREAM\n"
                        elif container == "avro":
                            std_ok = plain[:3] == b"Obj"
                        else:
                            std_ok = all(json.loads(l) is not None for l in plain.decode().splitlines())
                    except Exception as e:
                        std_ok = False
                        blob = b""
                    url_r = url_w
                else:
                    plain = {"cutcodec": b"", "text": b"<t/det n=1 s='a'>\n<t/det n=2 s='b'>\n", "garbage": bytes(range(7, 200)) * 3, "empty": b"",
                             "junkmagic": ctx.rnd.choice([b"RECORDSTREAM\nhello\n", b"RECORDSTREAM\n" + b"\x00" * 6, b"abc" + b"RECORDSTREAM\n" + b"xyz",
                                                         b"RECORDSTREAM\n" + b"these bytes are not a record stream"]) if seq else b"RECORDSTREAM\nhello\n"}[container]
                    blob = std_compress(codec, plain) if container != "empty" or codec == "none" else std_compress(codec, b"")
                    if container == "cutcodec":
                        whole = std_compress(codec, valid_stream_bytes)
                        blob = whole[: (4 + (seq * 5 + len(codec)) % 13) if codec != "none" else 10]
                    if container == "empty":
                        blob = b"" if codec == "none" else blob
                    fname = "f.records" + CODEC_EXT[codec]
                    with open(os.path.join(tmp, fname), "wb") as fh:
                        fh.write(blob)
                    url_r = os.path.join(tmp, fname)
                # every naming of the same bytes
                neutral = os.path.join(tmp, "neutralname")
                with open(neutral, "wb") as fh:
                    fh.write(blob)
                namings = [("ext", 19, lambda: RecordReader(url_r)), ("neutral", 19, lambda: RecordReader(neutral)),
                           ("fileobj", 19, lambda: RecordReader(fileobj=io.BytesIO(blob))),
                           ("fileobj", 19, lambda: RecordReader(fileobj=open(neutral, "rb")))]
                # standard input, anonymous and named by a URL scheme
                import sys as _sys

                def with_stdin(url):
                    class _In:
                        def __init__(self):
                            self.buffer = io.BufferedReader(io.BytesIO(blob))

                    def opener():
                        saved = _sys.stdin
                        _sys.stdin = _In()
                        try:
                            rd = RecordReader(url) if url is not None else RecordReader()
                            return list(rd)
                        finally:
                            _sys.stdin = saved
                    return opener
                namings.append(("stdin", 19, with_stdin(None)))
                namings.append(("stdin", 19, with_stdin("")))            # the empty string names standard input too
                namings.append(("stdin", 19, with_stdin("-")))
                if container in ("stream", "avro"):
                    namings.append(("stdin_scheme", 19, with_stdin({"stream": "stream://-", "avro": "avro://-"}[container])))
                elif container != "json":
                    namings.append(("stdin_scheme", 19, with_stdin("stream://-")))
                # an open binary file object handed to the adapter CLASS itself
                if container in ("stream", "avro") or container not in ("json",):
                    def by_class(kind):
                        def opener():
                            from flow.record.adapter.avro import AvroReader
                            from flow.record.adapter.stream import StreamReader

                            fo = io.BytesIO(blob) if kind == "bytesio" else open(neutral, "rb")
                            return (AvroReader if container == "avro" else StreamReader)(fo)
                        return opener
                    namings.append(("class_fileobj", 19, by_class("bytesio")))
                    namings.append(("class_fileobj", 19, by_class("file")))
                # a file object positioned behind a preamble that is not part of the source
                pre = b"PREAMBLE-NOT-PART-OF-THE-SOURCE" * 3

                def at_offset(kind):
                    def opener():
                        if kind == "bytesio":
                            fo = io.BytesIO(pre + blob)
                        else:
                            pth = os.path.join(tmp, "withpreamble")
                            with open(pth, "wb") as fh:
                                fh.write(pre + blob)
                            fo = open(pth, "rb", buffering=0)
                        fo.seek(len(pre))
                        return RecordReader(fileobj=fo)
                    return opener
                namings.append(("fileobj_offset", 19, at_offset("bytesio")))
                namings.append(("fileobj_offset", 19, at_offset("rawfile")))
                for k in ((1, 2, 3, 4) if thorough or seq == 0 else (1, 3)):
                    namings.append(("fileobj", k, (lambda k=k: RecordReader(fileobj=Dribble(blob, k)))))
                # a file object that is readable but was opened for appending + reading (its .mode does not begin with r)
                def aplus():
                    cp = os.path.join(tmp, "aplus_copy")
                    with open(cp, "wb") as fh:
                        fh.write(blob)
                    f = open(cp, "a+b")
                    f.seek(0)
                    return RecordReader(fileobj=f)

                namings.append(("fileobj", 19, aplus))
                # a path whose extension names the container only, the bytes being compressed all the same
                if container in ("stream", "avro") and codec != "none":
                    hidden = os.path.join(tmp, "hidden" + {"stream": ".records", "avro": ".avro"}[container])
                    with open(hidden, "wb") as fh:
                        fh.write(blob)
                    namings.append(("ext_hidden", 19, lambda: RecordReader(hidden)))
                # a path that cannot be opened twice or rewound: a FIFO with a neutral name, fed by another thread
                if seq == 0 and container in ("stream", "garbage", "cutcodec"):
                    namings.append(("neutral", 19, fifo_opener(os.path.join(tmp, "pipe_noext"), blob)))
                # the same records in a zstandard frame that declares a LARGE window (streaming compression at level 22)
                if codec == "zstd" and container == "stream" and written:
                    import zstandard

                    co = zstandard.ZstdCompressor(level=22).compressobj()
                    big = co.compress(plain) + co.flush()
                    bigp, bign = os.path.join(tmp, "big.records.zst"), os.path.join(tmp, "bigneutral")
                    for pth in (bigp, bign):
                        with open(pth, "wb") as fh:
                            fh.write(big)
                    namings += [("ext", 19, lambda: RecordReader(bigp)), ("neutral", 19, lambda: RecordReader(bign)), ("fileobj", 19, lambda: RecordReader(fileobj=io.BytesIO(big))),
                                ("class_fileobj", 19, lambda: __import__("flow.record.adapter.stream", fromlist=["StreamReader"]).StreamReader(io.BytesIO(big)))]
                for naming, peeklen, opener in namings:
                    how, got, exc = read_all(opener)
                    outcome = how
                    if how == "records" and got != expect:
                        outcome = "wrong-records"
                    if how == "records" and container in ("text", "garbage", "empty", "junkmagic", "cutcodec"):
                        outcome = "wrong-records"
                    cases.append({"codec": codec, "container": container, "naming": naming, "peeklen": peeklen, "outcome": outcome, "exc": exc,
                                  "written": written and naming == "ext", "std_decompress_ok": std_ok, "nrec": len(recs)})
                    metas.append((codec, container, naming, peeklen, seq))
                    ctx.case((codec, container, naming, peeklen, seq))
    ctx.sample({"case": cases[0]})
    ctx.sample({"case": cases[37]})
    path = os.path.join(common.scratch("c11t"), "cases.json")
    tlc.write_json(path, cases)
    r = ctx.tlc("Trace_Detect", "Trace_Detect.cfg", f"{len(cases)} opened sources", env={"TRACE_FILE": path}, workers=8)
    seen, drift = set(), 0
    for v in r.violations:
        cid = v["state"].get("cid")
        if cid is None:
            raise MachineryError(f"cannot attribute counter-example: {v}")
        c = cases[cid - 1]
        if v["inv"] == "Contract":
            if cid in seen:
                continue
            seen.add(cid)
            ctx.violation({"check": "Contract", "codec": c["codec"], "container": c["container"], "naming": c["naming"], "short_peek": c["peeklen"] < 19, "outcome": c["outcome"],
                           "peek_shorter_than_magic": c["peeklen"] < {"none": 0, "gzip": 2, "bz2": 3, "lz4": 4, "zstd": 4}[c["codec"]] or (c["peeklen"] < 19 and c["container"] == "stream") or (c["peeklen"] < 3 and c["container"] == "avro")},
                          {"case": c})
        else:
            drift += 1
            if drift <= 3:
                print(f"MODEL-DRIFT property={PROP}: {c}")
    if drift:
        ctx.note(f"model drift on {drift} cases")
    ctx.count(len(cases), len(cases))
    ctx.exhaustive = True
    ctx.extra["rule"] = "exhaustive matrix codec {none,gzip,bz2,lz4,zstd} x container {stream, avro, json, text, garbage, empty} x naming {extension/scheme path, neutral path, BytesIO, real file, raw object delivering k bytes per read} x record sequences"
    return ctx.finish()
