"""C14 -- JSON lines output round-trips and is plain JSON.

Specification: spec/CodecJson.tla (per supported field type the JSON shape written and whether the reader turns it
back into the field type; document kinds and key sets with descriptors on/off) and spec/Trace_Json.tla.
Binding: for every JSON-supported field type in scalar and typed-list form x every value class (None, big integers,
NaN/inf, surrogate escapes, empty lists ...) x descriptors on/off x indentation, records are written with the JSON
adapter; the file is parsed by a plain JSON parser (documents, key sets, shapes, one document per line) and read back
with the library (deep observation for identity; scalar JSON values with descriptors off); TLC evaluates the
invariants on every case.  Sequences mixing descriptors are covered by C03's JSON traces.
"""
import json, os

from vf import check, codecdrv as cd, common, gen, observe, tlc
from vf.common import MachineryError

PROP = "C14"
SUPPORTED = ["string", "wstring", "uri", "varint", "filesize", "unix_file_mode", "uint16", "uint32", "net.tcp.Port", "float", "boolean", "datetime", "bytes", "digest",
             "net.ipaddress", "net.ipnetwork", "net.IPAddress", "path"]


def docs_of(text):
    """parse a file as a sequence of JSON documents with a plain decoder"""
    dec = json.JSONDecoder()
    out, i, n = [], 0, len(text)
    while i < n:
        while i < n and text[i].isspace():
            i += 1
        if i >= n:
            break
        obj, j = dec.raw_decode(text, i)
        out.append(obj)
        i = j
    return out


def jshape(v):
    if v is None:
        return "null"
    if isinstance(v, bool):
        return "bool"
    if isinstance(v, (int, float)):
        return "number"
    if isinstance(v, str):
        return "string"
    if isinstance(v, dict):
        return "object"
    if isinstance(v, list):
        return "array:" + (jshape(v[0]) if v else "")
    return "?"


def run(tier):
    from flow.record import RecordReader, RecordWriter

    ctx = check.Ctx(PROP, tier)
    thorough = tier == "thorough"
    ctx.design("CodecJson", "MC_CodecJson.cfg", "RoundTrip over 19 JSON-supported types x None/value x scalar/list x descriptors on/off", workers=4)
    if thorough:
        ctx.sensitivity("CodecJson", "MC_CodecJson_dev1.cfg", "a None bytes field that cannot be read must violate RoundTrip", "RoundTrip", workers=4)
        ctx.sensitivity("CodecJson", "MC_CodecJson_dev2.cfg", "bytes[] elements left as base64 text must violate RoundTrip", "RoundTrip", workers=4)
    vc = gen.value_classes()
    tmp = common.scratch("c14")
    cases = []
    # two writers in one process: the FIRST document ever written for a record type is indented, a later file is not --
    # the later file must still be one document per line (nothing of the first writer's settings may stick)
    from flow.record import RecordDescriptor as _RD

    for T in ("string", "varint", "datetime"):
        Dn = _RD("js/indentfirst_" + T, [(T, "f"), ("string", "tail")])
        rec = Dn(None, "t", _generated=gen.GEN)
        for indent in (2, 0, 4, 0):
            url = "jsonfile://" + os.path.join(tmp, "o.json") + "?descriptors=true" + (f"&indent={indent}" if indent else "")
            c = {"T": T, "islist": False, "label": "seq:indent-first", "isnone": True, "descriptors": True, "indent": indent, "raised": False, "exc": "none", "identical": True,
                 "all_docs_parse": False, "one_doc_per_line": False, "doc_kinds": [], "record_keys": ["f", "tail", "_source", "_classification", "_generated", "_version", "_type", "_recorddescriptor"],
                 "shape": "null", "scalars_equal": True, "plain_checked": False, "plain_type": "?", "plain_shape": "?"}
            try:
                with RecordWriter(url) as w:
                    w.write(rec)
                text = open(os.path.join(tmp, "o.json"), encoding="utf-8").read()
                docs = docs_of(text)
                c["all_docs_parse"] = True
                lines = [l for l in text.split("\n") if l != ""]
                try:
                    c["one_doc_per_line"] = len(lines) == len(docs) and all(json.loads(l) == dd for l, dd in zip(lines, docs))
                except Exception:
                    c["one_doc_per_line"] = False
                c["doc_kinds"] = [dd.get("_type", "record") if isinstance(dd, dict) else "?" for dd in docs]
            except Exception as e:
                c["raised"], c["exc"] = True, type(e).__name__ + ":" + str(e)[:60]
            cases.append(c)
            ctx.case(("indent-first", T, indent))
    for T in SUPPORTED:
        for islist in ((False, True) if T in gen.LISTABLE else (False,)):
            tn = T + ("[]" if islist else "")
            D = gen.desc_for(tn, extra=(("string", "tail"),))
            extra = gen.random_values(T, ctx.rnd, 100 if thorough else 4)
            for label, v in list(vc[T]) + extra:
                if label in ("len65535", "len65536") or (T == "path" and label in ("windows", "unc")):
                    continue
                val = ([v, v] if v is not None else None) if islist else v
                if islist and label == "rnd":
                    val = [v] * ctx.rnd.choice([0, 1, 3])
                try:
                    rec = D(val, "t", _source="s", _generated=gen.GEN)
                except Exception:
                    continue
                before = cd.obs_key(rec)
                fv = getattr(rec, "f")
                isnone = fv is None or (islist and len(fv) == 0)
                for descriptors in (True, False):
                    for indent in ((0, 2) if thorough or label in ("none", "one", "zero", "utc", "v4", "md5", "empty") else (0,)):
                        url = "jsonfile://" + os.path.join(tmp, "o.json") + "?descriptors=" + ("true" if descriptors else "false") + (f"&indent={indent}" if indent else "")
                        c = {"T": T, "islist": islist, "label": label, "isnone": bool(isnone), "descriptors": descriptors, "indent": indent, "raised": False, "exc": "none", "identical": False,
                             "all_docs_parse": False, "one_doc_per_line": False, "doc_kinds": [], "record_keys": [], "shape": "?", "scalars_equal": False,
                             "plain_checked": False, "plain_type": "?", "plain_shape": "?"}
                        try:
                            with RecordWriter(url) as w:
                                w.write(rec)
                            text = open(os.path.join(tmp, "o.json"), encoding="utf-8").read()
                            docs = docs_of(text)
                            c["all_docs_parse"] = True
                            lines = [l for l in text.split("\n") if l != ""]
                            try:
                                c["one_doc_per_line"] = len(lines) == len(docs) and all(json.loads(l) == d for l, d in zip(lines, docs))
                            except Exception:
                                c["one_doc_per_line"] = False
                            c["doc_kinds"] = [d.get("_type", "record") if isinstance(d, dict) else "?" for d in docs]
                            rd = [d for d in docs if isinstance(d, dict) and d.get("_type", "record") == "record"]
                            if rd:
                                c["record_keys"] = list(rd[-1].keys())
                                c["shape"] = jshape(rd[-1].get("f"))
                        except Exception as e:
                            c["raised"], c["exc"] = True, "write:" + type(e).__name__ + ":" + str(e)[:60]
                        if not c["raised"] and indent:
                            # indented output is for people: it is checked as plain JSON only (the line-oriented reader is not claimed for it)
                            c["identical"], c["scalars_equal"] = True, True
                        elif not c["raised"]:
                            try:
                                back = list(RecordReader(os.path.join(tmp, "o.json")))
                                if descriptors:
                                    c["identical"] = len(back) == 1 and cd.obs_key(back[0]) == before
                                else:
                                    jd = rd[-1]
                                    ok = len(back) == 1
                                    for k, jv in jd.items():
                                        if k.startswith("_") or isinstance(jv, (dict, list)):
                                            continue
                                        got = getattr(back[0], k, "MISSING")
                                        if jv is None:
                                            ok &= got is None
                                        elif isinstance(jv, float) and jv != jv:
                                            ok &= got != got
                                        else:
                                            ok &= bool(got == jv)
                                    c["scalars_equal"] = bool(ok)
                                    if len(back) == 1 and "f" in jd:
                                        jv = jd["f"]
                                        c["plain_checked"] = True
                                        c["plain_shape"] = ("bool" if isinstance(jv, bool) else "int" if isinstance(jv, int) else "float" if isinstance(jv, float)
                                                            else "string" if isinstance(jv, str) else "null" if jv is None else "array" if isinstance(jv, list) else "object")
                                        c["plain_type"] = dict((n, t) for t, n in back[0]._desc.get_field_tuples()).get("f", "?")
                            except Exception as e:
                                c["raised"], c["exc"] = True, "read:" + type(e).__name__ + ":" + str(e)[:60]
                        cases.append(c)
                        ctx.case((tn, label, descriptors, indent))
    # sequences in ONE file: an unset value first and set values later (same keys), and two descriptors that share a
    # type name interleaved A, B, A -- with and without descriptors
    from flow.record import RecordDescriptor

    def seq_case(recs, descriptors, label, T):
        url = "jsonfile://" + os.path.join(tmp, "o.json") + "?descriptors=" + ("true" if descriptors else "false")
        c = {"T": T, "islist": False, "label": label, "isnone": False, "descriptors": descriptors, "indent": 0, "raised": False, "exc": "none", "identical": False,
             "plain_checked": False, "plain_type": "?", "plain_shape": "?",
             "all_docs_parse": True, "one_doc_per_line": True, "doc_kinds": ["recorddescriptor", "record"] if descriptors else ["record"], "record_keys": ["f", "tail", "_source", "_classification", "_generated", "_version"] + (["_type", "_recorddescriptor"] if descriptors else []),
             "shape": "?", "scalars_equal": False, "sequence": True}
        try:
            with RecordWriter(url) as w:
                accepted = []
                for r in recs:
                    if isinstance(r, tuple):          # ("refused", record): a record json cannot serialise; the caller carries on
                        try:
                            w.write(r[1])
                            accepted.append(r[1])
                        except Exception:
                            pass
                    else:
                        w.write(r)
                        accepted.append(r)
                recs = accepted
            text = open(os.path.join(tmp, "o.json"), encoding="utf-8").read()
            docs = [d for d in docs_of(text) if d.get("_type", "record") == "record"]
            back = list(RecordReader(os.path.join(tmp, "o.json")))
            if descriptors:
                c["identical"] = [cd.obs_key(b) for b in back] == [cd.obs_key(r) for r in recs]
            else:
                ok = len(back) == len(recs) == len(docs)
                for jd, b in zip(docs, back):
                    for k, jv in jd.items():
                        if k.startswith("_") or isinstance(jv, (dict, list)):
                            continue
                        got = getattr(b, k, "MISSING")
                        ok &= (got is None) if jv is None else ((got != got) if isinstance(jv, float) and jv != jv else bool(got == jv))
                c["scalars_equal"] = bool(ok)
        except Exception as e:
            c["raised"], c["exc"] = True, type(e).__name__ + ":" + str(e)[:60]
        # the single-record shape / key invariants do not apply to a sequence: give TLC the expected shape
        c["shape"] = "string"
        c["T"] = "string"
        return c

    for T in ("varint", "float", "boolean", "string", "bytes", "datetime", "net.ipaddress"):
        D = gen.desc_for(T, extra=(("string", "tail"),))
        vals = [v for l, v in vc[T] if v is not None][:3]
        recs = [D(None, "t", _generated=gen.GEN)] + [D(v, "t", _generated=gen.GEN) for v in vals] + [D(None, "t", _generated=gen.GEN)]
        for descriptors in (True, False):
            cases.append(seq_case(recs, descriptors, "seq:none-then-values", T))
            ctx.case(("seq", T, descriptors))
    # a record json.dumps cannot serialise (an integer of 5000 digits) as the FIRST record of its type, and in the middle:
    # the records accepted around it must still read back
    Dv = gen.desc_for("varint", extra=(("string", "tail"),))
    Dv2 = RecordDescriptor("js/second", [("varint", "f"), ("string", "tail")])
    bad = lambda DD: ("refused", DD(10**5000, "t", _generated=gen.GEN))
    good = lambda DD, i: DD(i, "t", _generated=gen.GEN)
    for recs in ([bad(Dv), good(Dv, 1), good(Dv, 2)], [good(Dv, 1), bad(Dv), good(Dv, 2)], [good(Dv, 1), bad(Dv2), good(Dv2, 2), good(Dv, 3), good(Dv2, 4)]):
        for descriptors in (True, False):
            cases.append(seq_case(list(recs), descriptors, "seq:refused-record-then-good-ones", "varint"))
            ctx.case(("seq-refused", len(recs), isinstance(recs[0], tuple), descriptors))
    A = RecordDescriptor("js/same", [("string", "f"), ("string", "tail")])
    B = RecordDescriptor("js/same", [("string", "f"), ("string", "tail"), ("varint", "extra")])
    Cc = RecordDescriptor("js/same", [("varint", "f"), ("string", "tail")])
    for order in ([A, B, A], [B, A, B, A], [A, Cc, A], [Cc, A, A, Cc]):
        recs = [d(*(["x", "t", 7][: len(d.get_field_tuples())] if d is not Cc else [5, "t"]), _generated=gen.GEN) for d in order]
        cases.append(seq_case(recs, True, "seq:same-name-interleaved", "string"))
        ctx.case(("seq-same-name", len(order), order[0] is A))
    # field names that are what the library's own functions call their parameters
    Dp = RecordDescriptor("js/params", [("string", "self"), ("string", "cls"), ("varint", "args"), ("string", "kwargs"), ("string", "name"), ("string", "fields"), ("string", "record")])
    for descriptors in (True, False):
        cases.append(seq_case([Dp("s%d" % i, "c", i, "k", "n", "f", "r", _generated=gen.GEN) for i in range(3)], descriptors, "seq:field-names-like-parameters", "string"))
        ctx.case(("seq-param-names", descriptors))
    # a file of several MiB in which a line break falls EXACTLY on a multiple of 2**20 (and of 2**16): block-wise readers
    # must not glue the lines around it together
    Df = RecordDescriptor("js/filler", [("string", "f"), ("string", "tail")])
    def _filler_recs(pad):
        return [Df("x" * pad, "t", _generated=gen.GEN)] + [Df("y" * 70000, "t%d" % i, _generated=gen.GEN) for i in range(20)]
    probe = os.path.join(tmp, "probe.json")
    for target in (2 ** 20, 2 ** 16, 3 * 2 ** 20):
        with RecordWriter("jsonfile://" + probe) as w:
            for r in _filler_recs(1000):
                w.write(r)
        raw = open(probe, "rb").read()
        second_line_end = raw.index(b"\n", raw.index(b"\n") + 1) + 1           # descriptor line + first record line
        pad = 1000 + (target - second_line_end)
        if pad > 0:
            cases.append(seq_case(_filler_recs(pad), True, f"seq:line-break-exactly-at-{target}", "string"))
            ctx.case(("seq-aligned-line-break", target))
    os.remove(probe)
    # more record types in one file than a registry of fixed size holds, one of them recurring
    cases.append(seq_case(gen.many_types_stream(1300, 97), True, "seq:many-types-with-a-recurring-one", "string"))
    ctx.case(("seq-many-types", 1300))
    # text that looks like structure, FOLLOWED by further records (one document per line, whatever the line contains)
    Tx = RecordDescriptor("js/text", [("string", "f"), ("string", "tail")])
    for texts in (["int main(void) {", "x", "} // end"], ["{{{", "}"], ['{"_type": "recorddescriptor"', "y"], ["[[", "]]", "{", "}"], ["\\{", '"{', "ok"]):
        for descriptors in (True, False):
            cases.append(seq_case([Tx(t, "t", _generated=gen.GEN) for t in texts], descriptors, "seq:structure-like-text-then-more-records", "string"))
            ctx.case(("seq-structure-text", tuple(texts), descriptors))
    # two types whose identifiers COINCIDE (same name, same concatenation of field names and types), interleaved: every
    # record comes back under the definition it was written with
    X = RecordDescriptor("js/x", [("string", "a"), ("string", "b")])
    Xc = RecordDescriptor("js/x", [("string", "astringb")])
    mkx = {id(X): lambda i: X("a%d" % i, "b%d" % i, _generated=gen.GEN), id(Xc): lambda i: Xc("c%d" % i, _generated=gen.GEN)}
    for order in ([X, Xc, X], [Xc, X, Xc, X], [X, X, Xc, Xc, X]):
        cases.append(seq_case([mkx[id(d)](i) for i, d in enumerate(order)], True, "seq:coinciding-identifiers-interleaved", "string"))
        ctx.case(("seq-coinciding", len(order), order[0] is X))
    # the same, where the versions differ in WHICH fields are bytes (the reader must decode base64 per descriptor, not per name)
    Ab = RecordDescriptor("js/sameb", [("bytes", "f"), ("string", "tail")])
    Bb = RecordDescriptor("js/sameb", [("bytes", "f"), ("string", "tail"), ("bytes", "extra")])
    Cb = RecordDescriptor("js/sameb", [("string", "f"), ("string", "tail"), ("bytes", "extra"), ("bytes[]", "more")])
    mk = {id(Ab): lambda: Ab(b"\x00\xffab", "t", _generated=gen.GEN), id(Bb): lambda: Bb(b"\x01", "t", b"\xfe\xfdxyz", _generated=gen.GEN),
          id(Cb): lambda: Cb("aGVsbG8=", "t", b"q\x00", [b"\x00", b"abc"], _generated=gen.GEN)}
    for order in ([Bb, Ab, Bb], [Ab, Bb, Ab, Bb], [Cb, Ab, Cb, Bb, Cb], [Bb, Cb, Bb]):
        recs = [mk[id(d)]() for d in order]
        cases.append(seq_case(recs, True, "seq:same-name-bytes-interleaved", "string"))
        ctx.case(("seq-same-name-bytes", len(order), order[0].get_field_tuples()))
    ctx.sample({"case": cases[0]})
    ctx.sample({"case": cases[len(cases) // 2]})
    path = os.path.join(common.scratch("c14t"), "cases.json")
    tlc.write_json(path, cases)
    r = ctx.tlc("Trace_Json", "Trace_Json.cfg", f"{len(cases)} JSON cases", env={"TRACE_FILE": path}, workers=8)
    seen = set()
    for v in r.violations:
        cid = v["state"].get("cid")
        if cid is None:
            raise MachineryError(f"cannot attribute counter-example: {v}")
        if (cid, v["inv"]) in seen:
            continue
        seen.add((cid, v["inv"]))
        c = cases[cid - 1]
        ctx.violation({"check": v["inv"], "type": c["T"] + ("[]" if c["islist"] else ""), "class": c["label"] if c["label"] != "rnd" else "rnd", "descriptors": c["descriptors"], "indent": c["indent"],
                       "raised": c["raised"]}, {"case": c})
    ctx.count(len(cases), len(cases))
    ctx.extra["rule"] = "one case per (JSON-supported field type, scalar/list, value class or seeded random value, descriptors on/off, indentation)"
    ctx.assumptions += ["NaN / Infinity are emitted in Python's JSON dialect; the check accepts what json.loads accepts (the property does not demand RFC strictness)",
                        "Windows paths, command, dictlist and dynamic fields are outside the property's list of JSON-supported types"]
    return ctx.finish()
