"""C17 -- writers lose nothing: close, split and rotation keep every record once.

Specification: spec/Writers.tla (life-cycle per adapter kind), spec/Split.tla (split arithmetic),
spec/Template.tla (path-template rotation with explicit clock and file system); all three checked
exhaustively by TLC.  Binding: every call history up to a bound is replayed on the real writers
(RecordWriter(url) per kind; split:// over several targets; PathTemplateWriter with a fake clock and
pre-created files); after every closing call the files are read with the library's reader and with an
independent reader of the container format; TLC validates the recorded traces (contract = verdict,
design = drift).
"""
import csv, glob, gzip, bz2, io, itertools, json, os, re, sqlite3, datetime as dt

from vf import check, common, gen, refcodec as rc, tlc
from vf.common import MachineryError

PROP = "C17"

KINDS = {
    "stream": "out.records", "streamgz": "out.records.gz", "json": "out.json", "avro": "out.avro",
    "sqlite": "sqlite://out.db", "csv": "out.csv", "line": "line://out.txt", "text": "text://out.txt",
}
EXTRA_KINDS = {"streambz2": ("streamgz", "out.records.bz2"), "streamlz4": ("streamgz", "out.records.lz4"), "streamzst": ("streamgz", "out.records.zst"),
               "jsongz": ("json", "out.json.gz"), "jsonl": ("json", "out.jsonl")}


def D():
    from flow.record import RecordDescriptor

    return RecordDescriptor("w/r", [("varint", "n"), ("string", "s")])


def decompress(path, blob):
    if path.endswith(".gz"):
        return gzip.decompress(blob)
    if path.endswith(".bz2"):
        return bz2.decompress(blob)
    if path.endswith(".lz4"):
        import lz4.frame

        return lz4.frame.decompress(blob)
    if path.endswith((".zst", ".zstd")):
        import zstandard

        return zstandard.ZstdDecompressor().decompressobj().decompress(blob)
    return blob


def indep_read(kind, path):
    """Independent reader of the container: -> list of record ids (field n). Raises if the container is invalid."""
    if kind == "sqlite":
        con = sqlite3.connect(path)
        try:
            tabs = [r[0] for r in con.execute("SELECT name FROM sqlite_master WHERE type='table'")]
            out = []
            for t in tabs:
                out += [r[0] for r in con.execute(f'SELECT n FROM "{t}" ORDER BY rowid')]
            return out
        finally:
            con.close()
    with open(path, "rb") as f:
        blob = f.read()
    if kind in ("stream", "streamgz"):
        data = decompress(path, blob)
        dec = rc.decode_stream(data)
        if not dec or dec[0][0] != "HDR":
            raise ValueError("no stream header")
        return [x[2][0] for x in dec if x[0] == "REC"]
    if kind == "json":
        text = decompress(path, blob).decode()
        out = []
        for line in text.splitlines():
            o = json.loads(line)
            if o.get("_type") == "record":
                out.append(o["n"])
        return out
    if kind == "avro":
        import fastavro

        return [r["n"] for r in fastavro.reader(io.BytesIO(blob))]
    text = blob.decode()
    if kind == "csv":
        rows = list(csv.reader(io.StringIO(text, newline="")))
        if not rows:
            return []
        i = rows[0].index("n")
        return [int(r[i]) for r in rows[1:]]
    if kind == "line":
        return [int(m) for m in re.findall(r"^\s*n = (\d+)$", text, re.M)]
    if kind == "text":
        return [int(m) for m in re.findall(r"\bn=(\d+)", text)]
    raise ValueError(kind)


def lib_read(path):
    from flow.record import RecordReader

    rd = RecordReader(path)
    try:
        return [int(r.n) for r in rd]
    finally:
        rd.close()


def observe_after(kind, url, tmp, nwritten):
    path = os.path.join(tmp, url.split("://")[-1])
    a = {"observed": True, "indep_ok": True, "indep": [], "lib_checked": kind in ("stream", "streamgz", "json", "avro", "sqlite") or (kind == "csv" and nwritten > 0),
         "lib_ok": True, "lib": [], "err": "none"}
    try:
        a["indep"] = indep_read(kind, path)
    except Exception as e:
        a["indep_ok"], a["err"] = False, "indep:" + type(e).__name__ + ":" + str(e)[:60]
    if a["lib_checked"]:
        try:
            a["lib"] = lib_read(("sqlite://" if kind == "sqlite" else "") + path)
        except Exception as e:
            a["lib_ok"], a["err"] = False, "lib:" + type(e).__name__ + ":" + str(e)[:60]
    return a


def run_writer_history(kind, url, ops, tmp, desc):
    from flow.record import RecordWriter

    for f in glob.glob(os.path.join(tmp, "out*")):
        os.remove(f)
    full = url.replace("://", "://" + tmp + "/") if "://" in url else os.path.join(tmp, url)
    w = RecordWriter(full)
    tr = [{"kind": kind, "url": url}]
    n = 0
    closed = False
    for op in ops:
        ev = {"op": op, "raised": False, "exc": "none", "after": {"observed": False}}
        try:
            if op == "write":
                w.write(desc(n + 1, "v%d" % (n + 1), _generated=gen.GEN))
                n += 1
            elif op == "flush":
                w.flush()
            elif op == "close":
                w.close()
                closed = True
            elif op == "exit":
                closed = True
                w.__exit__(None, None, None)
        except Exception as e:
            ev["raised"], ev["exc"] = True, type(e).__name__ + ":" + str(e)[:80]
        if closed:
            ev["after"] = observe_after(kind, url, tmp, n)
        tr.append(ev)
    if not closed:
        try:
            w.close()
        except Exception:
            pass
    return tr


def histories(maxlen):
    """all call sequences over {write, flush, close, exit} with no write after the first closing call"""
    out = []

    def rec(prefix, closed):
        if prefix:
            out.append(list(prefix))
        if len(prefix) == maxlen:
            return
        for op in ("write", "flush", "close", "exit"):
            if op == "write" and closed:
                continue
            rec(prefix + [op], closed or op in ("close", "exit"))

    rec([], False)
    return out


def writers_part(ctx, thorough):
    ctx.design("Writers", "MC_Writers.cfg", "exhaustive: 8 adapter kinds x all call histories <= 6 over write/flush/close/exit", actions=("Write", "Flush", "Close", "Exit"), workers=4)
    if thorough:
        ctx.sensitivity("Writers", "MC_Writers_dev_AvroCloseNoFlush.cfg", "Avro close without flush must violate ClosedMeansDurable", "ClosedMeansDurable", workers=4)
        ctx.sensitivity("Writers", "MC_Writers_dev_CloseNoHeader.cfg", "close without header must violate EmptyIsValid", "EmptyIsValid", workers=4)
        ctx.sensitivity("Writers", "MC_Writers_dev_FlushAfterCloseRaises.cfg", "flush after close raising must violate ClosingNeverRaises", "ClosingNeverRaises", workers=4)
    tmp = common.scratch("c17w")
    desc = D()
    hs = histories(4 if not thorough else 6)
    traces, metas = [], []
    kinds = [(k, k, u) for k, u in KINDS.items()]
    if thorough:
        kinds += [(name, base, u) for name, (base, u) in EXTRA_KINDS.items()]
    else:
        kinds += [(name, base, u) for name, (base, u) in EXTRA_KINDS.items() if name in ("streamzst", "jsonl")]
    for name, base, url in kinds:
        hl = hs if name in KINDS or thorough else [h for h in hs if len(h) <= 3]
        for h in hl:
            traces.append(run_writer_history(base, url, h, tmp, desc))
            metas.append((name, h))
            ctx.case(("writer", name, " ".join(h)))
    ctx.sample({"part": "writers", "kind": metas[5][0], "history": metas[5][1], "trace": traces[5]})
    path = os.path.join(common.scratch("c17"), "wtraces.json")
    tlc.write_json(path, traces)
    r = ctx.tlc("Trace_Writers", "Trace_Writers_contract.cfg", f"writer life-cycle traces, contract mode ({len(traces)} histories)", env={"TRACE_FILE": path})
    bad = set()
    for v in r.violations:
        tid = v["state"].get("tid")
        if tid is None:
            raise MachineryError(f"cannot attribute counter-example: {v}")
        if tid in bad:
            continue
        bad.add(tid)
        name, h = metas[tid - 1]
        l = v["state"]["l"]
        ev = traces[tid - 1][l - 2]
        upto = h[: l - 2]
        ctx.violation({"part": "writers", "check": v["inv"], "kind": name, "history": " ".join(upto),
                       "records_written": upto.count("write"), "flushed_before_close": _flushed_before_close(upto)},
                      {"failing_event": ev, "full_history": h})
    rd = ctx.tlc("Trace_Writers", "Trace_Writers_design.cfg", "writer life-cycle traces, design mode", env={"TRACE_FILE": path})
    drift = {v["state"].get("tid") for v in rd.violations if v["inv"] == "NotStuck"} - bad
    for t in sorted(drift)[:3]:
        print(f"MODEL-DRIFT property={PROP} writers kind={metas[t-1][0]} history={' '.join(metas[t-1][1])!r}")
    if drift:
        ctx.note(f"writers: model drift on {len(drift)} traces")
    ctx.count(len(traces), sum(len(t) - 1 for t in traces))


def _flushed_before_close(h):
    """was the last write followed by a flush before the first closing call?"""
    seen_flush = True
    for op in h:
        if op == "write":
            seen_flush = False
        elif op == "flush":
            seen_flush = True
        elif op == "exit":
            return True
        elif op == "close":
            return seen_flush
    return seen_flush


def run(tier):
    ctx = check.Ctx(PROP, tier)
    thorough = tier == "thorough"
    writers_part(ctx, thorough)
    ctx.extra["rule"] = "bounded-exhaustive call histories per adapter kind; split: all (target, suffix length, limit, N, closing mode); template: all op sequences over 2 paths with ticks and pre-existing files"
    return ctx.finish()
