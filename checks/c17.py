"""C17 -- writers lose nothing: close, split and rotation keep every record once.

Specification: spec/Writers.tla (life-cycle per adapter kind), spec/Split.tla (split arithmetic),
spec/Template.tla (path-template rotation with explicit clock and file system); all three checked
exhaustively by TLC.  Binding: every call history up to a bound is replayed on the real writers
(RecordWriter(url) per kind; split:// over several targets; PathTemplateWriter with a fake clock and
pre-created files); after every closing call the files are read with the library's reader and with an
independent reader of the container format; TLC validates the recorded traces (contract = verdict,
design = drift).  A fourth part covers the one writer without a file, the Splunk forwarder (spec/Splunk.tla):
the real SplunkWriter runs against recording stand-ins for its socket / HTTP client along bounded-exhaustive,
long and TLC-simulated histories (collector errors included); "once closed, every record written is out" is
the verdict, body boundaries and the rendering of names are drift.
"""
import csv, glob, gzip, bz2, io, itertools, json, os, re, sqlite3, datetime as dt

from vf import check, common, gen, refcodec as rc, simulate, tlc
from vf.common import MachineryError

PROP = "C17"

KINDS = {
    "stream": "out.records", "streamgz": "out.records.gz", "json": "out.json", "avro": "out.avro",
    "sqlite": "sqlite://out.db", "csv": "out.csv", "line": "line://out.txt", "text": "text://out.txt",
}
EXTRA_KINDS = {"stream_short3": ("stream", "short:3:out.records"), "stream_short61": ("stream", "short:61:out.records"), "sqlite_b1": ("sqlite", "sqlite://out.db?batch_size=1"), "sqlite_b2": ("sqlite", "sqlite://out.db?batch_size=2"), "sqlite_b3": ("sqlite", "sqlite://out.db?batch_size=3"),
               "streambz2": ("streamgz", "out.records.bz2"), "streamlz4": ("streamgz", "out.records.lz4"), "streamzst": ("streamgz", "out.records.zst"),
               "jsonl": ("json", "out.jsonl")}     # (compressed JSON lines are not supported by the library: every write raises)


def D():
    from flow.record import RecordDescriptor

    return RecordDescriptor("w/r", [("varint", "n"), ("string", "s")])


def decompress(path, blob):
    if path.endswith(".gz"):
        return gzip.decompress(blob)
    if path.endswith(".bz2"):
        return bz2.decompress(blob)
    if path.endswith(".lz4"):
        import lz4.frame

        out = b""
        while blob:          # a flush in the middle ends one frame and starts the next
            dec = lz4.frame.LZ4FrameDecompressor()
            out += dec.decompress(blob)
            if not dec.eof:
                raise ValueError("truncated lz4 frame")
            blob = dec.unused_data
        return out
    if path.endswith((".zst", ".zstd")):
        import zstandard

        return zstandard.ZstdDecompressor().stream_reader(io.BytesIO(blob), read_across_frames=True).read()
    return blob


def indep_read(kind, path):
    """Independent reader of the container: -> list of record ids (field n). Raises if the container is invalid."""
    if kind == "sqlite":
        con = sqlite3.connect(path)
        try:
            tabs = [r[0] for r in con.execute("SELECT name FROM sqlite_master WHERE type='table'")]
            out = []
            for t in tabs:
                out += [r[0] for r in con.execute(f'SELECT n FROM "{t}" ORDER BY rowid')]
            return out
        finally:
            con.close()
    with open(path, "rb") as f:
        blob = f.read()
    if kind in ("stream", "streamgz"):
        data = decompress(path, blob)
        dec = rc.decode_stream(data)
        if not dec or dec[0][0] != "HDR":
            raise ValueError("no stream header")
        return [x[2][0] for x in dec if x[0] == "REC"]
    if kind == "json":
        text = decompress(path, blob).decode()
        out = []
        for line in text.splitlines():
            o = json.loads(line)
            if o.get("_type") == "record":
                out.append(o["n"])
        return out
    if kind == "avro":
        import fastavro

        return [r["n"] for r in fastavro.reader(io.BytesIO(blob))]
    text = blob.decode()
    if kind == "csv":
        rows = list(csv.reader(io.StringIO(text, newline="")))
        if not rows:
            return []
        i = rows[0].index("n")
        return [int(r[i]) for r in rows[1:]]
    if kind == "line":
        return [int(m) for m in re.findall(r"^\s*n = (\d+)$", text, re.M)]
    if kind == "text":
        return [int(m) for m in re.findall(r"\bn=(\d+)", text)]
    raise ValueError(kind)


def lib_read(path):
    from flow.record import RecordReader

    rd = RecordReader(path)
    try:
        return [int(r.n) for r in rd]
    finally:
        rd.close()


def observe_after(kind, url, tmp, nwritten):
    path = os.path.join(tmp, url.split("://")[-1].split("?")[0])
    a = {"observed": True, "indep_ok": True, "indep": [], "lib_checked": kind in ("stream", "streamgz", "json", "avro", "sqlite") or (kind == "csv" and nwritten > 0),
         "lib_ok": True, "lib": [], "err": "none"}
    try:
        a["indep"] = indep_read(kind, path)
    except Exception as e:
        a["indep_ok"], a["err"] = False, "indep:" + type(e).__name__ + ":" + str(e)[:60]
    if a["lib_checked"]:
        try:
            a["lib"] = lib_read((url.split("://")[0] + "://" if "://" in url else "") + path)
        except Exception as e:
            a["lib_ok"], a["err"] = False, "lib:" + type(e).__name__ + ":" + str(e)[:60]
    return a


# text the adapter kind cannot represent: write() raises and the record is not accepted
BAD_TEXT = {"stream": "x\ud800", "streamgz": "x\ud800", "avro": "x\udcff", "sqlite": "x\ud800", "csv": "x\ud800"}


class ShortFile(io.RawIOBase):
    """a raw, unbuffered binary file that accepts at most k bytes per call and says so"""

    def __init__(self, path, k):
        super().__init__()
        self._f, self._k = open(path, "wb", buffering=0), k

    def writable(self):
        return True

    def write(self, b):
        return self._f.write(bytes(b)[: self._k])

    def flush(self):
        if not self._f.closed:
            self._f.flush()

    def close(self):
        if not self._f.closed:
            self._f.close()
        super().close()


def run_writer_history(kind, url, ops, tmp, desc):
    from flow.record import RecordWriter

    for f in glob.glob(os.path.join(tmp, "out*")):
        os.remove(f)
    full = url.replace("://", "://" + tmp + "/") if "://" in url else os.path.join(tmp, url)
    if url.startswith("short:"):
        # the stream writer on a RAW file object that takes at most k bytes per write() (a pipe, a socket, a full disk that
        # frees up): `short:<k>:<file name>`
        from flow.record.adapter.stream import StreamWriter

        _, k, name = url.split(":", 2)
        url = name
        w = StreamWriter(ShortFile(os.path.join(tmp, name), int(k)))
    else:
        w = RecordWriter(full)
    tr = [{"kind": kind, "url": url}]
    n = 0
    closed = False
    for op in ops:
        ev = {"op": op, "raised": False, "exc": "none", "after": {"observed": False}}
        try:
            if op == "write":
                w.write(desc(n + 1, "v%d" % (n + 1), _generated=gen.GEN))
                n += 1
            elif op == "badwrite":
                ev["op"] = "write"          # a write like any other: accepted (then it counts) or refused with an exception
                w.write(desc(n + 1, BAD_TEXT[kind], _generated=gen.GEN))
                n += 1
            elif op == "badtypewrite":
                # a record the adapter refuses for its TYPE (a field type without a mapping): refused before anything is produced
                ev["op"] = "write"
                from flow.record import RecordDescriptor as _RD

                w.write(_RD("w/unmapped", [("varint", "n"), ("path", "p"), ("string[]", "l")])(n + 1, "/x", ["a"], _generated=gen.GEN))
                n += 1
            elif op == "flush":
                w.flush()
            elif op == "close":
                w.close()
                closed = True
            elif op == "exit":
                closed = True
                w.__exit__(None, None, None)
            elif op == "exitexc":
                # the with-block is left through an exception of the application's: the writer is closed all the same
                ev["op"] = "exit"
                closed = True
                try:
                    raise ValueError("the application's own error")
                except ValueError as err:
                    w.__exit__(type(err), err, err.__traceback__)
        except Exception as e:
            ev["raised"], ev["exc"] = True, type(e).__name__ + ":" + str(e)[:80]
        if closed:
            ev["after"] = observe_after(kind, url, tmp, n)
        tr.append(ev)
    if not closed:
        try:
            w.close()
        except Exception:
            pass
    return tr


def run_two_writers(kind, url, tmp, desc, n_each, close_order):
    """TWO writers of one kind open at the same time on different files, written to alternately, then closed in the given
    order -> two traces (one per writer) in the shape of run_writer_history"""
    from flow.record import RecordWriter

    for f in glob.glob(os.path.join(tmp, "out*")) + glob.glob(os.path.join(tmp, "two*")):
        os.remove(f)
    urls = [url.replace("out", "two%d_out" % i) for i in (1, 2)]
    fulls = [u.replace("://", "://" + tmp + "/") if "://" in u else os.path.join(tmp, u) for u in urls]
    ws = [RecordWriter(f) for f in fulls]
    trs = [[{"kind": kind, "url": u}] for u in urls]
    counts = [0, 0]
    for k in range(n_each):
        for i in (0, 1):
            ev = {"op": "write", "raised": False, "exc": "none", "after": {"observed": False}}
            try:
                ws[i].write(desc(counts[i] + 1, "w%d" % (i + 1), _generated=gen.GEN))
                counts[i] += 1
            except Exception as e:
                ev["raised"], ev["exc"] = True, type(e).__name__ + ":" + str(e)[:80]
            trs[i].append(ev)
    for i in close_order:
        ev = {"op": "close", "raised": False, "exc": "none", "after": {"observed": False}}
        try:
            ws[i].close()
        except Exception as e:
            ev["raised"], ev["exc"] = True, type(e).__name__ + ":" + str(e)[:80]
        trs[i].append(ev)
    for i in (0, 1):                       # observed when BOTH are closed: neither may have taken anything of the other's
        trs[i][-1]["after"] = observe_after(kind, urls[i], tmp, counts[i])
    return trs


FD1_CHILD = r'''
import json, os, sys
os.close(1)                                   # a daemon that has closed its standard output: the next file opened gets descriptor 1
sys.path.insert(0, sys.argv[1]); sys.path.insert(0, sys.argv[2])
from vf import common
common.use_repo()
import checks.c17 as c
tmp, result = sys.argv[3], sys.argv[4]
out = []
for kind, url in (("stream", "out.records"), ("streamgz", "out.records.gz"), ("json", "out.json")):
    for h in (["write", "write", "close"], ["write", "flush", "write", "exit"]):
        out.append(c.run_writer_history(kind, url, h, tmp, c.D()))
json.dump(out, open(result, "w"))
'''


def fd1_traces(tmp):
    import subprocess

    res = os.path.join(tmp, "fd1_result.json")
    pr = subprocess.run(["/venv/bin/python", "-c", FD1_CHILD, common.VERIF, os.path.realpath(common.REPO), tmp, res], stdout=subprocess.DEVNULL, stderr=subprocess.PIPE, text=True, timeout=300,
                        env=dict(os.environ, VERIF_REPO=os.path.realpath(common.REPO), PYTHONPATH=common.VERIF))
    if pr.returncode != 0 or not os.path.exists(res):
        raise MachineryError(f"fd-1 child failed: rc={pr.returncode} {pr.stderr[-300:]}")
    out = json.load(open(res))
    os.remove(res)
    return out


def histories(maxlen):
    """all call sequences over {write, flush, close, exit} with no write after the first closing call"""
    out = []

    def rec(prefix, closed):
        if prefix:
            out.append(list(prefix))
        if len(prefix) == maxlen:
            return
        for op in ("write", "flush", "close", "exit"):
            if op == "write" and closed:
                continue
            rec(prefix + [op], closed or op in ("close", "exit"))

    rec([], False)
    return out


def with_badwrites(hs, maxlen):
    """histories with one refused write inserted at every position in front of the first closing call"""
    out = []
    for h in hs:
        if len(h) > maxlen or "write" not in h:
            continue
        first_close = min([i for i, op in enumerate(h) if op in ("close", "exit")] + [len(h)])
        for i in range(first_close + 1):
            out.append(h[:i] + ["badwrite"] + h[i:])
    return out


def writers_part(ctx, thorough):
    ctx.design("Writers", "MC_Writers.cfg", "exhaustive: 8 adapter kinds x all call histories <= 6 over write/flush/close/exit", actions=("Write", "FailedWrite", "Flush", "Close", "Exit"), workers=4)
    if thorough:
        ctx.sensitivity("Writers", "MC_Writers_dev_AvroCloseNoFlush.cfg", "Avro close without flush must violate ClosedMeansDurable", "ClosedMeansDurable", workers=4)
        ctx.sensitivity("Writers", "MC_Writers_dev_CloseNoHeader.cfg", "close without header must violate EmptyIsValid", "EmptyIsValid", workers=4)
        ctx.sensitivity("Writers", "MC_Writers_dev_FlushAfterCloseRaises.cfg", "flush after close raising must violate ClosingNeverRaises", "ClosingNeverRaises", workers=4)
        ctx.sensitivity("Writers", "MC_Writers_dev_FailedWritePoisons.cfg", "a refused record that stays in the adapter's buffer must violate ClosedMeansDurable", "ClosedMeansDurable", workers=4)
    tmp = common.scratch("c17w")
    desc = D()
    hs = histories(4 if not thorough else 6)
    traces, metas = [], []
    kinds = [(k, k, u) for k, u in KINDS.items()]
    if thorough:
        kinds += [(name, base, u) for name, (base, u) in EXTRA_KINDS.items()]
    else:
        kinds += [(name, base, u) for name, (base, u) in EXTRA_KINDS.items() if name in ("streamzst", "jsonl", "sqlite_b1", "sqlite_b2", "sqlite_b3", "stream_short3", "stream_short61")]
    for name, base, url in kinds:
        hl = hs if name in KINDS or thorough or name.startswith("sqlite_b") else [h for h in hs if len(h) <= 3]
        if name.startswith("sqlite_b") and not thorough:
            hl = histories(5)
        if base in BAD_TEXT:
            hl = hl + with_badwrites(hs, 3 if not thorough else 4)
        if base == "avro":
            hl = hl + [["badtypewrite" if op == "badwrite" else op for op in h] for h in with_badwrites(hs, 3 if not thorough else 4)] + [["badtypewrite", "close"], ["badtypewrite", "exit"], ["badtypewrite", "flush", "close"]]
        # ... and every history that leaves a with-block, left through an exception instead
        hl = hl + [["exitexc" if (op == "exit" and i == h.index("exit")) else op for i, op in enumerate(h)] for h in hl if "exit" in h and len(h) <= (4 if not thorough else 5)]
        for h in hl:
            traces.append(run_writer_history(base, url, h, tmp, desc))
            metas.append((name, h))
            ctx.case(("writer", name, " ".join(h)))
    # two writers of one kind open at the same time (one output per record type, per host, per hour ...)
    for name, base, url in [(k, k, u) for k, u in KINDS.items() if k not in ("sqlite",)] + [("streamzst", "streamgz", "out.records.zst"), ("jsonl", "json", "out.jsonl")]:
        for n_each, close_order in ((3, (0, 1)), (2, (1, 0)), (600, (0, 1))):
            if n_each > 100 and not (thorough or name in ("json", "streamzst")):
                continue
            for tr in run_two_writers(base, url, tmp, desc, n_each, close_order):
                traces.append(tr)
                metas.append((name + "(two open)", ["write"] * n_each + ["close"]))
                ctx.case(("two-writers", name, n_each, close_order))
    # a process whose standard output is CLOSED: the writer's file gets descriptor 1
    for tr in fd1_traces(tmp):
        traces.append(tr)
        metas.append((tr[0]["kind"] + "(fd 1)", [e["op"] for e in tr[1:]]))
        ctx.case(("fd1", tr[0]["kind"], " ".join(e["op"] for e in tr[1:])))
    # spec -> code: behaviours generated by TLC from Writers.tla (up to 12 calls, refused writes included) replayed on the real writers
    amap = {"Write": "write", "FailedWrite": "badwrite", "Flush": "flush", "Close": "close", "Exit": "exit"}
    nsim = 0
    for beh in simulate.behaviours("Writers", "Sim_Writers.cfg", 250 if not thorough else 2500, 12, ctx.seed + 17):
        kind = beh[0][2]["kind"]
        ops = [amap[a] for a, args, st in beh[1:] if a in amap]
        if not ops:
            continue
        traces.append(run_writer_history(kind, KINDS[kind], ops, tmp, desc))
        metas.append((kind, ops))
        ctx.case(("writer-sim", kind, " ".join(ops)))
        nsim += 1
    ctx.extra["writer_behaviours_simulated_by_tlc"] = nsim
    ctx.sample({"part": "writers", "kind": metas[5][0], "history": metas[5][1], "trace": traces[5]})
    path = os.path.join(common.scratch("c17"), "wtraces.json")
    tlc.write_json(path, traces)
    r = ctx.tlc("Trace_Writers", "Trace_Writers_contract.cfg", f"writer life-cycle traces, contract mode ({len(traces)} histories)", env={"TRACE_FILE": path})
    bad = set()
    for v in r.violations:
        tid = v["state"].get("tid")
        if tid is None:
            raise MachineryError(f"cannot attribute counter-example: {v}")
        if tid in bad:
            continue
        bad.add(tid)
        name, h = metas[tid - 1]
        l = v["state"]["l"]
        ev = traces[tid - 1][l - 2]
        upto = h[: l - 2]
        ctx.violation({"part": "writers", "check": v["inv"], "kind": name, "history": " ".join(upto),
                       "records_written": upto.count("write"), "flushed_before_close": _flushed_before_close(upto)},
                      {"failing_event": ev, "full_history": h})
    rd = ctx.tlc("Trace_Writers", "Trace_Writers_design.cfg", "writer life-cycle traces, design mode", env={"TRACE_FILE": path})
    drift = {v["state"].get("tid") for v in rd.violations if v["inv"] == "NotStuck"} - bad
    for t in sorted(drift)[:3]:
        print(f"MODEL-DRIFT property={PROP} writers kind={metas[t-1][0]} history={' '.join(metas[t-1][1])!r}")
    if drift:
        ctx.note(f"writers: model drift on {len(drift)} traces")
    ctx.count(len(traces), sum(len(t) - 1 for t in traces))


def _flushed_before_close(h):
    """was the last write followed by a flush before the first closing call?"""
    seen_flush = True
    for op in h:
        if op == "write":
            seen_flush = False
        elif op == "flush":
            seen_flush = True
        elif op in ("exit", "exitexc"):
            return True
        elif op == "close":
            return seen_flush
    return seen_flush


# ---------------------------------------------------------------- split
SPLIT_TARGETS = {"out.records": "stream", "out.records.gz": "streamgz", "out.json": "json", "out": "stream", "out.avro": "avro"}


def suffix_of(fname, target):
    """numeric suffix the split writer inserted into the target's file name"""
    stem, ext = os.path.splitext(target)
    m = re.match(re.escape(stem) + r"\.(\d+)" + re.escape(ext) + r"$", fname)
    return m.group(1) if m else None


def run_split_case(target, kind, sl, limit, N, mode, tmp, desc, urlform="abs"):
    """urlform: how the target is spelled -- "abs" split://<absolute path>, "rel" split://<file name> (relative to the
    working directory), "sub-abs" / "sub-rel" the same with the sub-adapter named in the scheme (split+jsonfile://...)"""
    from flow.record import RecordReader, RecordWriter

    for f in glob.glob(os.path.join(tmp, "*")):
        os.remove(f)
    c = {"target": target, "limit": limit, "sl": sl, "n": N, "mode": mode, "raised": False, "exc": "none", "parts": [], "suffix": [], "all_readable": True,
         "rawcat_checked": False, "rawcat": [], "indep": [], "zero_byte_parts": []}
    sub = {"stream": "stream", "streamgz": "stream", "json": "jsonfile", "avro": "avro"}[kind]
    scheme = "split://" if urlform in ("abs", "rel") else f"split+{sub}://"
    where = os.path.join(tmp, target) if urlform.endswith("abs") else target
    cwd = os.getcwd()
    try:
        if urlform.endswith("rel"):
            os.chdir(tmp)
        w = RecordWriter(f"{scheme}{where}?count={limit}&suffix-length={sl}")
        for i in range(1, N + 1):
            w.write(desc(i, "v", _generated=gen.GEN))
        if mode == "exit":
            w.__exit__(None, None, None)
        elif mode == "close":
            w.close()
        elif mode == "flushclose":
            w.flush()
            w.close()
        elif mode == "closeclose":
            w.close()
            w.close()
    except Exception as e:
        c["raised"], c["exc"] = True, type(e).__name__ + ":" + str(e)[:80]
    finally:
        os.chdir(cwd)
    c["urlform"] = urlform
    names = []
    for f in os.listdir(tmp):
        sfx = suffix_of(f, target)
        names.append((int(sfx) if sfx is not None else 10**6, f, sfx))
    names.sort()
    indep_ok = True
    for idx, (_, f, sfx) in enumerate(names):
        path = os.path.join(tmp, f)
        c["suffix"].append(len(sfx) if sfx is not None else 0)
        try:
            with open(path, "rb") as fh:
                if decompress(path, fh.read()) == b"" and kind in ("stream", "streamgz"):
                    c["zero_byte_parts"].append(idx)  # no stream header at all
        except Exception:
            pass
        try:
            c["parts"].append(lib_read(path))
        except Exception as e:
            c["all_readable"] = False
            c["parts"].append([])
            c["exc"] = "part:" + type(e).__name__ + ":" + str(e)[:60]
        try:
            c["indep"] += indep_read(kind, path)
        except Exception:
            indep_ok = False
    if not indep_ok:
        c["indep"] = [-1]
    if kind in ("stream", "streamgz", "json") and c["all_readable"]:
        # raw-byte concatenation of the parts, read as ONE file by the library's reader
        cat = os.path.join(tmp, "cat_" + target + ("" if "." in target else ".records"))
        with open(cat, "wb") as out:
            for _, f, _ in names:
                with open(os.path.join(tmp, f), "rb") as src:
                    out.write(src.read())
        c["rawcat_checked"] = True
        try:
            c["rawcat"] = lib_read(cat)
        except Exception as e:
            c["rawcat"] = [-1]
            c["exc"] = "rawcat:" + type(e).__name__
    return c


def split_part(ctx, thorough):
    ctx.design("Split", "MC_Split.cfg", "exhaustive: N <= 9 records x limit 1..4", actions=("Write", "Close"), workers=4)
    if thorough:
        ctx.sensitivity("Split", "MC_Split_dev_Gt.cfg", "'>' instead of '>=' must violate PartBound", "PartBound", workers=4)
    tmp = common.scratch("c17s")
    desc = D()
    cases = []
    limits = (1, 2, 3, 4, 7)
    Ns = range(0, 12) if not thorough else range(0, 30)
    modes = ("exit", "close", "flushclose") if not thorough else ("exit", "close", "flushclose", "closeclose")
    for target, kind in SPLIT_TARGETS.items():
        for sl in ((1, 2, 3) if thorough or target == "out.records" else (2,)):
            for limit in limits:
                for N in Ns:
                    for mode in modes:
                        if not thorough and target not in ("out.records",) and (N + limit) % 2:
                            continue
                        cases.append(run_split_case(target, kind, sl, limit, N, mode, tmp, desc))
                        ctx.case(("split", target, sl, limit, N, mode))
                        if mode == "exit" and sl == 2 and limit in (2, 3) and (thorough or N in (0, 3, 7)):
                            for urlform in ("rel", "sub-abs", "sub-rel"):
                                if target == "out" and urlform.startswith("sub"):
                                    continue
                                cases.append(run_split_case(target, kind, sl, limit, N, mode, tmp, desc, urlform))
                                ctx.case(("split", target, sl, limit, N, mode, urlform))
    if thorough:
        for N, limit in ((200, 50), (201, 50), (199, 50), (1000, 999), (1000, 1000), (1001, 1000)):
            cases.append(run_split_case("out.records", "stream", 2, limit, N, "exit", tmp, desc))
            ctx.case(("split", "out.records", 2, limit, N, "exit"))
    ctx.sample({"part": "split", "case": cases[len(cases) // 2]})
    path = os.path.join(common.scratch("c17"), "scases.json")
    tlc.write_json(path, cases)
    r = ctx.tlc("Trace_Split", "Trace_Split.cfg", f"split cases ({len(cases)})", env={"TRACE_FILE": path})
    seen, drift = set(), 0
    for v in r.violations:
        cid = v["state"].get("cid")
        if cid is None:
            raise MachineryError(f"cannot attribute counter-example: {v}")
        c = cases[cid - 1]
        if v["inv"] == "Contract":
            if cid in seen:
                continue
            seen.add(cid)
            nparts = len(c["parts"])
            others_ok = [x for p in c["parts"] for x in p] == list(range(1, c["n"] + 1)) and all(len(p) <= c["limit"] for p in c["parts"])
            reason = "other"
            if c["zero_byte_parts"] == [nparts - 1] and others_ok and not c["raised"] and c["parts"][-1] == []:
                reason = "last_part_zero_bytes"
            ctx.violation({"part": "split", "check": "Contract", "mode": c["mode"], "kind": SPLIT_TARGETS[c["target"]], "reason": reason,
                           "n_mod_limit_is_zero": c["n"] % c["limit"] == 0, **({} if reason == "last_part_zero_bytes" else {"limit": c["limit"], "n": c["n"], "sl": c["sl"], "target": c["target"], "urlform": c.get("urlform", "abs")})}, {"case": c})
        else:
            drift += 1
    if drift:
        ctx.note(f"split: model drift on {drift} cases (parts differ from the greedy design; contract evaluated separately)")
        print(f"MODEL-DRIFT property={PROP} split: {drift} cases")
    ctx.count(len(cases), len(cases))


# ---------------------------------------------------------------- template / rotation
class FakeClock:
    """Stands in for the `datetime` module inside flow.record.stream (attribute assignment in this process only)."""

    def __init__(self):
        self.t = 0
        real = dt
        outer = self

        class _DT(real.datetime):
            @classmethod
            def now(cls, tz=None):
                return real.datetime(2030, 1, 1, 0, 0, 0, tzinfo=tz) + real.timedelta(seconds=outer.t)

        self.datetime = _DT
        self.timezone = real.timezone
        self.timedelta = real.timedelta


def list_files(tmp, inos=None):
    inos = inos or {}
    out = []
    allf = []
    for root, dirs, files in os.walk(tmp):
        for f in files:
            allf.append(os.path.join(root, f))
    for full in sorted(allf):
        f = os.path.basename(full)
        m = re.match(r"^([pq])\.(.*)records$", f)
        if not m:
            out.append({"b": "?", "rot": True, "ids": [-1], "ino": 0})
            continue
        with open(full, "rb") as fh:
            data = fh.read()
        try:
            ids = [x[2][1] for x in rc.decode_stream(data) if x[0] == "REC"]
        except Exception:
            ids = [-1]
        out.append({"b": m.group(1), "rot": f != m.group(1) + ".records", "ids": ids, "ino": inos.get(os.stat(full).st_ino, 0)})
    return out


def run_template_history(pre, ops, tmp, T, entry="template"):
    import shutil
    import flow.record.stream as S
    from flow.record import RecordWriter

    for f in os.listdir(tmp):
        full = os.path.join(tmp, f)
        shutil.rmtree(full) if os.path.isdir(full) else os.remove(full)
    # the archiver variants put their files below <dir>/YYYY/mm/dd (the day of record._generated)
    sub = tmp if entry == "template" else os.path.join(tmp, "2020", "01", "02")
    os.makedirs(sub, exist_ok=True)
    inos = {}
    for p in pre:                                        # "p0": the file exists but is empty (created, nothing written yet)
        full = os.path.join(sub, p[0] + ".records")
        if p.endswith("0"):
            open(full, "wb").close()
        else:
            with RecordWriter(full) as w:
                w.write(T(p, 101 if p == "p" else 102, _generated=gen.GEN))
        inos[os.stat(full).st_ino] = 101 if p[0] == "p" else 102
    clock = FakeClock()
    saved = S.datetime
    S.datetime = clock
    list_files_ = list_files
    tr = [{"pre": sorted(p[0] for p in pre), "preE": sorted(p[0] for p in pre if p.endswith("0")), "files": list_files_(tmp, inos)}]
    try:
        if entry == "template":
            w = S.PathTemplateWriter(path_template=os.path.join(tmp, "{record.k}.records"))
        elif entry == "archiver":
            w = S.RecordArchiver(tmp, path_template="{record.k}.records")
        else:
            w = RecordWriter("archive://" + tmp, path_template="{record.k}.records")
        n = 0
        for op in ops:
            ev = {"op": op[0], "raised": False, "exc": "none"}
            try:
                if op[0] == "write":
                    n += 1
                    ev["p"] = op[1]
                    w.write(T(op[1], n, _generated=gen.GEN))
                elif op[0] == "tick":
                    clock.t += 1
                else:
                    w.close()
            except Exception as e:
                ev["raised"], ev["exc"] = True, type(e).__name__ + ":" + str(e)[:80]
            ev["files"] = list_files_(tmp, inos)
            tr.append(ev)
        try:
            w.close()
        except Exception:
            pass
    finally:
        S.datetime = saved
    return tr


def template_histories(maxlen):
    out = []

    def rec(prefix, ticks):
        if prefix:
            out.append(list(prefix) + [("close",)])
        if len(prefix) == maxlen:
            return
        for op in (("write", "p"), ("write", "q"), ("tick",)):
            if op[0] == "tick" and (ticks >= 2 or not prefix or prefix[-1][0] == "tick"):
                continue
            rec(prefix + [op], ticks + (op[0] == "tick"))

    rec([], 0)
    return out


def template_part(ctx, thorough):
    from flow.record import RecordDescriptor

    ctx.design("Template", "MC_Template.cfg", "exhaustive: 2 paths, <=5 writes, clock 0..2, pre-existing files subset of paths", actions=("Write", "Tick", "Close"), workers=8)
    if thorough:
        ctx.sensitivity("Template", "MC_Template_dev_Collision.cfg", "rotation name = f(path, clock) must violate NoLoss", "NoLoss", workers=4)
    ctx.sensitivity("Template", "MC_Template_dev_SkipEmpty.cfg", "not renaming an existing empty file must violate NeverOverwrites", "NeverOverwrites", workers=4)
    T = RecordDescriptor("tpl/r", [("string", "k"), ("varint", "n")])
    tmp = common.scratch("c17t")
    hs = template_histories(5 if not thorough else 7)
    traces, metas = [], []
    for pre in ([], ["p"], ["q"], ["p", "q"], ["p0"], ["p0", "q"], ["p0", "q0"]):
        for h in hs:
            if not thorough and len(h) > 5 and (len(pre) + len(h)) % 2:
                continue
            traces.append(run_template_history(pre, h, tmp, T))
            metas.append((pre, h))
            ctx.case(("template", tuple(pre), tuple(h)))
    # the same histories through RecordArchiver and through the archive:// adapter (shorter in quick)
    for entry in ("archiver", "archive-adapter"):
        for pre in ([], ["p"], ["p", "q"], ["p0", "q"]):
            for h in hs:
                if len(h) > (5 if thorough else 4):
                    continue
                traces.append(run_template_history(pre, h, tmp, T, entry=entry))
                metas.append((pre, h))
                ctx.case((entry, tuple(pre), tuple(h)))
    ctx.sample({"part": "template", "pre": metas[7][0], "history": metas[7][1], "trace": traces[7]})
    path = os.path.join(common.scratch("c17"), "ttraces.json")
    tlc.write_json(path, traces)
    r = ctx.tlc("Trace_Template", "Trace_Template_contract.cfg", f"rotation traces, contract mode ({len(traces)} histories)", env={"TRACE_FILE": path})
    bad = set()
    for v in r.violations:
        tid = v["state"].get("tid")
        if tid is None:
            raise MachineryError(f"cannot attribute counter-example: {v}")
        if tid in bad:
            continue
        bad.add(tid)
        pre, h = metas[tid - 1]
        l = v["state"]["l"]
        upto = h[: l - 2]
        # how many times was the same path rotated within one clock value in the prefix?
        ctx.violation({"part": "template", "check": v["inv"], "same_second_double_rotation": _double_rotation(pre, upto)},
                      {"pre": pre, "history": [" ".join(o) for o in upto], "files": traces[tid - 1][l - 2].get("files")})
    rd = ctx.tlc("Trace_Template", "Trace_Template_design.cfg", "rotation traces, design mode", env={"TRACE_FILE": path})
    drift = {v["state"].get("tid") for v in rd.violations if v["inv"] == "NotStuck"} - bad
    for t in sorted(drift)[:3]:
        print(f"MODEL-DRIFT property={PROP} template pre={metas[t-1][0]} history={metas[t-1][1]!r}")
    if drift:
        ctx.note(f"template: model drift on {len(drift)} traces")
    ctx.count(len(traces), sum(len(t) - 1 for t in traces))


# ---------------------------------------------------------------- splunk (a writer whose file is a transport)
class _Peer:
    """what the far end of the transport has received: a list of transmissions (bytes)"""

    def __init__(self):
        self.transmissions, self.fail_next, self.failed = [], False, False


def _splunk_standins(sp, peer):
    import types

    class Sock:
        def __init__(self, *a, **k):
            pass

        def connect(self, addr):
            pass

        def sendall(self, data):
            peer.transmissions.append(bytes(data))

        def close(self):
            pass

    class Resp:
        def __init__(self, code):
            self.status_code, self.text = code, "collector says no"

    class Client:
        def __init__(self, verify=True, headers=None):
            pass

        def post(self, url, data=None):
            if peer.fail_next:
                peer.fail_next, peer.failed = False, True
                return Resp(503)
            peer.transmissions.append(bytes(data))
            return Resp(200)

        def close(self):
            pass

    sp.socket = types.SimpleNamespace(socket=Sock, AF_INET=2, SOCK_STREAM=1, SOL_TCP=6)
    sp.httpx = types.SimpleNamespace(Client=Client)
    sp.HAS_HTTPX = True


def _ids_of(body, sourcetype, http):
    text = body.decode("utf-8", "surrogateescape")
    if sourcetype != "json":
        return [int(m) for m in re.findall(r'(?:^| )n="(\d+)"', text, re.M)]
    out, dec, i = [], json.JSONDecoder(), 0
    while i < len(text):
        if text[i].isspace():
            i += 1
            continue
        o, i = dec.raw_decode(text, i)
        out.append((o["event"] if http else o)["n"])
    return out


def run_splunk_history(proto, sourcetype, ops, desc, entry):
    """ops: (op, fail) -- fail: the collector answers the POST this call makes (if it makes one) with an error"""
    import logging
    import flow.record.adapter.splunk as sp
    from flow.record import RecordWriter

    logging.getLogger("flow.record").setLevel(logging.ERROR)
    peer = _Peer()
    saved = (sp.socket, getattr(sp, "httpx", None), sp.HAS_HTTPX)
    _splunk_standins(sp, peer)
    tr = [{"proto": "tcp" if proto == "tcp" else "http", "scheme": proto, "sourcetype": sourcetype, "entry": entry}]
    try:
        if entry == "url":
            w = RecordWriter(f"splunk+{proto}://collector.example:8088?sourcetype={sourcetype}" + ("&token=abc" if proto != "tcp" else ""))
        else:
            w = sp.SplunkWriter(f"{proto}://collector.example:8088", sourcetype=sourcetype, token="abc" if proto != "tcp" else None)
        n = 0
        for op, fail in ops:
            ev = {"op": op, "raised": False, "exc": "none"}
            peer.fail_next, peer.failed = bool(fail), False
            try:
                if op == "write":
                    n += 1
                    w.write(desc(n, "v%d" % n, _generated=gen.GEN))
                elif op == "flush":
                    w.flush()
                elif op == "close":
                    w.close()
                else:
                    w.__exit__(None, None, None)
            except Exception as e:
                ev["raised"], ev["exc"] = True, type(e).__name__ + ":" + str(e)[:60]
            ev["failed"] = peer.failed
            peer.fail_next = False
            try:
                ev["sent"] = [_ids_of(b, sourcetype, proto != "tcp") for b in peer.transmissions]
            except Exception as e:
                ev["sent"], ev["exc"] = [[-1]], "unparsable transmission: " + type(e).__name__
            tr.append(ev)
        try:
            w.close()
        except Exception:
            pass
    finally:
        sp.socket, sp.HAS_HTTPX = saved[0], saved[2]
        if saved[1] is not None:
            sp.httpx = saved[1]
    return tr


def _decompose(name):
    p = 0
    while name.startswith("rd_"):
        p, name = p + 1, name[3:]
    u = 1 if name.startswith("_") else 0
    return [p, u, name[1:] if u else name]


def _parse_kv(line):
    """independent tokenizer of `name=None` / `name="...\" \\ ..."` pairs separated by single blanks"""
    out, i = [], 0
    while i < len(line):
        j = line.index("=", i)
        name = line[i:j]
        i = j + 1
        if line.startswith("None", i) and (i + 4 == len(line) or line[i + 4] == " "):
            out.append((name, None))
            i += 4
        else:
            if line[i] != '"':
                raise ValueError("unquoted value")
            i += 1
            buf = []
            while line[i] != '"':
                if line[i] == "\\":
                    i += 1
                buf.append(line[i])
                i += 1
            i += 1
            out.append((name, "".join(buf)))
        if i < len(line):
            if line[i] != " ":
                raise ValueError("no blank between pairs")
            i += 1
    return out


def splunk_render_cases(ctx, thorough):
    import base64
    import flow.record.adapter.splunk as sp
    from flow.record import RecordDescriptor
    from flow.record.jsonpacker import JsonRecordPacker

    pool = ["host", "hostname", "source", "sourcetype", "tag", "type", "rdtag", "rdtype", "x", "ts", "rd_host", "rd_x", "rd_rd_x", "rd_rdtag", "index", "timestamp"]
    texts = ["plain", 'say "hi"', "back\\slash", 'end\\', 'q"=" x=None', "None", "", " lead and trail ", "café 中", "a=b c=\"d\"", "two\nlines", "tab\there"]
    cases = []
    # escape_field_name on its own, name by name
    names = pool + ["_source", "_generated", "_version", "rd__source", "n"]
    cases.append({"kind": "escape", "fields": [_decompose(x) for x in names if x != "_version"], "found": [_decompose(sp.escape_field_name(x)) for x in names if x != "_version"],
                  "raised": False, "values_ok": True, "own_ok": True, "exc": "none"})
    for k in range(60 if not thorough else 600):
        fl = ctx.rnd.sample(pool, ctx.rnd.randint(1, 5))
        types_ = [("datetime" if f == "ts" and ctx.rnd.random() < 0.7 else ctx.rnd.choice(["string", "string", "bytes", "varint"])) for f in fl]
        Dd = RecordDescriptor("spl/t%d" % (k % 5), [("varint", "n")] + list(zip(types_, fl)))
        vals = []
        for t in types_:
            vals.append(None if ctx.rnd.random() < 0.2 else ctx.rnd.choice(texts) if t == "string" else bytes(ctx.rnd.getrandbits(8) for _ in range(ctx.rnd.randint(0, 5))) if t == "bytes"
                        else ctx.rnd.choice([0, -1, 2**70]) if t == "varint" else dt.datetime(2020, 1, 2, 3, 4, 5, 6, tzinfo=dt.timezone.utc))
        rec = Dd(k, *vals, _generated=gen.GEN, _source=ctx.rnd.choice([None, "src"]))
        tag = ctx.rnd.choice([None, "T", "a tag"])     # (the tag is emitted verbatim, quotes and all: not part of the model)
        allf = list(rec._desc.get_all_fields())
        for kind in ("kv", "json", "httpjson"):
            c = {"kind": kind, "fields": [_decompose(x) for x in allf], "found": [], "raised": False, "values_ok": True, "own_ok": True, "exc": "none", "tag": tag}
            try:
                if kind == "kv":
                    line = sp.record_to_splunk_kv_line(rec, tag)
                    pairs = _parse_kv(line)
                    c["found"] = [_decompose(nm) for nm, _ in pairs]
                    c["own_ok"] = pairs[0] == ("rdtype", Dd.name) and pairs[1] == ("rdtag", tag)
                    want = []
                    for f in allf:
                        if f == "_version":
                            continue
                        v = getattr(rec, f)
                        want.append(None if v is None else base64.b64encode(v).decode() if isinstance(v, bytes) else str(v))
                    c["values_ok"] = [v for _, v in pairs[2:]] == want
                else:
                    packer = JsonRecordPacker(indent=None, pack_descriptors=False)
                    text = (sp.record_to_splunk_tcp_api_json if kind == "json" else sp.record_to_splunk_http_api_json)(packer, rec, tag)
                    o = json.loads(text)
                    ev = o if kind == "json" else o["event"]
                    c["found"] = [_decompose(nm) for nm in ev]
                    c["own_ok"] = ev.get("rdtype") == Dd.name and ev.get("rdtag") == tag and "rdtag" in ev
                    packed = json.loads(JsonRecordPacker(indent=None, pack_descriptors=False).pack(rec))
                    c["values_ok"] = all(ev.get(sp_name) == packed[f] for f, sp_name in ((f, ("rd_" + f) if (f.startswith(("_", "rd_")) or f in sp.RESERVED_FIELDS) else f) for f in allf if f != "_version")
                                         if True)
                    if kind == "httpjson":
                        hostv = next((getattr(rec, f) for f in ("hostname", "host") if f in fl and getattr(rec, f)), None)
                        c["own_ok"] &= set(o) <= {"event", "host", "time"} and ("host" in o) == (hostv is not None)
                        tsv = getattr(rec, "ts", None) if "ts" in fl else None
                        if isinstance(tsv, dt.datetime):
                            c["own_ok"] &= o.get("time") == tsv.timestamp()
            except Exception as e:
                c["raised"], c["exc"] = True, type(e).__name__ + ":" + str(e)[:80]
            cases.append(c)
            ctx.case(("splunk-render", kind, tuple(fl), tuple(types_), repr(vals)[:60], tag))
    return cases


def splunk_part(ctx, thorough):
    if thorough:
        from vf import apalache

        apalache.inductive(ctx, "SplunkCount", "unbounded: counter abstraction of the HTTP transport, every body limit >= 1, every history")
        apalache.inductive(ctx, "SplitCount", "unbounded: counter abstraction of splitting by count, every limit >= 1, every number of records")
    ctx.design("Splunk", "MC_Splunk.cfg", "exhaustive: tcp / http transport, body limit 3, <=9 calls, collector errors anywhere; field-name escaping over 54 names",
               actions=("Write", "Flush", "Close"), workers=4)
    ctx.sensitivity("Splunk", "MC_Splunk_dev_CloseNoFlush.cfg", "close without a final POST must violate Delivered", "Delivered", workers=2)
    if thorough:
        ctx.sensitivity("Splunk", "MC_Splunk_dev_LimitOffByOne.cfg", "a body of limit + 1 records must violate BodyBound", "BodyBound", workers=2)
        ctx.sensitivity("Splunk", "MC_Splunk_dev_EscapeOnce.cfg", "leaving rd_ names alone must violate EscapeInjective", "EscapeInjective", workers=2)
    desc = D()
    traces, metas = [], []
    # code -> spec: all short histories, and long runs around the body limit of 20
    short = [h for h in histories(4 if not thorough else 5)]
    combos = [("tcp", "records", "url"), ("tcp", "json", "direct"), ("http", "json", "url"), ("https", "records", "direct"), ("http", "records", "url")]
    for proto, st_, entry in combos:
        for h in short:
            ops = [(op, False) for op in h]
            traces.append(run_splunk_history(proto, st_, ops, desc, entry))
            metas.append((proto, st_, ops))
            ctx.case(("splunk", proto, st_, " ".join(h)))
        for nrec in (19, 20, 21, 39, 40, 41, 45):
            for tail in (["close"], ["exit"], ["flush", "close"], ["close", "close"], ["flush", "write", "close"]):
                ops = [("write", False)] * nrec + [(t, False) for t in tail]
                traces.append(run_splunk_history(proto, st_, ops, desc, entry))
                metas.append((proto, st_, ops))
                ctx.case(("splunk-long", proto, st_, nrec, " ".join(tail)))
    # spec -> code: behaviours simulated by TLC from Splunk.tla (limit 4), collector errors included, replayed with the
    # stand-in told to answer with an error exactly where the behaviour has one -- the model's limit is not the code's, so
    # these are judged in contract mode only
    nsim = 0
    for beh in simulate.behaviours("Splunk", "Sim_Splunk.cfg", 150 if not thorough else 1500, 14, ctx.seed + 23):
        proto = beh[0][2]["proto"]
        ops, prev = [], beh[0][2]
        for a, args, stt in beh[1:]:
            if a in ("Write", "Flush", "Close"):
                ops.append((a.lower(), len(stt["dropped"]) > len(prev["dropped"])))
            prev = stt
        if not ops:
            continue
        traces.append(run_splunk_history(proto, ctx.rnd.choice(["json", "records"]), ops, desc, "direct"))
        metas.append((proto, "sim", ops))
        ctx.case(("splunk-sim", proto, " ".join(o + ("!" if f else "") for o, f in ops)))
        nsim += 1
    ctx.extra["splunk_behaviours_simulated_by_tlc"] = nsim
    ctx.sample({"part": "splunk", "proto": metas[3][0], "history": metas[3][2], "trace": traces[3]})
    path = os.path.join(common.scratch("c17"), "straces.json")
    tlc.write_json(path, traces)
    r = ctx.tlc("Trace_Splunk", "Trace_Splunk_contract.cfg", f"forwarding-writer traces, contract mode ({len(traces)} histories)", env={"TRACE_FILE": path})
    bad = set()
    for v in r.violations:
        tid = v["state"].get("tid")
        if tid is None:
            raise MachineryError(f"cannot attribute counter-example: {v}")
        if tid in bad:
            continue
        bad.add(tid)
        proto, st_, ops = metas[tid - 1]
        l = v["state"]["l"]
        upto = ops[: l - 2]
        ctx.violation({"part": "splunk", "check": v["inv"], "proto": proto, "sourcetype": st_, "records_written": sum(1 for o, _ in upto if o == "write"), "last_call": upto[-1][0] if upto else None},
                      {"history": " ".join(o + ("!" if f else "") for o, f in upto), "failing_event": traces[tid - 1][l - 2] if l - 2 < len(traces[tid - 1]) else None})
    rd = ctx.tlc("Trace_Splunk", "Trace_Splunk_design.cfg", "forwarding-writer traces, design mode (body boundaries at the limit of 20)", env={"TRACE_FILE": path})
    drift = {v["state"].get("tid") for v in rd.violations if v["inv"] == "NotStuck"} - bad
    drift = {t for t in drift if metas[t - 1][1] != "sim" or True}
    for t in sorted(drift)[:3]:
        print(f"MODEL-DRIFT property={PROP} splunk proto={metas[t-1][0]} history={' '.join(o for o, _ in metas[t-1][2])[:120]!r}")
    if drift:
        ctx.note(f"splunk: model drift on {len(drift)} traces")
    ctx.count(len(traces), sum(len(t) - 1 for t in traces))
    # renderings
    cases = splunk_render_cases(ctx, thorough)
    path = os.path.join(common.scratch("c17"), "scases.json")
    tlc.write_json(path, cases)
    r = ctx.tlc("Trace_SplunkNames", "Trace_SplunkNames.cfg", f"{len(cases)} renderings (key=value line, JSON, HTTP event JSON)", env={"TRACE_FILE": path})
    seen = set()
    for v in r.violations:
        cid = v["state"].get("cid")
        if cid is None:
            raise MachineryError(f"cannot attribute counter-example: {v}")
        if cid in seen:
            continue
        seen.add(cid)
        c = cases[cid - 1]
        # the renderings are outside C17's text (no file, no reader): reported as drift of the as-built model, not as a verdict
        print(f"MODEL-DRIFT property={PROP} splunk rendering kind={c['kind']} exc={c['exc']} values_ok={c['values_ok']} own_ok={c['own_ok']} found={c['found']}"[:300])
    if seen:
        ctx.note(f"splunk: {len(seen)} renderings differ from Splunk.tla's naming rules")
    ctx.count(len(cases), len(cases))


def _double_rotation(pre, ops):
    exists = {p[0] for p in pre}
    cur = None
    clock = 0
    rotated = {}
    for op in ops:
        if op[0] == "tick":
            clock += 1
        elif op[0] == "write":
            p = op[1]
            if cur != p:
                if p in exists:
                    rotated[(p, clock)] = rotated.get((p, clock), 0) + 1
                exists.add(p)
                cur = p
    return any(v >= 2 for v in rotated.values())


def run(tier):
    ctx = check.Ctx(PROP, tier)
    thorough = tier == "thorough"
    writers_part(ctx, thorough)
    split_part(ctx, thorough)
    template_part(ctx, thorough)
    splunk_part(ctx, thorough)
    ctx.extra["rule"] = "bounded-exhaustive call histories per adapter kind; split: all (target, suffix length, limit, N, closing mode); template: all op sequences over 2 paths with ticks and pre-existing files"
    return ctx.finish()
