"""C20 -- text-oriented writers render every record completely.

Specification: spec/TextWriters.tla (CSV: a header row for every run of records of one descriptor, then one row per
record; line: one numbered block per record with one line per selected field; text: one item per record; field
selection by fields / exclude) -- TLC checks RowPerRecord, HeaderPerRun, BlockNumbering over all descriptor sequences
<= 5 x 7 option sets -- and spec/Trace_Text.tla.
Binding: (a) all descriptor sequences <= 4 over {A, A2 (same name, other fields), B} x option sets are written through
the real CSV, line and text writers and the output is parsed independently (csv.reader / block splitter); TLC compares
the structure with the model.  (b) for every field type x value class (delimiters, quotes, CR / LF / CRLF, leading
spaces, non-ASCII, surrogate escapes, NUL, empty, None) each writer renders a record: cells / value lines / text must
equal the text form of the value.  (c) CSV files with unambiguous content are read back with CsvfileReader for
several delimiters.
"""
import csv, io, itertools, json, os, re

from vf import check, common, gen, tlc
from vf.common import MachineryError

PROP = "C20"
RES = ["_source", "_classification", "_generated", "_version"]
OPTS = [{"fields": [], "excl": []}, {"fields": ["s", "n"], "excl": []}, {"fields": [], "excl": ["_generated", "s"]}, {"fields": ["other", "n", "bogus"], "excl": ["s"]},
        {"fields": ["s", "n", "other"], "excl": ["s", "bogus"]},         # a requested field that is also excluded
        {"fields": ["other"], "excl": []},
        {"fields": ["s", "n"], "excl": ["n", "s", "other"]}]             # every requested field is also excluded: nothing is left for any type                               # leaves some record types without any field (line writer: the block is still there)


def descs():
    from flow.record import RecordDescriptor

    return {"A": RecordDescriptor("tw/a", [("varint", "n"), ("string", "s")]), "A2": RecordDescriptor("tw/a", [("varint", "n"), ("string", "x"), ("string", "s")]),
            "B": RecordDescriptor("tw/b", [("varint", "n"), ("string", "other")])}


def text_form(v):
    return "" if v is None else str(v)


def url_opts(o, extra=""):
    q = []
    if o["fields"]:
        q.append("fields=" + ",".join(o["fields"]))
    if o["excl"]:
        q.append("exclude=" + ",".join(o["excl"]))
    if extra:
        q.append(extra)
    return ("?" + "&".join(q)) if q else ""


def read_text(path):
    with open(path, "rb") as f:
        return f.read().decode("utf-8", "surrogateescape")


def parse_csv(text, recs_by_id):
    """-> items [HDR cols | ROW id n], values_ok"""
    rows = list(csv.reader(io.StringIO(text, newline="")))
    items, ok, cur = [], True, None
    for row in rows:
        if cur is not None and "n" in cur and len(row) == len(cur) and row[cur.index("n")].isdigit():
            rid = int(row[cur.index("n")])
            items.append({"k": "ROW", "id": rid, "n": len(row)})
            rec = recs_by_id.get(rid)
            if rec is None:
                ok = False
            else:
                ok &= row == [text_form(getattr(rec, c)) for c in cur]
        else:
            cur = row
            items.append({"k": "HDR", "cols": row})
    return items, ok


def parse_lines(text, recs_by_id, verbose_types=None):
    items, ok = [], True
    blocks = re.split(r"^--\[ RECORD (\d+) \]--\n", text, flags=re.M)
    for i in range(1, len(blocks), 2):
        no, body = int(blocks[i]), blocks[i + 1]
        names, vals = [], {}
        for line in body.split("\n"):
            m = re.match(r"^\s*([A-Za-z_][A-Za-z0-9_]*)(?: \(([^)]*)\))? = (.*)$", line, re.S)
            if m:
                names.append(m.group(1))
                vals[m.group(1)] = m.group(3)
        # a block is identified by its `n` line; without one (the selection left it out) by its position in the output
        rid = int(vals.get("n", "0")) if vals.get("n", "").isdigit() else (sorted(recs_by_id)[i // 2] if "n" not in names and i // 2 < len(recs_by_id) else 0)
        items.append({"k": "BLOCK", "no": no, "id": rid, "names": names})
        rec = recs_by_id.get(rid)
        if rec is None:
            ok = False
        else:
            ok &= all(vals[n] == "{}".format(getattr(rec, n)) for n in names)
    return items, ok


def run(tier):
    from flow.record import RecordReader, RecordWriter

    ctx = check.Ctx(PROP, tier)
    thorough = tier == "thorough"
    ctx.design("TextWriters", "MC_TextWriters.cfg", "all descriptor sequences <= 5 over {A, A2, B} x 7 option sets", workers=8)
    ctx.sensitivity("TextWriters", "MC_TextWriters_dev.cfg", "a header only before the first record must violate HeaderPerRun", "HeaderPerRun", workers=4)
    D = descs()
    tmp = common.scratch("c20")
    cases = []
    # (a) structure: every descriptor sequence <= 4 (5 in thorough) x option sets x writers
    seqs = []
    for n in range(0, (5 if thorough else 4) + 1):
        seqs += list(itertools.product(["A", "A2", "B"], repeat=n))
    from flow.record import RecordDescriptor as _RD

    # every sequence as it is, and -- where a descriptor occurs more than once -- once more with an EQUAL descriptor
    # re-created for every record (records coming from several sources: new, equal descriptor objects in mid-run)
    work = [(s, False) for s in seqs] + [(s, True) for s in seqs if len(set(s)) < len(s) and (thorough or len(s) <= 3)]
    for seq, churn in work:
        hist = [{"d": d, "id": i + 1} for i, d in enumerate(seq)]
        recs = {}
        for h in hist:
            d = D[h["d"]]
            if churn:
                d = _RD(d.name, [tuple(x) for x in d.get_field_tuples()])
            kw = {"n": h["id"], "s": "v%d" % h["id"], "x": "x", "other": "o%d" % h["id"]}
            recs[h["id"]] = d(**{n: kw[n] for _, n in d.get_field_tuples()}, _generated=gen.GEN, _source="src")
        for oi, o in enumerate(OPTS):
            if not thorough and len(seq) > 2 and (oi + len(seq)) % 2:
                continue
            for writer in ("csv", "line", "text"):
                if writer == "text" and oi:
                    continue
                if writer == "csv" and (o["fields"] == ["other"] or set(o["fields"]) <= set(o["excl"]) and o["fields"]):
                    continue      # rows without any column cannot be told from blank lines by a CSV parser
                p = os.path.join(tmp, "o." + writer)
                url = {"csv": "csvfile://", "line": "line://", "text": "text://"}[writer] + p + (url_opts(o) if writer != "text" else "")
                c = {"writer": writer, "hist": hist, "opts": o, "raised": False, "exc": "none", "items": [], "values_ok": True, "readback_checked": False, "readback_ok": True}
                try:
                    with RecordWriter(url) as w:
                        for h in hist:
                            if churn:
                                # the equal descriptor is re-created (and its record built) just before the write, as a
                                # reader of the next source would do
                                dd = D[h["d"]]
                                dd = _RD(dd.name, [tuple(x) for x in dd.get_field_tuples()])
                                kw = {"n": h["id"], "s": "v%d" % h["id"], "x": "x", "other": "o%d" % h["id"]}
                                recs[h["id"]] = dd(**{n: kw[n] for _, n in dd.get_field_tuples()}, _generated=gen.GEN, _source="src")
                            w.write(recs[h["id"]])
                    text = read_text(p)
                    if writer == "csv":
                        c["items"], c["values_ok"] = parse_csv(text, recs)
                    elif writer == "line":
                        c["items"], c["values_ok"] = parse_lines(text, recs)
                    else:
                        lines = text.split("\n")[:-1]
                        c["items"] = [{"k": "TEXT", "id": h["id"]} for h, l in zip(hist, lines)] if len(lines) == len(hist) else [{"k": "?"}]
                        c["values_ok"] = lines == [repr(recs[h["id"]]) for h in hist]
                except Exception as e:
                    c["raised"], c["exc"] = True, type(e).__name__ + ":" + str(e)[:80]
                cases.append(c)
                ctx.case((writer, seq, oi, churn))
        # (a2) the text writer under a template that names fields only SOME of the record types have (round g): every line is
        #      the template over THAT record's fields, a field the record lacks stays the literal `{name}` -- whatever
        #      record types came before it in the run (A and B have the same number of fields)
        if seq and not churn:
            p = os.path.join(tmp, "o.tpl")
            tpl = "{n}|{s}|{other}|{x}|{_source}"
            c = {"writer": "text", "hist": hist, "opts": OPTS[0], "raised": False, "exc": "none", "items": [], "values_ok": True, "readback_checked": False, "readback_ok": True}
            try:
                with RecordWriter("text://" + p + "?format_spec=" + tpl) as w:
                    for h in hist:
                        w.write(recs[h["id"]])
                lines = read_text(p).split("\n")[:-1]
                exp = []
                for h in hist:
                    have = {n for _, n in D[h["d"]].get_field_tuples()}
                    r = recs[h["id"]]
                    exp.append("|".join(str(getattr(r, k)) if k in have or k == "_source" else "{%s}" % k for k in ("n", "s", "other", "x", "_source")))
                c["items"] = [{"k": "TEXT", "id": h["id"]} for h in hist] if len(lines) == len(hist) else [{"k": "?"}]
                c["values_ok"] = lines == exp
            except Exception as e:
                c["raised"], c["exc"] = True, type(e).__name__ + ":" + str(e)[:80]
            cases.append(c)
            ctx.case(("text-template", seq, 0, churn))
    nstruct = len(cases)
    # (b) cell contents: every field type x value class through each writer (one record, all fields selected)
    vc = gen.value_classes()
    cells = [("plain", "abc"), ("comma", "a,b"), ("semicolon", "a;b"), ("tab", "a\tb"), ("quote", 'say "hi"'), ("squote", "it's"), ("cr", "a\rb"), ("lf", "a\nb"), ("crlf", "a\r\nb"),
             ("leadspace", "  lead"), ("trailspace", "trail  "), ("nonascii", "café 中 \U0001f600"), ("escape", "ab\udcff\udc80"), ("nul", "a\x00b"), ("empty", ""), ("onlyquote", '"'),
             ("quotecomma", '",'), ("eqsign", "a = b"), ("dashes", "--[ RECORD 9 ]--"),
             ("backslash_seq", "C:\\temp\\new\\notes.txt\\r")]       # the two CHARACTERS backslash + n (t, r) inside a value are not an escape of the template's
    plan = [("string", l, v) for l, v in cells]
    for T in vc:
        for label, v in vc[T]:
            if label in ("len65535", "len65536") or T == "string":
                continue
            plan.append((T, label, v))
        if T in gen.LISTABLE:
            for label, v in vc[T][:3]:
                if v is not None:
                    plan.append((T + "[]", label, [v, v]))
    for T, label, v in plan:
        try:
            Dv = gen.desc_for(T, extra=(("varint", "n"), ("string", "s")))
            rec = Dv(v, 1, "tail", _generated=gen.GEN, _source=None)
        except Exception:
            continue
        fieldnames = ["f", "n", "s"] + RES
        hist = [{"d": "V", "id": 1}]
        for writer, extra in (("csv", ""), ("csv", "lineterminator=\\n"), ("line", ""), ("line", "verbose=true"), ("text", ""), ("text", "format_spec={f}|{n}|{s}"),
                              ("text", "format_spec={_source}|{n}|{_classification}|{_version}"),                  # the reserved fields are fields of the record too
                              ("text", "format_spec={n}:{_generated:%Y-%m-%d}:{_generated.year}"),
                              ("text", "format_spec={s[0]}{n}|{f}|{s.__class__.__name__}"),        # index and attribute access inside the template
                              ("text", "format_spec={n} \u2192 {s}\\t({f}) caf\u00e9 \u4e2d\\n")):     # non-ASCII literal text next to the escapes \t and \n
            p = os.path.join(tmp, "v." + writer)
            url = {"csv": "csvfile://", "line": "line://", "text": "text://"}[writer] + p + ("?" + extra if extra else "")
            c = {"writer": "value:" + writer, "hist": hist, "opts": OPTS[0], "raised": False, "exc": "none", "items": [], "values_ok": False, "readback_checked": False, "readback_ok": True,
                 "T": T, "label": label, "extra": extra}
            try:
                with RecordWriter(url) as w:
                    w.write(rec)
                text = read_text(p)
                if writer == "csv":
                    rows = list(csv.reader(io.StringIO(text, newline="")))
                    c["values_ok"] = len(rows) == 2 and rows[0] == fieldnames and rows[1] == [text_form(getattr(rec, k)) for k in fieldnames]
                    if extra:
                        c["values_ok"] &= "\r\n" not in text.replace(text_form(v) if isinstance(v, str) else "\x00\x00", "")
                elif writer == "line":
                    exp_names = fieldnames
                    body = text.split("\n", 1)
                    ok = body[0] == "--[ RECORD 1 ]--"
                    # every selected field appears once, in order, as `name = <text form>` (values may themselves contain line breaks)
                    pos = 0
                    rest = body[1] if len(body) > 1 else ""
                    types = {n: t for t, n in [(f.typename, nm) for nm, f in Dv.get_all_fields().items()]}
                    for nm in exp_names:
                        key = f"{nm} ({types[nm]})" if extra else nm
                        needle = f"{key} = {'{}'.format(getattr(rec, nm))}\n"
                        j = rest.find(needle, pos)
                        ok &= j >= 0
                        pos = j + len(needle) if j >= 0 else pos
                    c["values_ok"] = bool(ok)
                else:
                    tpl = extra.split("=", 1)[1].replace("\\t", "\t").replace("\\n", "\n").replace("\\r", "\r") if extra else ""
                    exp = (tpl.format(f=rec.f, n=rec.n, s=rec.s, _source=rec._source, _classification=rec._classification, _generated=rec._generated, _version=rec._version) if extra else repr(rec)) + "\n"
                    c["values_ok"] = text == exp
            except Exception as e:
                c["raised"], c["exc"] = True, type(e).__name__ + ":" + str(e)[:80]
            c["items"] = []  # structure is checked in (a); TLC only sees values_ok / raised for these
            c["writer_kind"] = writer
            cases.append(c)
            ctx.case(("value", writer, T, label, extra))
    # (b2) a GROUPED record (its members' reserved fields sit in the middle of its dict view): every cell under its own name
    from flow.record import GroupedRecord, RecordDescriptor as _RDg

    Ga, Gb = _RDg("tw/ga", [("varint", "n"), ("string", "s")]), _RDg("tw/gb", [("string", "other"), ("varint", "k")])
    grp = GroupedRecord("tw/grp", [Ga(1, "left", _generated=gen.GEN, _source="srcA"), Gb("right", 7, _generated=gen.GEN, _source="srcB")])
    for writer, extra in (("csv", ""), ("csv", "fields=s,other,n"), ("line", ""), ("line", "exclude=_generated,_version")):
        p = os.path.join(tmp, "g." + writer)
        url = {"csv": "csvfile://", "line": "line://"}[writer] + p + ("?" + extra if extra else "")
        c = {"writer": "value:" + writer, "hist": [{"d": "V", "id": 1}], "opts": OPTS[0], "raised": False, "exc": "none", "items": [], "values_ok": False, "readback_checked": False, "readback_ok": True,
             "T": "grouped", "label": "two members", "extra": extra, "writer_kind": writer}
        try:
            with RecordWriter(url) as w:
                w.write(grp)
            text = read_text(p)
            if writer == "csv":
                rows = list(csv.reader(io.StringIO(text, newline="")))
                c["values_ok"] = len(rows) == 2 and len(rows[0]) == len(rows[1]) and len(set(rows[0])) == len(rows[0]) and all(cell == text_form(getattr(grp, name)) for name, cell in zip(rows[0], rows[1]))
                c["values_ok"] &= set(rows[0]) >= ({"s", "other", "n"} if extra else {"n", "s", "other", "k"})
            else:
                pairs = re.findall(r"^\s*([A-Za-z_][A-Za-z0-9_]*) = (.*)$", text, re.M)
                c["values_ok"] = bool(pairs) and all(v == "{}".format(getattr(grp, k)) for k, v in pairs) and {k for k, _ in pairs} >= {"n", "s", "other", "k"}
        except Exception as e:
            c["raised"], c["exc"] = True, type(e).__name__ + ":" + str(e)[:80]
        cases.append(c)
        ctx.case(("value-grouped", writer, extra))
    # (c) CSV read-back with CsvfileReader for unambiguous content x delimiters
    from flow.record.adapter.csvfile import CsvfileReader

    safe = ["abc", "x y", "1", "café", "a-b_c", "", "Z9"]
    padded = ["  lead", " x", "trail  ", "\tq"]          # blanks at the edge of a cell are part of the cell
    for delim in (",", ";", "\t", "|", ":", "~", "^", "#"):      # the reader sniffs the dialect: not only the four usual delimiters (round g)
        for trial in range(3 if not thorough else 12):
            rows = [[ctx.rnd.choice(safe[:5]) for _ in range(3)] for _ in range(ctx.rnd.randint(1, 5))]
            if trial % 2:
                rows.insert(ctx.rnd.randint(0, len(rows)), ["", "", ""])        # a record whose cells are all empty is still a record
                rows.append(["", "x", ""])
            if trial % 3 == 0:
                rows.append([ctx.rnd.choice([c for c in padded if delim not in c]), "m", ctx.rnd.choice(["trail  ", " x"])])
            p = os.path.join(tmp, "rb.csv")
            with open(p, "w", newline="", encoding="utf-8") as f:
                wr = csv.writer(f, delimiter=delim)
                wr.writerow(["alpha", "beta", "gamma"])
                wr.writerows(rows)
            c = {"writer": "readback", "hist": [], "opts": OPTS[0], "raised": False, "exc": "none", "items": [], "values_ok": True, "readback_checked": True, "readback_ok": False, "delim": delim}
            try:
                rd = CsvfileReader(p)
                got = [[r.alpha, r.beta, r.gamma] for r in rd]
                rd.close()
                c["readback_ok"] = got == rows
            except Exception as e:
                c["raised"], c["exc"] = True, type(e).__name__ + ":" + str(e)[:80]
            cases.append(c)
            ctx.case(("readback", delim, trial))
    # (c2) files written by the CSV writer itself, from narrow to very wide (the reader sniffs the dialect on a sample of the
    #      first 1024 characters), a single column, and a last row without a line break
    from flow.record import RecordDescriptor

    widths = list(range(1, 12)) + list(range(12, 80, 3 if not thorough else 1)) + [90, 128, 200]
    for k in widths:
        names = [f"field_name_x{j:04d}" for j in range(k)]
        Dw = RecordDescriptor("w/wide", [("string", n) for n in names])
        rows = [[f"v{i}_{j}" for j in range(k)] for i in range(3)]
        p = os.path.join(tmp, "wide.csv")
        c = {"writer": "readback", "hist": [], "opts": OPTS[0], "raised": False, "exc": "none", "items": [], "values_ok": True, "readback_checked": True, "readback_ok": False, "delim": f"writer-made,{k} columns"}
        try:
            with RecordWriter("csvfile://" + p) as w:
                for row in rows:
                    w.write(Dw(*row, _generated=gen.GEN))
            rd = CsvfileReader(p)
            got = [[getattr(r, n) for n in names] for r in rd]
            rd.close()
            c["readback_ok"] = got == rows
        except Exception as e:
            c["raised"], c["exc"] = True, type(e).__name__ + ":" + str(e)[:80]
        cases.append(c)
        ctx.case(("readback-wide", k))
    # quoted cells that hold line breaks (RFC 4180 form, as csv.writer and the library's own writer produce them)
    for label, cellsq in (("quoted CRLF in a cell", ["a\r\nb", "x", "y"]), ("quoted CR in a cell", ["p", "a\rb", "q"]), ("quoted LF in a cell", ["p", "q", "a\nb"]),
                          ("quoted CRLF and CR", ["a\r\nb", "c\rd", "e"])):
        p = os.path.join(tmp, "ml.csv")
        rows = [["1", "2", "3"], cellsq, ["7", "8", "9"]]
        with open(p, "w", newline="", encoding="utf-8") as f:
            wr = csv.writer(f)
            wr.writerow(["alpha", "beta", "gamma"])
            wr.writerows(rows)
        c = {"writer": "readback", "hist": [], "opts": OPTS[0], "raised": False, "exc": "none", "items": [], "values_ok": True, "readback_checked": True, "readback_ok": False, "delim": label}
        try:
            rd = CsvfileReader(p)
            got = [[r.alpha, r.beta, r.gamma] for r in rd]
            rd.close()
            c["readback_ok"] = got == rows
            if not c["readback_ok"]:
                c["exc"] = "read back " + repr(got)[:70]
        except Exception as e:
            c["raised"], c["exc"] = True, type(e).__name__ + ":" + str(e)[:80]
        cases.append(c)
        ctx.case(("readback-multiline", label))
    for label, text, want in (("last row without a line break", "alpha,beta,gamma\n1,2,3\n4,5,6", [["1", "2", "3"], ["4", "5", "6"]]),
                              ("one data row, no line break", "alpha,beta,gamma\n1,2,3", [["1", "2", "3"]]),
                              ("wide, tab separated", "\t".join(["alpha", "beta", "gamma"] + [f"c{j:020d}" for j in range(70)]) + "\n" + "\t".join(["1", "2", "3"] + ["v"] * 70) + "\n" + "\t".join(["4", "5", "6"] + ["w"] * 70) + "\n",
                               [["1", "2", "3"], ["4", "5", "6"]]),
                              ("wide, semicolon separated", ";".join(["alpha", "beta", "gamma"] + [f"c{j:020d}" for j in range(70)]) + "\r\n" + ";".join(["1", "2", "3"] + ["v"] * 70) + "\r\n", [["1", "2", "3"]])):
        p = os.path.join(tmp, "hand.csv")
        with open(p, "w", newline="", encoding="utf-8") as f:
            f.write(text)
        c = {"writer": "readback", "hist": [], "opts": OPTS[0], "raised": False, "exc": "none", "items": [], "values_ok": True, "readback_checked": True, "readback_ok": False, "delim": label}
        try:
            rd = CsvfileReader(p)
            got = [[r.alpha, r.beta, r.gamma] for r in rd]
            rd.close()
            c["readback_ok"] = got == want
        except Exception as e:
            c["raised"], c["exc"] = True, type(e).__name__ + ":" + str(e)[:80]
        cases.append(c)
        ctx.case(("readback-hand", label))
    ctx.sample({"case": cases[40]})
    ctx.sample({"case": {k: v for k, v in cases[nstruct + 5].items()}})
    # TLC: structure cases are compared with the model; value / read-back cases carry their flags
    tl = []
    for c in cases:
        if c["writer"] in ("csv", "line", "text"):
            tl.append(c)
        else:
            tl.append({"writer": "text", "hist": [], "opts": OPTS[0], "raised": c["raised"], "items": [], "values_ok": c["values_ok"], "readback_checked": c["readback_checked"], "readback_ok": c["readback_ok"]})
    path = os.path.join(common.scratch("c20t"), "cases.json")
    tlc.write_json(path, tl)
    r = ctx.tlc("Trace_Text", "Trace_Text.cfg", f"{nstruct} structure cases + {len(cases) - nstruct} value / read-back cases", env={"TRACE_FILE": path}, workers=8)
    seen = set()
    for v in r.violations:
        cid = v["state"].get("cid")
        if cid is None:
            raise MachineryError(f"cannot attribute counter-example: {v}")
        if cid in seen:
            continue
        seen.add(cid)
        c = cases[cid - 1]
        if c["writer"] in ("csv", "line", "text"):
            key = {"check": "structure", "writer": c["writer"], "seq": "".join(h["d"][0] + ("2" if h["d"] == "A2" else "") for h in c["hist"]), "opts": OPTS.index(c["opts"]), "raised": c["raised"]}
        elif c["writer"] == "readback":
            key = {"check": "csv-readback", "delim": c["delim"], "raised": c["raised"]}
        else:
            key = {"check": "value", "writer": c["writer_kind"], "type": c["T"], "class": c["label"], "extra": c["extra"], "raised": c["raised"], "exc": c["exc"].split(":")[0]}
        ctx.violation(key, {"case": {k: x for k, x in c.items() if k != "hist"}})
    ctx.count(len(cases), len(cases))
    ctx.extra["rule"] = "(a) all descriptor sequences <= 4 over {A, A2, B} x option sets x {csv, line, text}; (b) every field type x value class + 19 text cell classes x writer x option; (c) CSV read-back x 8 delimiters; (a2) text templates naming fields of other record types over every sequence"
    ctx.assumptions += ["the line writer is held to what the statement says (every selected field once, in order, as name = <text form> in its block), not to re-parseability of values that contain line breaks"]
    return ctx.finish()
