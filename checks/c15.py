"""C15 -- record composition follows the documented precedence rules.

Specification: spec/Record.tla (Merge, TsExpand, ReplaceIn, Project as operators on ordered (name, type, value)
lists); spec/MC_Record.tla lets TLC check the precedence lemmas over names {a, b, ts, ts_description} x
3 types x <= 3 records.  Binding: generated shapes are built with real descriptors and run through
extend_record, merge_record_descriptors, iter_timestamped_records, GroupedRecord, _replace and
RecordFieldRewriter; the results are projected to (name, type, value id) lists and TLC compares them with the
specification's operators.
"""
import itertools, json, os, datetime as dt

from vf import check, common, gen, observe, tlc
from vf.common import MachineryError

PROP = "C15"
NAMES = ["a", "b", "ts", "ts_description"]
TYPES = ["datetime", "string", "varint"]


def value_for(k, n, t):
    """concrete, pairwise distinct value for field n of record k, and its id"""
    vid = f"r{k}.{n}"
    idx = NAMES.index(n)
    if t == "datetime":
        return dt.datetime(2000 + k, 1 + idx, 1, tzinfo=dt.timezone.utc), vid
    if t == "string":
        return f"s{k}{n}", vid
    return 100 * k + idx, vid


def shapes(rnd, n, maxf):
    out = []
    for _ in range(n):
        nf = rnd.randint(1, maxf)
        names = rnd.sample(NAMES, nf)
        out.append([(nm, rnd.choice(TYPES)) for nm in names])
    return out


def D_coerce(t, v):
    """the value as the field type stores it (for value-id lookup)"""
    from flow.record.base import fieldtype

    return v if v is None else fieldtype(t)(v)


class World:
    def __init__(self):
        self.ids = {}
        self.ids[self.key(None)] = "unset"

    def build(self, k, shape, name="t/c%d", unset=()):
        """unset: names of fields left None -- an unset value is a value like any other: the record HAS the field"""
        from flow.record import RecordDescriptor

        D = RecordDescriptor(name % k if "%" in name else name, [(t, n) for n, t in shape])
        vals, vids = {}, {}
        for n, t in shape:
            vals[n], vids[n] = value_for(k, n, t)
            if n in unset:
                vals[n], vids[n] = None, "unset"
        rec = D(**vals, _generated=gen.GEN, _source=f"src{k}")
        for n, t in shape:
            if n not in unset:
                self.ids[self.key(getattr(rec, n))] = vids[n]
        return rec

    @staticmethod
    def key(v):
        o = observe.obs_value(v)
        o.pop("cls", None)
        return json.dumps(o, sort_keys=True)

    def project(self, rec):
        out = []
        for t, n in rec._desc.get_field_tuples():
            v = getattr(rec, n)
            if v is None:
                vid = "falsy:datetime" if t == "datetime" and "falsy:datetime" in self.ids.values() and self.key(v) in self.ids else self.ids.get(self.key(v), "?None")
            elif n == "ts_description" and isinstance(v, str) and self.key(v) not in self.ids:
                vid = "name:" + str(v)
            else:
                vid = self.ids.get(self.key(v), "?" + repr(v)[:30])
            out.append({"n": n, "t": t, "v": vid})
        return out


def run(tier):
    from flow.record import GroupedRecord, RecordDescriptor, extend_record, iter_timestamped_records
    from flow.record.base import merge_record_descriptors
    from flow.record.stream import RecordFieldRewriter

    ctx = check.Ctx(PROP, tier)
    thorough = tier == "thorough"
    ctx.design("MC_Record", "MC_Record.cfg", "precedence lemmas over names {a,b,ts,ts_description} x 3 types x 3 records (<= 2 fields each)")
    W = World()
    cases = []
    nshape = 700 if not thorough else 8000

    def base_case(op, recs_proj, **kw):
        c = {"op": op, "recs": recs_proj, "replace": False, "changes": {"-": "-"}, "fields": [], "excl": [], "raised": False, "exc": "none", "res": [], "originals_unchanged": True, "name_ok": True}
        c.update(kw)
        return c

    # extend / merge / group over 2..3 records
    for i in range(nshape):
        k = ctx.rnd.choice([2, 2, 3]) if i % 10 else 1     # one in ten: an EMPTY list of other records
        shp = shapes(ctx.rnd, k, 3)
        mode = i % 4
        if mode == 1 and k == 3:
            shp[2] = shp[0]                              # the SAME descriptor again after a different one
        if mode == 2:
            shp = [[(n, ctx.rnd.choice(TYPES)) for n, _ in shp[0]]] + shp[1:]   # same names, other types
        samename = mode in (1, 2, 3)                      # descriptors sharing one type name
        # every third list leaves some fields unset (None): also in the record that wins
        unsets = [[n for n, t in s if i % 3 == 2 and ctx.rnd.random() < 0.5] for s in shp]
        recs = [W.build(j + 1, s, name=("t/same" if samename else "t/c%d"), unset=unsets[j]) for j, s in enumerate(shp)]
        proj = [W.project(r) for r in recs]
        before = [json.dumps(observe.obs_record(r), sort_keys=True) for r in recs]
        for replace in (False, True):
            rename = ctx.rnd.choice([None, None, "x/renamed"])
            c = base_case("extend", proj, replace=replace)
            try:
                res = extend_record(recs[0], recs[1:], replace=replace, name=rename)
                c["res"] = [W.project(res)]
                c["name_ok"] = res._desc.name == (rename or recs[0]._desc.name)
                # the descriptor-only function must agree with the record function
                md = merge_record_descriptors(tuple(r._desc for r in recs), replace, rename)
                c["name_ok"] &= md.get_field_tuples() == res._desc.get_field_tuples()
                # the result is a record of its own: the caller goes on to change it, and the originals must not follow
                donor = W.build(9, shp[0])
                for n, _ in shp[0]:
                    try:
                        setattr(res, n, getattr(donor, n))
                    except Exception:
                        pass
            except Exception as e:
                c["raised"], c["exc"] = True, type(e).__name__ + ":" + str(e)[:80]
            c["originals_unchanged"] = before == [json.dumps(observe.obs_record(r), sort_keys=True) for r in recs]
            cases.append(c)
            ctx.case(("extend", json.dumps(shp), replace))
        if i % 3 == 0:
            c = base_case("group", proj)
            try:
                g = GroupedRecord("g/x", recs)
                flat = []
                for t, n in g._desc.get_field_tuples():
                    v = getattr(g, n)
                    flat.append({"n": n, "t": t, "v": W.ids.get(W.key(v), "?")})
                c["res"] = [flat]
                c["name_ok"] = g._desc.name == "g/x"
            except Exception as e:
                c["raised"], c["exc"] = True, type(e).__name__ + ":" + str(e)[:80]
            cases.append(c)
            ctx.case(("group", json.dumps(shp)))
            # the same grouped record seen through its dict view, and used as the FIRST record of an extension
            c2 = base_case("group", proj)
            try:
                g = GroupedRecord("g/x", recs)
                types = {n: t for t, n in g._desc.get_field_tuples()}
                c2["res"] = [[{"n": n, "t": types.get(n, "?"), "v": W.ids.get(W.key(v), "?")} for n, v in g._asdict().items() if not n.startswith("_")]]
            except Exception as e:
                c2["raised"], c2["exc"] = True, type(e).__name__ + ":" + str(e)[:80]
            cases.append(c2)
            ctx.case(("group-asdict", json.dumps(shp)))
            if not c["raised"]:
                other = W.build(4, shapes(ctx.rnd, 1, 3)[0])
                for replace in (False, True):
                    c3 = base_case("extend", [c["res"][0], W.project(other)], replace=replace)
                    try:
                        res = extend_record(GroupedRecord("g/x", recs), [other], replace=replace)
                        c3["res"] = [W.project(res)]
                    except Exception as e:
                        c3["raised"], c3["exc"] = True, type(e).__name__ + ":" + str(e)[:80]
                    cases.append(c3)
                    ctx.case(("extend-grouped", json.dumps(shp), replace))
    # descriptors whose IDENTIFIERS coincide (same name, same concatenation of field names and types) merged with the same
    # partner one after the other: whatever is remembered about the first merge must not answer the second
    from flow.record import RecordDescriptor as _RD

    def mk(D, k):
        vals = {}
        for t, n in D.get_field_tuples():
            vals[n] = (f"s{k}{n}" if t in ("string", "wstring") else 1000 * k + len(n))
        rec = D(**vals, _generated=gen.GEN, _source=f"src{k}")
        for t, n in D.get_field_tuples():
            W.ids[W.key(getattr(rec, n))] = f"r{k}.{n}"
        return rec

    pairs = [(_RD("t/col", [("string", "a"), ("string", "b")]), _RD("t/col", [("string", "astringb")])),
             (_RD("t/note", [("wstring", "x")]), _RD("t/note", [("string", "xw")])),
             (_RD("t/col3", [("varint", "n"), ("string", "s")]), _RD("t/col3", [("varint", "nvarints")]))]
    partners = [_RD("t/partner", [("varint", "p1")]), _RD("t/partner2", [("string", "a"), ("varint", "p2")])]
    kk = 20
    for A_, B_ in pairs:
        for P_ in partners:
            for first, second in ((A_, B_), (B_, A_)):
                for replace in (False, True):
                    for pos in ("colliding-first", "colliding-last"):
                        for Dcur in (first, second):         # the second call is the one a stale memory would answer
                            kk += 2
                            rc, rp = mk(Dcur, kk), mk(P_, kk + 1)
                            recs = [rc, rp] if pos == "colliding-first" else [rp, rc]
                            c = base_case("extend", [W.project(r) for r in recs], replace=replace)
                            try:
                                c["res"] = [W.project(extend_record(recs[0], recs[1:], replace=replace))]
                            except Exception as e:
                                c["raised"], c["exc"] = True, type(e).__name__ + ":" + str(e)[:80]
                            cases.append(c)
                            ctx.case(("extend-coinciding-identifiers", A_.name, P_.name, first is A_, replace, pos, Dcur is first))
    # RENAMES whose new name differs from the original's only in "/" versus "_" and that add no field: the original record
    # (and records made from its descriptor afterwards) keep their own name
    for oldname, newname in (("demo/conn_log", "demo_conn/log"), ("demo_flat", "demo/flat"), ("a/b/c_d", "a_b/c/d")):
        for with_other in (False, True):
            kk += 3
            r1 = W.build(kk, [("a", "string"), ("b", "varint")], name=oldname)
            others = [W.build(kk + 1, [("a", "string")], name="t/ren_other")] if with_other else []
            recs = [r1] + others
            before = [json.dumps(observe.obs_record(r), sort_keys=True) for r in recs]
            c = base_case("extend", [W.project(r) for r in recs], replace=False)
            try:
                res = extend_record(r1, others, name=newname)
                c["res"] = [W.project(res)]
                later = r1._desc(**{n: getattr(r1, n) for _, n in r1._desc.get_field_tuples()}, _generated=gen.GEN)
                c["name_ok"] = res._desc.name == newname and r1._desc.name == oldname and later._desc.name == oldname and r1._desc.identifier[0] == oldname
            except Exception as e:
                c["raised"], c["exc"] = True, type(e).__name__ + ":" + str(e)[:80]
            c["originals_unchanged"] = before == [json.dumps(observe.obs_record(r), sort_keys=True) for r in recs]
            cases.append(c)
            ctx.case(("extend-rename-slash-underscore", oldname, newname, with_other))
    # composition while an ignore-for-comparison setting is in force: that setting is about == and hash, never about which
    # record's value wins
    from flow.record.base import set_ignored_fields_for_comparison as _set_ign

    for ign in ({"b"}, {"a"}, {"a", "b"}, {"_source"}):
        for replace in (False, True):
            for nrec in (2, 3):
                kk += 5
                r1 = W.build(kk, [("a", "string"), ("b", "varint")], name="t/ign")
                others = []
                for j in range(1, nrec):
                    donor = W.build(kk + j, [("a", "string"), ("b", "varint")], name="t/ign")
                    changes = {n: getattr(donor, n) for n in ("a", "b") if n in ign}
                    if "_source" in ign:
                        changes["_source"] = donor._source
                    others.append(r1._replace(**changes))          # differs from r1 in the ignored fields ONLY
                recs = [r1] + others
                c = base_case("extend", [W.project(r) for r in recs], replace=replace)
                _set_ign(ign)
                try:
                    res = extend_record(recs[0], recs[1:], replace=replace)
                    c["res"] = [W.project(res)]
                    c["name_ok"] = ("_source" not in ign) or res._source == (recs[-1] if replace else recs[0])._source
                except Exception as e:
                    c["raised"], c["exc"] = True, type(e).__name__ + ":" + str(e)[:80]
                finally:
                    _set_ign(set())
                cases.append(c)
                ctx.case(("extend-under-ignore-setting", tuple(sorted(ign)), replace, nrec))
    # timestamp expansion: every ordered choice of <= 3 names x types
    ts_shapes = []
    for nf in (1, 2, 3):
        for names in itertools.permutations(NAMES, nf):
            for types in itertools.product(TYPES, repeat=nf):
                ts_shapes.append(list(zip(names, types)))
    if not thorough:
        ts_shapes = ctx.rnd.sample(ts_shapes, 500)
    for si_, shp in enumerate(ts_shapes):
        rec = W.build(1, shp, unset=[n for n, t in shp if si_ % 4 == 3 and ctx.rnd.random() < 0.5])
        before = json.dumps(observe.obs_record(rec), sort_keys=True)
        c = base_case("ts", [W.project(rec)])
        try:
            out = list(iter_timestamped_records(rec))
            c["res"] = [W.project(r) for r in out]
            c["name_ok"] = all(r._desc.name == rec._desc.name for r in out)
        except Exception as e:
            c["raised"], c["exc"] = True, type(e).__name__ + ":" + str(e)[:80]
        c["originals_unchanged"] = before == json.dumps(observe.obs_record(rec), sort_keys=True)
        cases.append(c)
        ctx.case(("ts", json.dumps(shp)))
    # replace-style copies and projection
    REWRITERS = {}
    FALSY = {"datetime": None, "string": "", "varint": 0}
    for i in range(nshape // 2):
        shp = shapes(ctx.rnd, 1, 4)[0]
        rec = W.build(1, shp)
        before = json.dumps(observe.obs_record(rec), sort_keys=True)
        donor = W.build(2, shp)
        pick = ctx.rnd.sample([n for n, t in shp], ctx.rnd.randint(1, len(shp)))
        newvals = {n: getattr(donor, n) for n in pick}
        if i % 2:
            tmap = dict(shp)
            for n in pick[: 1 + i % 2]:
                newvals[n] = FALSY[tmap[n]]                # boundary: a falsy replacement value (0, "", None)
                W.ids[W.key(D_coerce(tmap[n], newvals[n]))] = "falsy:" + tmap[n]
        c = base_case("replace", [W.project(rec)], changes={n: W.ids[W.key(D_coerce(dict(shp)[n], newvals[n]))] for n in pick})
        try:
            res = rec._replace(**newvals)
            c["res"] = [W.project(res)]
            c["name_ok"] = res._desc == rec._desc and res._source == rec._source
        except Exception as e:
            c["raised"], c["exc"] = True, type(e).__name__ + ":" + str(e)[:80]
        c["originals_unchanged"] = before == json.dumps(observe.obs_record(rec), sort_keys=True)
        cases.append(c)
        ctx.case(("replace", json.dumps(shp), tuple(pick)))
        # replace-style copy of a GROUPED record: flat, and built from another grouped record (nested)
        if i % 4 == 0:
            shp3 = shapes(ctx.rnd, 3, 2)
            m = [W.build(j + 5, s, name="t/gm%d") for j, s in enumerate(shp3)]
            flat = GroupedRecord("g/flat", m)
            nested = GroupedRecord("g/outer", [GroupedRecord("g/inner", m[:2]), m[2]])
            for gname, g in (("flat", flat), ("nested", nested)):
                gfields = [(n, t) for t, n in g._desc.get_field_tuples()]
                gproj = [{"n": n, "t": t, "v": W.ids.get(W.key(getattr(g, n)), "?")} for n, t in gfields]
                pickg = ctx.rnd.sample([n for n, t in gfields], ctx.rnd.randint(1, len(gfields)))
                donor = W.build(9, gfields)
                newv = {n: getattr(donor, n) for n in pickg}
                c = base_case("replace", [gproj], changes={n: W.ids[W.key(newv[n])] for n in pickg})
                before_g = json.dumps([observe.obs_record(x) for x in m], sort_keys=True)
                try:
                    res = g._replace(**newv)
                    c["res"] = [[{"n": n, "t": t, "v": W.ids.get(W.key(getattr(res, n)), "?")} for n, t in gfields]]
                    c["name_ok"] = res._desc.get_field_tuples() == g._desc.get_field_tuples()
                    # a member's own value of a field that was NOT named stays what it was -- also where another member
                    # shadows that field in the grouped view
                    flat_old = m
                    flat_new = [x for r_ in res.records for x in (r_.records if isinstance(r_, GroupedRecord) else [r_])]
                    if len(flat_new) == len(flat_old):
                        for om, nm in zip(flat_old, flat_new):
                            for t, n in om._desc.get_field_tuples():
                                if n not in pickg:
                                    c["name_ok"] &= W.key(getattr(om, n)) == W.key(getattr(nm, n))
                    else:
                        c["name_ok"] = False
                    # the copy is the caller's own (round g): assigning, on the copy, to the fields that were NOT named --
                    # those of members the replacement did not touch -- must not write through to the original members
                    for n, t in gfields:
                        if n not in pickg:
                            try:
                                setattr(res, n, getattr(donor, n))
                            except Exception:
                                pass
                except Exception as e:
                    c["raised"], c["exc"] = True, type(e).__name__ + ":" + str(e)[:80]
                c["originals_unchanged"] = before_g == json.dumps([observe.obs_record(x) for x in m], sort_keys=True)
                cases.append(c)
                ctx.case(("replace-grouped", gname, json.dumps(shp3), tuple(pickg)))
        fields = ctx.rnd.choice([[], ctx.rnd.sample(NAMES + ["bogus"], ctx.rnd.randint(1, 3))])
        excl = ctx.rnd.choice([[], ctx.rnd.sample(NAMES, ctx.rnd.randint(1, 2))])
        c = base_case("project", [W.project(rec)], fields=fields, excl=excl)
        try:
            rw = REWRITERS.setdefault((tuple(fields), tuple(excl)), RecordFieldRewriter(fields, excl))   # ONE rewriter sees many descriptors of one name
            res = rw.rewrite(rec)
            c["res"] = [W.project(res)]
            c["name_ok"] = res._desc.name == rec._desc.name and res._source == rec._source and res._generated == rec._generated
        except Exception as e:
            c["raised"], c["exc"] = True, type(e).__name__ + ":" + str(e)[:80]
        c["originals_unchanged"] = before == json.dumps(observe.obs_record(rec), sort_keys=True)
        cases.append(c)
        ctx.case(("project", json.dumps(shp), tuple(fields), tuple(excl)))
    ctx.sample({"case": cases[0]})
    ctx.sample({"case": [c for c in cases if c["op"] == "ts"][3]})
    path = os.path.join(common.scratch("c15"), "cases.json")
    tlc.write_json(path, cases)
    r = ctx.tlc("Trace_Compose", "Trace_Compose.cfg", f"{len(cases)} composition results", env={"TRACE_FILE": path})
    seen = set()
    for v in r.violations:
        cid = v["state"].get("cid")
        if cid is None:
            raise MachineryError(f"cannot attribute counter-example: {v}")
        if cid in seen:
            continue
        seen.add(cid)
        c = cases[cid - 1]
        ctx.violation({"check": "Contract", "op": c["op"], "replace": c["replace"], "raised": c["raised"],
                       "shape": json.dumps([[f["n"], f["t"]] for f in c["recs"][0]])}, {"case": c})
    ctx.count(len(cases), len(cases))
    ctx.extra["rule"] = "shapes over names {a,b,ts,ts_description} x types {datetime,string,varint}: seeded lists of 2-3 records for extend/merge/group, every ordered choice of <= 3 fields for timestamp expansion (sampled in quick), seeded replace/projection cases"
    return ctx.finish()
