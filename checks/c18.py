"""C18 -- SQLite export keeps every record, independent of batch size.

Specification: spec/Sqlite.tla (working vs committed state, commit points, schema evolution), checked
exhaustively by TLC.  Binding: (spec -> code) behaviours simulated by TLC from the specification, and
(code -> spec) seeded longer histories, are driven on the real SqliteWriter; after EVERY call an independent
sqlite3 connection observes tables, columns and visible row ids; TLC validates the recorded traces against
the specification (contract mode = verdict, design mode = drift).  At the end the database is read back with
SqliteReader and the values are compared per the type mapping the property states.
"""
import glob, json, os, sqlite3, datetime as dt

from vf import check, common, gen, observe, tlc, tlaval
from vf.common import MachineryError

PROP = "C18"
RESERVED = ("_source", "_classification", "_generated", "_version")
TBL = {"ta": "select/from", "tb": "Tb/x", "tc": "sqlitex/history", "tr": "rw/t"}
TABLE_OF = {"A": "ta", "Aplus": "ta", "Aplus2": "ta", "Aalt": "ta", "B": "tb", "C": "tc", "R": "tr"}


def descs():
    from flow.record import RecordDescriptor

    return {
        "A": RecordDescriptor("select/from", [("string", "a"), ("varint", "n")]),
        "Aplus": RecordDescriptor("select/from", [("string", "a"), ("varint", "n"), ("float", "extra")]),
        "Aplus2": RecordDescriptor("select/from", [("string", "a"), ("varint", "n"), ("float", "extra"), ("string", "extra2")]),
        "C": RecordDescriptor("sqlitex/history", [("string", "q")]),
        # a field literally called `rowid`: a valid field name, and SQLite's name for its implicit row id
        "R": RecordDescriptor("rw/t", [("varint", "rowid"), ("string", "q")]),
        "Aalt": RecordDescriptor("select/from", [("string", "a"), ("string", "alt")]),
        "B": RecordDescriptor("Tb/x", [("string", "q"), ("bytes", "b"), ("datetime", "ts"), ("path", "p"), ("net.ipaddress", "ip")]),
    }


def value_pool(rnd):
    vc = gen.value_classes()
    strs = [v for l, v in vc["string"] if l not in ("escape", "none", "len65535", "len65536")] + [None]
    # text that LOOKS like a number must stay that text (leading zeros, a plus sign, a trailing zero, an exponent, blanks)
    strs += ["42", "0042", "+31612345678", "3.10", "1e3", " 15", ".5", "-0", "1_000", "0x10", "Infinity", "NaN", "١٢٣"]
    ints = [v for l, v in vc["varint"] if v is None or -(2**63) <= v < 2**63]
    floats = [v for l, v in vc["float"] if v is None or (v == v and abs(v) != float("inf"))]
    # doubles at the ends of the exponent range with all 17 digits in use: a text detour (str -> SQLite's own text-to-real)
    # lands on a neighbouring double for some of them
    floats += [1.829402849984213e-298, 5e-324, 2.2250738585072014e-308, 2.225073858507201e-308, 1.7976931348623157e308, 8.98846567431158e307]
    import struct
    for _ in range(60):
        bits = (rnd.choice([rnd.randint(1, 60), rnd.randint(1990, 2046)]) << 52) | rnd.getrandbits(52) | (rnd.getrandbits(1) << 63)
        floats.append(struct.unpack(">d", struct.pack(">Q", bits))[0])
    byts = [v for l, v in vc["bytes"] if l != "len65536"]
    dts = [v for l, v in vc["datetime"]]
    paths = [v for l, v in vc["path"] if l not in ("escape",)]
    ips = [v for l, v in vc["net.ipaddress"]]
    return dict(s=strs, i=ints, f=floats, b=byts, d=dts, p=paths, ip=ips)


def make(DESC, d, pool, rnd, rid):
    c = rnd.choice
    kw = dict(_source=str(rid), _generated=gen.GEN)
    if d == "A":
        return DESC[d](c(pool["s"]), c(pool["i"]), **kw)
    if d == "Aplus":
        return DESC[d](c(pool["s"]), c(pool["i"]), c(pool["f"]), **kw)
    if d == "Aplus2":
        return DESC[d](c(pool["s"]), c(pool["i"]), c(pool["f"]), c(pool["s"]), **kw)
    if d == "C":
        return DESC[d](c(pool["s"]), **kw)
    if d == "R":
        return DESC[d](c([None, 0, -5, 3, 3, 7, 1, 1, 2**40, -(2**63)]), c(pool["s"]), **kw)
    if d == "Aalt":
        return DESC[d](c(pool["s"]), c(pool["s"]), **kw)
    return DESC[d](c(pool["s"]), c(pool["b"]), c(pool["d"]), c(pool["p"]), c(pool["ip"]), **kw)


def observe_db(obs):
    ccols, crows = {}, {}
    for t, name in TBL.items():
        q = name.replace('"', '""')
        cols = [r[1] for r in obs.execute(f'PRAGMA table_info("{q}")').fetchall()]
        ccols[t] = [c for c in cols if c not in RESERVED]
        rows = []
        if cols:
            for r in obs.execute(f'SELECT _source FROM "{q}" ORDER BY _rowid_').fetchall():
                try:
                    rows.append(int(r[0]))
                except Exception:
                    rows.append(-1)
        crows[t] = rows
    return ccols, crows


def expected_readback(rec, fname, ftype):
    """what C18 promises for one field after reading the database back (None = not pinned)"""
    v = getattr(rec, fname)
    if v is None:
        return ("none",)
    if ftype in ("string", "varint", "float", "bytes"):
        return ("obs", json.dumps(observe.obs_value(v), sort_keys=True))
    if ftype == "datetime":
        o = observe.obs_value(v)
        return ("dt", json.dumps({k: o[k] for k in ("wall", "offset_s", "offset_us")}, sort_keys=True))
    return ("text", str(v))


def got_readback(val, ftype):
    if val is None:
        return ("none",)
    if ftype in ("string", "varint", "float", "bytes"):
        return ("obs", json.dumps(observe.obs_value(val), sort_keys=True))
    if ftype == "datetime":
        o = observe.obs_value(val)
        return ("dt", json.dumps({k: o.get(k) for k in ("wall", "offset_s", "offset_us")}, sort_keys=True))
    return ("text", str(val))


def norm_obs(t):
    # class names differ (fieldtypes.string vs str are both fine): compare kind + payload only
    if t[0] != "obs":
        return t
    o = json.loads(t[1])
    o.pop("cls", None)
    if o.get("k") == "float" and o.get("bits") == "8000000000000000":
        o["bits"] = "0000000000000000"  # C18 promises the same VALUE; SQLite stores -0.0 as 0.0 and -0.0 == 0.0
    return ("obs", json.dumps(o, sort_keys=True))


def run_history(DESC, hist, tmp, rnd, pool, detail=None):
    """hist = (batch, [("write", d) | ("flush",) | ("close",)]) -> trace"""
    from flow.record.adapter.sqlite import SqliteWriter, SqliteReader

    batch, ops = hist
    p = os.path.join(tmp, "x.sqlite")
    for f in glob.glob(p + "*"):
        os.remove(f)
    w = SqliteWriter(p, batch_size=batch)
    obs = sqlite3.connect(p, timeout=0.5)
    last_seen = ({t: [] for t in TBL}, {t: [] for t in TBL})
    tr = [{"op": "open", "batch": batch}]
    written = {t: [] for t in TBL}
    rid = 0
    closed = False
    for op in ops:
        ev = {"op": op[0]}
        try:
            if op[0] == "write":
                rid += 1
                rec = make(DESC, op[1], pool, rnd, rid)
                ev["d"] = op[1]
                w.write(rec)
                written[TABLE_OF[op[1]]].append((rid, rec))
            elif op[0] == "badwrite":
                # a record SQLite refuses (an integer beyond 64 bits): write() raises, the caller skips it and carries on
                ev["d"] = op[1]
                bad = DESC[op[1]]("refused", 2 ** 70, _source="0", _generated=gen.GEN)
                try:
                    w.write(bad)
                    ev["exc"] = "accepted"          # (then it would have to be counted: the model has no such step)
                except Exception:
                    pass
            elif op[0] == "flush":
                w.flush()
            elif op[0] == "reopen":
                w = SqliteWriter(p, batch_size=batch)        # a new writer session on the same database file
                closed = False
            else:
                w.close()
                closed = True
        except Exception as e:
            ev["exc"] = type(e).__name__
        try:
            last_seen = observe_db(obs)
        except sqlite3.OperationalError:
            ev["observer_locked_out"] = True        # the writer holds the file: another connection sees nothing new (and nothing less)
        ev["ccols"], ev["crows"] = last_seen
        tr.append(ev)
    obs.close()
    if not closed:
        try:
            w.close()
        except Exception:
            pass
        return tr, None
    # read back with the library's reader
    rows = {t: [] for t in TBL}
    values_ok, cols_ok, why = True, True, None
    try:
        rd = SqliteReader(p)
        got = list(rd)
        rd.con.close()
        bytable = {t: [] for t in TBL}
        for r in got:
            t = {v: k for k, v in TBL.items()}.get(r._desc.name)
            if t is None:
                values_ok, why = False, f"unexpected table {r._desc.name}"
                continue
            bytable[t].append(r)
        for t in TBL:
            for r in bytable[t]:
                try:
                    rows[t].append(int(r._source))
                except Exception:
                    rows[t].append(-1)
            for (rid_, rec), back in zip(written[t], bytable[t]):
                for ftype, fname in rec._desc.get_field_tuples():
                    if not hasattr(back, fname):
                        cols_ok, why = False, f"column {fname} missing on read back"
                        continue
                    e, g = norm_obs(expected_readback(rec, fname, ftype)), norm_obs(got_readback(getattr(back, fname), ftype))
                    if e != g:
                        values_ok = False
                        why = {"field": fname, "type": ftype, "written": repr(getattr(rec, fname))[:80], "expected": e[1][:120] if len(e) > 1 else e, "got": g[1][:120] if len(g) > 1 else g}
    except Exception as e:
        values_ok, why = False, "reader raised " + type(e).__name__ + ": " + str(e)[:100]
    tr.append({"op": "read", "rows": rows, "values_ok": values_ok, "cols_ok": cols_ok, "why": why})
    return tr, why


CRASH_CHILD = r'''
import json, os, sqlite3, sys
sys.path.insert(0, sys.argv[1])
from flow.record import RecordDescriptor
from flow.record.adapter.sqlite import SqliteWriter
path, batch, npend, payload = sys.argv[2], int(sys.argv[3]), int(sys.argv[4]), int(sys.argv[5])
A = RecordDescriptor("select/from", [("string", "a"), ("varint", "n")])
def look():
    con = sqlite3.connect(path, timeout=0.3)
    try:
        return [int(r[0]) for r in con.execute('SELECT _source FROM "select/from" ORDER BY _rowid_')]
    except sqlite3.OperationalError:
        return out[-1]          # the writer holds the file exclusively (it has spilled pages): nobody can see anything new
    finally:
        con.close()
out = []
w = SqliteWriter(path, batch_size=batch)
for i in range(1, batch + 1):
    w.write(A("c" * 50, i, _source=str(i)))
out.append(look())
w.close()
out.append(look())
w = SqliteWriter(path, batch_size=batch)                  # a new session; npend < batch: its batch never completes
for i in range(batch + 1, batch + npend + 1):
    w.write(A("p" * payload, i, _source=str(i)))
out.append(look())
sys.stdout.write(json.dumps(out) + "\n")
sys.stdout.flush()
os._exit(42)                                            # the process dies: no close, no commit
'''


def crash_trace(tmp, batch, npend, payload):
    """one committed batch, then a writer that dies in the middle of a batch large enough for SQLite to have spilled part of
    it to the file -> trace for Trace_Sqlite (aggregated `writes` events; the last observation is taken after the death)"""
    import subprocess, sys

    p = os.path.join(tmp, "crash.sqlite")
    for f in glob.glob(p + "*"):
        os.remove(f)
    pr = subprocess.run(["/venv/bin/python", "-c", CRASH_CHILD, os.path.realpath(common.REPO), p, str(batch), str(npend), str(payload)], stdout=subprocess.PIPE, stderr=subprocess.PIPE, text=True, timeout=600)
    if pr.returncode != 42:
        raise MachineryError(f"crash child failed: rc={pr.returncode} {pr.stderr[-300:]}")
    looks = json.loads(pr.stdout.strip().splitlines()[-1])
    obs = sqlite3.connect(p)
    after = observe_db(obs)
    obs.close()
    cols = {t: [] for t in TBL}
    cols["ta"] = ["a", "n"]

    def ev(op, rows_ta, **kw):
        return dict({"op": op, "ccols": cols, "crows": dict({t: [] for t in TBL}, ta=rows_ta)}, **kw)

    return [{"op": "open", "batch": batch}, ev("writes", looks[0], d="A", n=batch), ev("close", looks[1]), ev("reopen", looks[1]),
            ev("writes", looks[2], d="A", n=npend),
            {"op": "crash", "ccols": after[0], "crows": after[1]}]


def locked_close_trace(DESC, tmp, rnd, pool, nwrites, batch):
    """the final commit inside close() cannot be made (another connection is in the middle of reading the table): close()
    raises and may be called again once the reader is done -- or it returns, and then everything is committed"""
    from flow.record.adapter.sqlite import SqliteWriter

    p = os.path.join(tmp, "locked.sqlite")
    for f in glob.glob(p + "*"):
        os.remove(f)
    w = SqliteWriter(p, batch_size=batch)
    w.con.execute("PRAGMA busy_timeout = 300")          # (the writer's own connection: do not wait five seconds for the reader)
    obs = sqlite3.connect(p, timeout=0.2)
    last = [({t: [] for t in TBL}, {t: [] for t in TBL})]

    def look():
        try:
            last[0] = observe_db(obs)
        except sqlite3.OperationalError:
            pass                      # the writer holds the file: nobody can see anything new
        return last[0]

    tr = [{"op": "open", "batch": batch}]
    for i in range(1, nwrites + 1):
        w.write(make(DESC, "A", pool, rnd, i))
        cc, cr = look()
        tr.append({"op": "write", "d": "A", "ccols": cc, "crows": cr})
    reader = sqlite3.connect(p)
    cur = reader.execute('SELECT * FROM "select/from"')           # an unfinished SELECT: the reader holds its lock on the file
    cur.fetchone()
    first_raised = False
    try:
        w.close()
    except Exception:
        first_raised = True
    cur.close()
    reader.close()
    if first_raised:
        cc, cr = look()
        tr.append({"op": "closefail", "ccols": cc, "crows": cr})
        try:
            w.close()                                             # the application tries again
        except Exception:
            pass
    cc, cr = look()
    tr.append({"op": "close", "ccols": cc, "crows": cr})
    obs.close()
    return tr


def simulate(ctx, n, depth):
    d = common.scratch("c18sim")
    tlc.run("Sqlite", "Sim_Sqlite.cfg", simulate=f"file={d}/tr,num={n}", depth=depth, workers=1, seed=ctx.seed + 1, cont=False)
    hists = []
    for fn in sorted(glob.glob(os.path.join(d, "tr_*"))):
        beh = tlaval.parse_behaviour(open(fn).read())
        os.remove(fn)
        if not beh:
            continue
        batch, ops = None, []
        for name, args, st in beh:
            if name == "Init":
                batch = st["batch"]
            elif name == "Write":
                ops.append(("write", args[0]))
            elif name == "FailedWrite":
                ops.append(("badwrite", "A"))
            elif name == "Flush":
                ops.append(("flush",))
            elif name == "Close":
                ops.append(("close",))
            elif name == "Reopen":
                ops.append(("reopen",))
        if batch is not None and ops:
            if ops[-1][0] != "close":
                ops.append(("close",))
            hists.append((batch, ops))
    if len(hists) < n // 2:
        raise MachineryError(f"simulation produced only {len(hists)} behaviours")
    return hists


def random_hist(rnd, maxlen, maxbatch):
    ops = []
    sessions = 1
    for _ in range(rnd.randint(1, maxlen)):
        x = rnd.random()
        if x > 0.95 and sessions < 4:
            ops += [("close",), ("reopen",)]                 # the next writes go through a new writer on the same file
            sessions += 1
            continue
        ops.append(("flush",) if x < 0.12 else ("badwrite", "A") if x < 0.2 else ("write", rnd.choice(["A", "A", "Aplus", "Aplus2", "Aalt", "B", "C", "R"])))
    ops.append(("close",))
    return (rnd.randint(1, maxbatch), ops)


def hist_key(h):
    return f"batch={h[0]} " + " ".join(o[0][0] + (":" + o[1] if len(o) > 1 else "") for o in h[1])


def run(tier):
    ctx = check.Ctx(PROP, tier)
    thorough = tier == "thorough"
    ctx.design("Sqlite", "MC_Sqlite.cfg" if thorough else "MC_Sqlite_quick.cfg", "exhaustive: 6 descriptors (four share a table), <=" + ("6" if thorough else "5") + " writes, batch 1..4, flush/close anywhere, <=2 writer sessions on the file",
               actions=("Write", "FailedWrite", "Flush", "Close", "Reopen", "Crash"), workers=8)
    ctx.sensitivity("Sqlite", "MC_Sqlite_dev_CrashKeepsSpilledPages.cfg", "spilled pages that survive the writer's death must violate AtBoundary", "AtBoundary", workers=4)
    ctx.sensitivity("Sqlite", "MC_Sqlite_dev_SessionSkipsEvolution.cfg", "a later session that does not add columns to an existing table must violate OneColumnPerField", "OneColumnPerField", workers=4)
    if thorough:
        from vf import apalache

        apalache.inductive(ctx, "SqliteCount", "unbounded: counter abstraction of the commit behaviour, every batch size >= 1, every history incl. sessions and a crash")
        ctx.sensitivity("Sqlite", "MC_Sqlite_dev_CloseNoCommit.cfg", "close without commit must violate ClosedCommitted", "ClosedCommitted", workers=4)
        ctx.sensitivity("Sqlite", "MC_Sqlite_dev_CommitOffByOne.cfg", "batch test off by one must violate AtBoundary", "AtBoundary", workers=4)
        ctx.sensitivity("Sqlite", "MC_Sqlite_dev_NoColumnEvolution.cfg", "no column evolution must violate OneColumnPerField", "OneColumnPerField", workers=4)
    DESC = descs()
    pool = value_pool(ctx.rnd)
    tmp = common.scratch("c18db")
    hists = simulate(ctx, 250 if not thorough else 3000, 18)
    nsim = len(hists)
    for _ in range(250 if not thorough else 3000):
        hists.append(random_hist(ctx.rnd, 40 if not thorough else 120, 9))
    # batch-independence: the same op sequence under every batch size 1..6 must end in the same database
    base = random_hist(ctx.rnd, 25, 1)[1]
    for b in range(1, 7):
        hists.append((b, base))
    # the documented corner: a table created by one session has to grow in the next one
    for order in (["A", "Aplus"], ["Aplus", "A", "Aplus2"], ["A", "Aalt"], ["R", "R"]):
        ops = []
        for d in order:
            ops += [("write", d), ("write", d), ("close",), ("reopen",)]
        hists.append((2, ops[:-1]))
    traces, whys = [], []
    for h in hists:
        tr, why = run_history(DESC, h, tmp, ctx.rnd, pool)
        traces.append(tr)
        whys.append(why)
        ctx.case(hist_key(h))
    # the final commit of close() meets a file that is locked by a reader
    for nwrites, batch in ((3, 10), (7, 5)):
        traces.append(locked_close_trace(DESC, tmp, ctx.rnd, pool, nwrites, batch))
        whys.append(None)
        hists.append((batch, [("locked-close", f"{nwrites} writes, then close() while another connection reads")]))
        ctx.case(("locked-close", nwrites, batch))
    # the writer DIES in the middle of a batch (small: nothing spilled yet; large: beyond SQLite's page cache)
    for batch, npend, payload in ((5, 3, 10), (20000, 15000, 200)) + (((50000, 40000, 200), (20000, 15000, 1000)) if thorough else ()):
        traces.append(crash_trace(tmp, batch, npend, payload))
        whys.append(None)
        hists.append((batch, [("write", "A")] * 0 + [("crash-after", f"{batch} committed + {npend} pending records of {payload} bytes")]))
        ctx.case(("crash", batch, npend, payload))
    ctx.sample({"history": hist_key(hists[0]), "trace": traces[0]})
    path = os.path.join(common.scratch("c18"), "traces.json")
    tlc.write_json(path, traces)
    nev = sum(len(t) - 1 for t in traces)
    r = ctx.tlc("Trace_Sqlite", "Trace_Sqlite_contract.cfg", f"trace validation, contract mode ({nsim} TLC-simulated + {len(hists)-nsim} seeded histories)", env={"TRACE_FILE": path})
    bad = set()
    for v in r.violations:
        tid = v["state"].get("tid")
        if tid is None:
            raise MachineryError(f"cannot attribute counter-example: {v}")
        if tid in bad:
            continue
        bad.add(tid)
        l = v["state"].get("l", 2)
        tr = traces[tid - 1]
        ev = tr[l - 2] if 0 <= l - 2 < len(tr) else None
        key = {"check": v["inv"], "op": ev.get("op") if ev else None}
        if v["inv"] == "CReadBack" and whys[tid - 1]:
            w = whys[tid - 1]
            key["why"] = w if isinstance(w, str) else {k: w[k] for k in ("field", "type")}
        ctx.violation(key, {"history": hist_key(hists[tid - 1]), "failing_event": ev, "why": whys[tid - 1], "visible_before": {k: v["state"].get(k) for k in ("crows", "rows", "bounds", "nw")}})
    rd = ctx.tlc("Trace_Sqlite", "Trace_Sqlite_design.cfg", "trace validation, design mode", env={"TRACE_FILE": path})
    drift = {v["state"].get("tid") for v in rd.violations if v["inv"] == "NotStuck"} - bad
    for t in sorted(drift)[:3]:
        print(f"MODEL-DRIFT property={PROP} history={hist_key(hists[t-1])!r}: commit points differ from Sqlite.tla (contract still satisfied)")
    if drift:
        ctx.note(f"model drift on {len(drift)} traces")
    ctx.count(len(traces), nev)
    ctx.extra["rule"] = "histories = TLC-simulated behaviours of Sqlite.tla + seeded random op sequences (write A/Aplus/Aplus2/Aalt/B/C, flush, close) with batch sizes 1..9; distinct = distinct (batch, op sequence)"
    ctx.extra["simulated_behaviours_replayed"] = nsim
    ctx.assumptions += ["values restricted to what the property names as SQLite-mappable: valid-UTF-8 text, 64-bit integers, finite floats, bytes, timestamps; other types compared by text form",
                        "one writer per database"]
    return ctx.finish()
