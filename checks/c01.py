"""C01 -- record stream round-trip preserves every record exactly.

Specification: spec/Codec.tla (per field type the abstract value classes of the encoding's case analysis, Enc / Dec
and the RoundTrip lemma, checked by TLC; with the deviation FamilyFromMagnitude TLC yields the '::1' counter-example)
and spec/Trace_Codec.tla.  Binding: every whitelisted serialisable field type in scalar and typed-list form x every
value class (None, empty, boundaries of the msgpack length / integer classes, extremes, escapes, flavours, families)
is written through the low-level writer on a file object and through the path-based writer, read back through both,
and compared by DEEP OBSERVATION (concrete class, bit pattern, code points, wall clock + offset, flavour, family,
list order, unset vs empty); TLC checks identity and that the class read back is the class written.  Generated
record sequences mixing descriptors, nested and grouped records are checked for count, order and identity.
"""
import json, os

from vf import check, codecdrv as cd, common, tlc
from vf.common import MachineryError

PROP = "C01"


def report(ctx, r, cases, metas, inv_names, prop):
    seen = set()
    for v in r.violations:
        cid = v["state"].get("cid")
        if cid is None:
            raise MachineryError(f"cannot attribute counter-example: {v}")
        if (cid, v["inv"]) in seen:
            continue
        seen.add((cid, v["inv"]))
        c = cases[cid - 1]
        if c["kind"] == "value":
            key = {"check": v["inv"], "type": c["T"] + ("[]" if c["islist"] else ""), "class": c["label"], "via": c["via"]}
            detail = {k: c[k] for k in ("cs", "out", "identical", "tree", "hash_ok", "ref_decode_ok", "impl_decodes_ref_ok", "frame_is_record", "exc")}
        else:
            key = {"check": v["inv"], "kind": "stream", "via": c["via"]}
            detail = {k: c[k] for k in ("n_written", "n_read", "order_ok", "all_identical", "hash_ok", "ref_decode_ok", "exc")}
        ctx.violation(key, detail)


def run(tier):
    ctx = check.Ctx(PROP, tier)
    thorough = tier == "thorough"
    ctx.design("Codec", "MC_Codec.cfg", "RoundTrip over every field type x abstract value class of the encoding's case analysis", workers=4)
    ctx.sensitivity("Codec", "MC_Codec_dev_family.cfg", "IPv6 below 2^32 packed as an integer must violate RoundTrip", "RoundTrip", workers=4)
    tmp = common.scratch("c01")
    cases, metas = cd.value_cases(ctx.rnd, thorough, tmp)
    scases = cd.stream_cases(ctx.rnd, 25 if not thorough else 400, tmp)
    allc = cases + scases
    for c in cases:
        ctx.case((c["T"], c["islist"], c["label"], c["via"]))
    for i, c in enumerate(scases):
        ctx.case(("stream", i))
    ctx.sample({k: cases[10][k] for k in ("T", "islist", "cs", "label", "via", "identical", "out", "tree")})
    ctx.sample({k: scases[0][k] for k in ("via", "n_written", "n_read", "all_identical")})
    path = os.path.join(common.scratch("c01t"), "cases.json")
    tlc.write_json(path, allc)
    r = ctx.tlc("Trace_Codec", "Trace_Codec_c01.cfg", f"{len(cases)} value cases + {len(scases)} stream cases", env={"TRACE_FILE": path}, workers=8)
    report(ctx, r, allc, metas, ("RoundTripC01",), PROP)
    ctx.count(len(allc), len(allc))
    ctx.extra["classes_per_type"] = {t: len({c["label"] for c in cases if c["T"] == t}) for t in sorted({c["T"] for c in cases})}
    ctx.extra["rule"] = "one case per (field type, scalar/list form, value class, writer path); sequences: seeded record streams over 5 descriptors incl. nested, record[] and grouped records through low-level, path and gzip path"
    ctx.assumptions += ["identity inside one abstract class is established on the listed representatives (boundaries are classes of their own)",
                        "timestamp identity = wall clock fields + UTC offset (fold is not part of the instant once the offset is fixed)"]
    return ctx.finish()
