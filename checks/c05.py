"""C05 -- record fields always hold values of their declared type.

Specification: spec/Slots.tla (a field as a typed slot; candidates are 'accept' / 'reject' / 'unspecified' by
the acceptance table; TLC checks SlotsTyped and FailedAssignIsNoOp over all histories <= 4) and
spec/Trace_Slots.tla.  Binding: for every field type (scalar and list form) operation histories of
construct / assign / replace-style copy with candidates of every class are replayed on real records; after
every operation the slot's concrete class is observed; the record is finally serialised (binary, JSON) and
decoded; TLC validates the traces.
"""
import copy, datetime as dt, itertools, json, os

from vf import check, common, gen, observe, refcodec as rc, tlc
from vf.common import MachineryError

PROP = "C05"


def rejects():
    """candidates the property NAMES as unrepresentable (must raise, must change nothing)"""
    import flow.record.fieldtypes as ft

    R = _rejects()
    # unrepresentable values that arrive as instances of ANOTHER field type (copied from another record)
    R["uint16"] += [("uint32_instance_over", ft.uint32(70000)), ("varint_instance_over", ft.varint(70000))]
    R["net.tcp.Port"] += [("uint32_instance_over", ft.uint32(70000))]
    R["uint32"] += [("varint_instance_over", ft.varint(2**40)), ("filesize_instance_neg", ft.filesize(-5))]
    R["boolean"] += [("uint16_instance_two", ft.uint16(2))]
    # numbers outside the range that are not whole (truncating them first would land on 0 or on the maximum)
    R["uint16"] += [("frac_below_zero", -0.5), ("frac_above_max", 65535.5)]
    R["uint32"] += [("frac_below_zero", -0.25), ("frac_above_max", 4294967295.5)]
    # the decimal TEXT of an integer that is a valid address is not an address
    R["net.ipaddress"] += [("digit_text_of_valid_int", "16909060"), ("digit_text_of_valid_int6", str(2**100))]
    # standard-library objects that are NOT addresses / networks although they subclass or resemble them
    import ipaddress as _ip

    R["net.ipaddress"] += [("interface_object", _ip.ip_interface("192.168.1.10/24")), ("interface6_object", _ip.ip_interface("2001:db8::1/64")), ("network_object", _ip.ip_network("10.0.0.0/8"))]
    R["net.IPAddress"] += [("interface_object", _ip.ip_interface("192.168.1.10/24"))]
    R["net.ipnetwork"] += [("interface_with_host_bits", _ip.ip_interface("10.0.0.1/8"))]
    return R


# (valid value, malformed twin): the twin is offered right after the valid value went through the same field type
TWINS = {"net.ipaddress": [(16909060, "16909060"), (2**100, str(2**100))], "net.IPAddress": [(16909060, "16909060")]}


def _rejects():
    return {
        "uint16": [("neg", -1), ("over", 0x10000), ("bigover", 2**40)],
        "uint32": [("neg", -1), ("over", 0x100000000)],
        "net.tcp.Port": [("neg", -1), ("over", 65536)],
        "net.udp.Port": [("over", 70000)],
        "boolean": [("two", 2), ("neg", -1), ("big", 255)],
        "digest": [("badhex", ("zz", None, None)), ("shortmd5", ("abcd", None, None)), ("shortsha1", (None, "abcd", None)), ("longsha256", (None, None, "00" * 40)),
                   # the right number of hex digits plus white space (an unstripped line of a checksum file, a hash printed in groups)
                   ("md5_trailing_newline", (gen.MD5 + "\n", None, None)), ("md5_trailing_crlf", (gen.MD5 + "\r\n", None, None)), ("md5_leading_blank", (" " + gen.MD5, None, None)),
                   ("md5_inner_tab", (gen.MD5[:16] + "\t" + gen.MD5[16:], None, None)), ("sha1_grouped", (None, " ".join(["ab" * 4] * 5), None)),
                   ("sha256_trailing_newline", (None, None, "ab" * 32 + "\n")), ("md5_odd", (gen.MD5[:-1], None, None)), ("md5_0x", ("0x" + gen.MD5[2:], None, None))],
        "net.ipaddress": [("octet", "999.1.1.1"), ("text", "not an address"), ("toolong", "1.2.3.4.5"), ("neg", -1), ("huge", 2**128)],
        "net.ipnetwork": [("text", "not a network"), ("hostbits", "10.0.0.1/8"), ("prefix", "10.0.0.0/40")],
        "net.IPAddress": [("text", "nonsense")],
        "bytes": [("text", "text"), ("int", 5), ("list", [1, 2]), ("bytearray", bytearray(b"ab")), ("memoryview", memoryview(b"ab"))],
    }


def unspecified():
    o = object()
    return {
        "string": [("int", 5), ("list", ["a"]), ("lone_surrogate", "\ud800")],
        "varint": [("text", "12"), ("float", 1.5), ("nontext", "abc"), ("list", [1])],
        "uint16": [("float", 1.5), ("text", "7"), ("nontext", "abc")],
        "uint32": [("float", 2.5)],
        "boolean": [("float", 0.5), ("text", "yes")],
        "float": [("text", "1.5"), ("nontext", "abc"), ("int", 3)],
        "datetime": [("isotext", "2020-01-01T00:00:00"), ("epoch", 0), ("bytes", b"2020-01-01T00:00:00+00:00"), ("garbage", "not a date"), ("object", None)],
        "digest": [("text", "abc"), ("int", 0), ("dict", {"md5": gen.MD5})],
        "path": [("int", 5), ("bytes", b"/a")],
        "command": [("int", 5), ("list", ["ls", "-l"]), ("unbalanced_quote", 'sh -c "echo hello'), ("blank", "   "), ("empty", "")],
        "uri": [("int", 5)],
        "net.ipaddress": [("int", 16909060), ("bytes4", b"\x01\x02\x03\x04")],
        "stringlist": [("text", "ab"), ("int", 5)],
        "dictlist": [("text", "ab")],
        "dynamic": [("float", 1.5), ("object", "OBJECT")],
        "filesize": [("neg", -1), ("text", "10")],
        "wstring": [("bytes", b"\xffab")],
    }


def conversions():
    """input the property says is CONVERTED on the way in: accepted, and the result is of the declared type"""
    return {
        "datetime": [("naive", dt.datetime(2020, 1, 1, 1, 1, 1))],
        "string": [("bytes_escape", b"ab\xff")],
        "varint": [("bool", True)],
    }


def convert_cases(_arg):
    """The conversions the property names, with their RESULT (not only its type): bytes -> text is UTF-8 with surrogate
    escapes whatever the process's locale, a naive timestamp is taken as UTC whatever the process's time zone.
    Runs in the calling process; the check calls it in fresh interpreters under other LC_ALL / TZ settings."""
    from flow.record import RecordDescriptor

    D = RecordDescriptor("t/conv", [("string", "s"), ("string[]", "sl"), ("datetime", "ts"), ("datetime[]", "tl")])
    texts = [("utf8_bytes", b"caf\xc3\xa9 \xe4\xb8\xad", "caf\u00e9 \u4e2d"), ("escape_bytes", b"ab\xff", "ab\udcff"), ("ascii_bytes", b"plain", "plain")]
    naive = dt.datetime(2021, 7, 1, 12, 30, 15, 250)
    want_ts = [2021, 7, 1, 12, 30, 15, 250, 0]

    def ts_obs(v):
        return [v.year, v.month, v.day, v.hour, v.minute, v.second, v.microsecond, int(v.utcoffset().total_seconds()) if v.utcoffset() is not None else -1]

    traces = []
    for label, raw, want in texts:
        for how in ("construct", "assign", "replace", "list", "source"):
            ok, raised, exc = False, False, "none"
            try:
                if how == "construct":
                    got = str(D(s=raw).s)
                elif how == "assign":
                    r = D()
                    r.s = raw
                    got = str(r.s)
                elif how == "replace":
                    got = str(D()._replace(s=raw).s)
                elif how == "list":
                    got = str(D(sl=[raw]).sl[0])
                else:
                    got = str(D(_source=raw)._source)
                ok = [ord(ch) for ch in got] == [ord(ch) for ch in want]
            except Exception as e:
                raised, exc = True, type(e).__name__
            traces.append({"meta": {"type": "string", "history": [("convert:" + how, label, "accept")]},
                           "ops": [{"op": "convert", "cand": label + ":" + how, "must": "accept", "raised": raised, "exc": exc, "slot": "typed" if not raised else "unset", "changed": False, "conv_ok": ok}]})
    for how in ("construct", "assign", "replace", "list"):
        ok, raised, exc = False, False, "none"
        try:
            if how == "construct":
                got = D(ts=naive).ts
            elif how == "assign":
                r = D()
                r.ts = naive
                got = r.ts
            elif how == "replace":
                got = D()._replace(ts=naive).ts
            else:
                got = D(tl=[naive]).tl[0]
            ok = ts_obs(got) == want_ts
        except Exception as e:
            raised, exc = True, type(e).__name__
        traces.append({"meta": {"type": "datetime", "history": [("convert:" + how, "naive", "accept")]},
                       "ops": [{"op": "convert", "cand": "naive:" + how, "must": "accept", "raised": raised, "exc": exc, "slot": "typed" if not raised else "unset", "changed": False, "conv_ok": ok}]})
    return traces


def safe_obs(rec):
    """deep observation of a record; a value that cannot even be looked at (its own accessors raise) is reported as such"""
    try:
        return json.dumps(observe.obs_record(rec), sort_keys=True)
    except Exception as e:
        return "UNOBSERVABLE:" + type(e).__name__


def slot_state(rec, name, ftype_cls, islist):
    from flow.record.base import FieldType

    v = getattr(rec, name)
    if v is None:
        return "unset"
    if ftype_cls.__name__ == "dynamic":   # a union type: the value is of whichever field type its kind maps to
        return "typed" if isinstance(v, FieldType) else "foreign"
    if islist:
        if not isinstance(v, ftype_cls):
            return "foreign"
        if len(v) == 0:
            return "unset"
        return "typed" if all(isinstance(x, ftype_cls.__type__) for x in v) else "foreign"
    if not isinstance(v, ftype_cls):
        return "foreign"
    if type(v).__name__ == "digest" and v.md5 is None and v.sha1 is None and v.sha256 is None:
        return "unset"
    return "typed"


def run(tier):
    from flow.record import RecordDescriptor, RecordPacker
    from flow.record.base import fieldtype
    from flow.record.jsonpacker import JsonRecordPacker

    ctx = check.Ctx(PROP, tier)
    thorough = tier == "thorough"
    ctx.design("Slots", "MC_Slots.cfg", "all histories <= 4 over candidate classes accept / reject / unspecified(ok|refused) / None", actions=("Offer", "FillInPlace", "Fresh"), workers=4)
    if thorough:
        ctx.sensitivity("Slots", "MC_Slots_dev_store.cfg", "storing before converting must violate SlotsTyped", "SlotsTyped", workers=4)
        ctx.sensitivity("Slots", "MC_Slots_dev_shared.cfg", "one default object per record class must violate FreshStartsEmpty", "FreshStartsEmpty", workers=4)
        ctx.sensitivity("Slots", "MC_Slots_dev_range.cfg", "a missing range check must violate SlotsTyped", "SlotsTyped", workers=4)
    vc = gen.value_classes()
    REJ, UNS, CONV = rejects(), unspecified(), conversions()
    traces, metas = [], []
    Dother = RecordDescriptor("t/other_member", [("string", "o")])
    types = [(t, False) for t in vc] + [(t, True) for t in gen.LISTABLE]
    for t, islist in types:
        tn = t + ("[]" if islist else "")
        try:
            D = RecordDescriptor("t/" + gen.typename_slug(tn), [(tn, "f"), ("string", "g")])
            fcls = fieldtype(tn)
        except Exception as e:
            continue
        cands = []
        for label, v in vc[t]:
            if label in ("len65535", "len65536", "len256", "len255"):
                continue
            cands.append((label, v, "accept" if v is not None else "none"))
        cands += [(l, v, "accept") for l, v in CONV.get(t, [])]
        cands += [(l, v, "reject") for l, v in REJ.get(t, []) if v is not None]
        cands += [(l, (object() if v == "OBJECT" else v), "unspec") for l, v in UNS.get(t, []) if v is not None]
        if islist:
            # a list field: lists of candidates; one bad element makes the whole candidate bad
            good = [c for c in cands if c[2] == "accept"][:3]
            bad = [c for c in cands if c[2] == "reject"][:2]
            lc = [("list:" + l, [v, v], "accept") for l, v, m in good] + [("empty", [], "none"), ("none", None, "none")]
            lc += [("list-with-bad:" + l, [good[0][1], v], "reject") for l, v, m in bad if good]
            lc += [("scalar-instead-of-list", good[0][1], "unspec")] if good else []
            # a list that starts with an element ALREADY of the element type (taken from another record's field) and goes on
            # with raw / unrepresentable values -- `rec.ports = other.ports + [70000]`
            if good:
                try:
                    conv = list(D([good[0][1]], "x").f)
                except Exception:
                    conv = []
                if conv and isinstance(conv[0], fcls.__type__):
                    lc += [("list-converted-then-raw:" + l, conv + [v], "accept") for l, v, m in good[:2]]
                    lc += [("list-converted-then-bad:" + l, conv + [v], "reject") for l, v, m in bad]
                    lc += [("list-converted-bad-converted:" + l, conv + [v] + conv, "reject") for l, v, m in bad[:1]]
            cands = lc
        if not thorough and len(cands) > 9:
            keep = [c for c in cands if c[2] != "accept"] + [c for c in cands if c[2] == "accept"][:5]
            cands = keep[:16]
        ops_kinds = ["construct", "assign", "replace", "groupassign"]
        hist = []
        for c in cands:                                  # every candidate through every operation, on a fresh record
            for op in ops_kinds:
                hist.append([(op, c)])
        good = [c for c in cands if c[2] == "accept"][:2]
        for c in cands:                                  # and after a good value is in place (failed assign must keep it)
            for g in good:
                hist.append([("construct", g), ("assign", c), ("assign", g)])
                hist.append([("construct", g), ("groupassign", c)])
                hist.append([("construct", g), ("replace", c)])
        for good_v, twin in TWINS.get(t, []) if not islist else []:
            gc, tc = ("twin-valid", good_v, "unspec"), ("twin-malformed", twin, "reject")
            hist.append([("construct", gc), ("assign", tc)])
            hist.append([("construct", gc), ("replace", tc)])
            hist.append([("construct", gc), ("construct", tc)])
        # the empty default of a list / digest field filled IN PLACE on one record; then other records of the type built, copied
        # and decoded without a value for the field: each starts with the empty default
        if islist or t == "digest":
            goodv = next((c for c in cands if c[2] == "accept" and c[1]), None)
            if goodv is not None:
                for how in ("construct", "kwargs", "decode", "replace-other"):
                    hist.append([("construct", ("none", None, "none")), ("fill", goodv), ("fresh:" + how, ("none", None, "none"))])
        for h in hist:
            rec = None
            ops = []
            for op, (label, v, must) in h:
                try:
                    v = copy.deepcopy(v)
                except Exception:
                    v = list(v) if isinstance(v, list) else v      # some field-type instances cannot be deep-copied
                before = safe_obs(rec) if rec is not None else None
                raised, exc = False, "none"
                try:
                    if op == "fill":
                        if islist:
                            rec.f.append(D([v[0]], "x").f[0])          # an element already of the element type (in-place changes are not converted)
                        else:
                            rec.f.md5 = "d41d8cd98f00b204e9800998ecf8427e"
                    elif op.startswith("fresh:"):
                        how = op.split(":")[1]
                        if how == "construct":
                            rec = D(None, "y", _generated=gen.GEN)
                        elif how == "kwargs":
                            rec = D(g="y", _generated=gen.GEN)
                        elif how == "replace-other":
                            rec = D(g="z", _generated=gen.GEN)._replace(g="y")
                        else:
                            p0 = RecordPacker()
                            q0 = RecordPacker()
                            q0.register(q0.unpack(p0.pack(D)))
                            rec = q0.unpack(rc.record_frame(D.name, [tuple(x) for x in D.get_field_tuples()], [None, "y", None, None, rc.ext_datetime_utc(2020, 1, 2, 3, 4, 5, 6), 1])[4:])
                        op = "fresh"
                    elif op == "construct" or rec is None:
                        new = D(v, "x", _generated=gen.GEN)
                        rec = new
                    elif op == "assign":
                        rec.f = v
                    elif op == "groupassign":
                        # the same assignment made through a grouped record that holds the record
                        from flow.record import GroupedRecord

                        GroupedRecord("g/x", [rec, Dother("o", _generated=gen.GEN)]).f = v
                    else:
                        rec = rec._replace(f=v)
                except Exception as e:
                    raised, exc = True, type(e).__name__
                if rec is None:
                    ops.append({"op": op, "cand": label, "must": must if must != "none" else "accept", "raised": raised, "exc": exc, "slot": "unset", "changed": False})
                    continue
                after = safe_obs(rec)
                ops.append({"op": op, "cand": label, "must": must if must != "none" else "accept", "raised": raised, "exc": exc,
                            "slot": "foreign" if after.startswith("UNOBSERVABLE") else slot_state(rec, "f", fcls, islist), "changed": before is not None and after != before})
            fin = {"done": True, "all_accepted": rec is not None and not any(o["raised"] for o in ops), "packed": True, "decoded_typed": True, "why": "none"}
            if rec is not None and fin["all_accepted"]:
                try:
                    p = RecordPacker()
                    blob_desc = p.pack(rec._desc)
                    blob = p.pack(rec)
                    q = RecordPacker()
                    q.register(q.unpack(blob_desc))
                    back = q.unpack(blob)
                    fin["decoded_typed"] = slot_state(back, "f", fcls, islist) in ("unset", "typed")
                except Exception as e:
                    fin["packed"], fin["why"] = False, "binary:" + type(e).__name__
                if fin["packed"] and t not in ("dynamic", "net.ipv4.Address"):   # JSON output does not claim the deprecated address type
                    try:
                        JsonRecordPacker().pack(rec)
                    except Exception as e:
                        fin["packed"], fin["why"] = False, "json:" + type(e).__name__
            traces.append({"ops": ops, "fin": fin})
            metas.append({"type": tn, "history": [(op, c[0], c[2]) for op, c in h]})
            ctx.case(json.dumps(metas[-1]))
    # a typed list that sits in ANOTHER field (other element type) assigned to a list field: whatever the receiving field
    # makes of it, the list it was taken from keeps its elements
    Dsrc = RecordDescriptor("t/listsource", [("uint32[]", "big"), ("string[]", "texts"), ("varint[]", "ints"), ("string", "g")])
    for t in gen.LISTABLE:
        tn = t + "[]"
        try:
            Dl = RecordDescriptor("t/listdest_" + gen.typename_slug(tn), [(tn, "f"), ("string", "g")])
            fcls = fieldtype(tn)
        except Exception:
            continue
        for srcfield in ("big", "texts", "ints"):
            src = Dsrc([70000, 1], ["1.2.3.4", "/x"], [1, 2], "x", _generated=gen.GEN)
            rec = Dl(None, "x", _generated=gen.GEN)
            b_src, b_rec = safe_obs(src), safe_obs(rec)
            raised, exc = False, "none"
            try:
                rec.f = getattr(src, srcfield)
            except Exception as e:
                raised, exc = True, type(e).__name__
            after = safe_obs(rec)
            traces.append({"ops": [{"op": "assign_from", "cand": srcfield, "must": "unspec", "raised": raised, "exc": exc,
                                    "slot": "foreign" if after.startswith("UNOBSERVABLE") else slot_state(rec, "f", fcls, True), "changed": after != b_rec, "src_changed": safe_obs(src) != b_src}],
                           "fin": {"done": True, "all_accepted": False, "packed": True, "decoded_typed": True, "why": "none"}})
            metas.append({"type": tn, "history": [("assign_from", "list of " + srcfield, "unspec")]})
            ctx.case(json.dumps(metas[-1]))
    # DECODING: a record frame (built with the reference encoder) carries a value the field type cannot represent -- the
    # reader must refuse it; a frame carrying a representable value decodes to a typed slot
    import io

    from flow.record import RecordStreamReader

    MD5B, SHA1B, SHA256B = bytes(range(16)), bytes(range(20)), bytes(range(32))
    wire = {
        "uint16": [("over", 70000, "reject"), ("neg", -1, "reject"), ("ok", 65535, "accept")],
        "uint32": [("over", 2**32, "reject"), ("ok", 7, "accept")],
        "net.tcp.Port": [("over", 65536, "reject"), ("ok", 80, "accept")],
        "boolean": [("two", 2, "reject"), ("ok", True, "accept")],
        "digest": [("short_md5", [rc.Bin(b"abc"), None, None], "reject"), ("md5_in_sha256_slot", [None, None, rc.Bin(MD5B)], "reject"), ("long_sha1", [None, rc.Bin(SHA256B), None], "reject"),
                   ("ok", [rc.Bin(MD5B), rc.Bin(SHA1B), rc.Bin(SHA256B)], "accept")],
        "net.ipaddress": [("octet", "999.1.1.1", "reject"), ("neg", -1, "reject"), ("ok", 16909060, "accept")],
        "bytes": [("text", "text", "reject"), ("ok", rc.Bin(b"ab"), "accept")],
    }
    for T, cands in wire.items():
        fcls = fieldtype(T)
        for islist in (False, True):
            tn = T + ("[]" if islist else "")
            fcls = fieldtype(tn)
            name = "t/wire_" + gen.typename_slug(tn)
            fields = [(tn, "f"), ("string", "g")]
            for label, raw, must in cands:
                if islist and T == "digest":
                    continue
                val = [raw, raw] if islist else raw
                data = rc.header_frame() + rc.descriptor_frame(name, fields) + rc.record_frame(name, fields, [val, "x", None, None, rc.ext_datetime_utc(2020, 1, 2, 3, 4, 5, 6), 1])
                raised, exc, slot = False, "none", "unset"
                try:
                    back = list(RecordStreamReader(io.BytesIO(data)))
                    slot = slot_state(back[0], "f", fcls, islist) if safe_obs(back[0]).startswith("{") else "foreign"
                except Exception as e:
                    raised, exc = True, type(e).__name__
                traces.append({"ops": [{"op": "decode", "cand": label, "must": must, "raised": raised, "exc": exc, "slot": slot, "changed": False}],
                               "fin": {"done": True, "all_accepted": False, "packed": True, "decoded_typed": True, "why": "none"}})
                metas.append({"type": tn, "history": [("decode", label, must)]})
                ctx.case(json.dumps(metas[-1]))
    # CONVERSIONS with their result, in this process and in fresh ones under another locale / time zone
    for env in (None, {"LC_ALL": "C", "LANG": "C", "PYTHONUTF8": "0", "PYTHONCOERCECLOCALE": "0"}, {"TZ": "America/New_York"}, {"TZ": "Asia/Kolkata", "LC_ALL": "POSIX", "PYTHONUTF8": "0", "PYTHONCOERCECLOCALE": "0"}):
        got = convert_cases(None) if env is None else common.in_fresh_process("c05", "convert_cases", None, env)
        for tcase in got:
            m = tcase["meta"]
            m["env"] = env or {}
            m["history"] = [tuple(h) for h in m["history"]]
            traces.append({"ops": tcase["ops"], "fin": {"done": True, "all_accepted": False, "packed": True, "decoded_typed": True, "why": "none"}})
            metas.append(m)
            ctx.case(json.dumps(m, sort_keys=True))
    ctx.sample({"meta": metas[3], "trace": traces[3]})
    path = os.path.join(common.scratch("c05"), "traces.json")
    tlc.write_json(path, traces)
    r = ctx.tlc("Trace_Slots", "Trace_Slots.cfg", f"{len(traces)} operation histories", env={"TRACE_FILE": path})
    seen = set()
    for v in r.violations:
        tid = v["state"].get("tid")
        if tid is None:
            raise MachineryError(f"cannot attribute counter-example: {v}")
        l = v["state"].get("l", 1)
        m, tr = metas[tid - 1], traces[tid - 1]
        idx = min(max(l - 2, 0), len(tr["ops"]) - 1)
        ev = tr["ops"][idx]
        k = (tid, v["inv"])
        if k in seen:
            continue
        seen.add(k)
        key = {"check": v["inv"], "type": m["type"], "cand": ev["cand"], "op": ev["op"]}
        if v["inv"] == "Serialisable":
            key = {"check": v["inv"], "type": m["type"], "cands": sorted({h[1] for h in m["history"]}), "why": tr["fin"]["why"]}
        ctx.violation(key, {"meta": m, "trace": tr})
    ctx.count(len(traces), sum(len(t["ops"]) for t in traces))
    ctx.extra["rule"] = "per field type (scalar and typed-list form): every candidate (valid classes, named-unrepresentable values, unspecified wrong kinds, None) through construct / assign / replace on a fresh record and after a good value is in place; distinct = distinct (type, history)"
    ctx.assumptions += ["the must-reject set is read narrowly: exactly what the statement names (out-of-range unsigned, boolean not 0/1, malformed digest / address, non-bytes for bytes); everything else is 'unspecified' and only bound by SlotsTyped"]
    return ctx.finish()
