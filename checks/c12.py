"""C12 -- record equality and hashing obey the value-object contract.

Specification: spec/Record.tla (Eq: same descriptor and equal values outside the ignored fields),
spec/Ignore.tla (the ignored-fields configuration with its scoped override; TLC checks ScopeRestores for all
operation sequences <= 6, nesting <= 3, also on the error exit), spec/Trace_Equality.tla.
Binding: for every field type in scalar and list form pairs of real records -- a record and its independently
rebuilt copy, single-field variations, other descriptors, nested and grouped records -- are compared under
several ignored-field configurations; ==, !=, hash and set/dict membership are logged and TLC evaluates Eq on
the projected pair.  Scope operation sequences are replayed on the real context manager and validated as
traces.
"""
import copy, json, os

from vf import check, common, gen, observe, simulate, tlc
from vf.common import MachineryError

PROP = "C12"
RESERVED = ["_source", "_classification", "_generated", "_version"]


def okey(v):
    import datetime as _dt

    # timestamps are values by their INSTANT (Python's own equality and hash of aware datetimes): the offset a timestamp was
    # written with is not part of what record equality compares
    if isinstance(v, _dt.datetime) and v.tzinfo is not None and v.utcoffset() is not None:
        u = v.astimezone(_dt.timezone.utc)
        return json.dumps(["instant", u.toordinal(), u.hour, u.minute, u.second, u.microsecond])
    if isinstance(v, list) and any(isinstance(x, _dt.datetime) for x in v):
        return json.dumps(["list", [okey(x) for x in v]])
    o = observe.obs_value(v)

    def strip(x):
        if isinstance(x, dict):
            return {k: strip(y) for k, y in x.items() if k != "cls"}
        if isinstance(x, list):
            return [strip(y) for y in x]
        return x

    return json.dumps(strip(o), sort_keys=True)


class Ids:
    def __init__(self):
        self.m = {}

    def of(self, v):
        k = okey(v)
        if k not in self.m:
            self.m[k] = "v%d" % (len(self.m) + 1)
        return self.m[k]


def project(rec, ids):
    """real record -> (name, [{n, t, v}]) incl. reserved fields; grouped records are flattened member by member"""
    from flow.record import GroupedRecord

    if isinstance(rec, GroupedRecord):
        out = []
        for m in rec.records:
            out.append({"n": "<member>", "t": m._desc.name, "v": {"k": "id", "id": "-", "na": "-", "fs": [], "items": []}})
            out += project(m, ids)[1]
        return rec.name, out
    from flow.record import Record

    def val(v):
        if isinstance(v, Record) and not isinstance(v, GroupedRecord):
            na, fs = project(v, ids)
            return {"k": "rec", "id": "-", "na": na, "fs": fs, "items": []}
        if isinstance(v, list) and v and all(isinstance(x, Record) and not isinstance(x, GroupedRecord) for x in v):
            return {"k": "list", "id": "-", "na": "-", "fs": [], "items": [val(x) for x in v]}
        return {"k": "id", "id": ids.of(v), "na": "-", "fs": [], "items": []}

    out = []
    for name, f in rec._desc.get_all_fields().items():
        out.append({"n": name, "t": f.typename, "v": val(getattr(rec, name))})
    return rec._desc.name, out


def compare(a, b, ign, ids, setter):
    c = {"kind": "eq", "ign": sorted(ign), "raised": False, "exc": "none", "eq_ab": False, "eq_ba": False, "ne_ab": True, "eq_aa": False, "eq_bb": False, "hash_equal": False, "in_set": False}
    c["na"], c["a"] = project(a, ids)
    c["nb"], c["b"] = project(b, ids)
    try:
        # both records have already been hashed and compared under ANOTHER configuration (the empty one):
        # nothing cached then may leak into the result under `ign`
        setter(set())
        hash(a), hash(b), a == b
    except Exception:
        pass
    setter(ign)
    try:
        c["eq_ab"] = bool(a == b)
        c["eq_ba"] = bool(b == a)
        c["ne_ab"] = bool(a != b)
        c["eq_aa"] = bool(a == a)
        c["eq_bb"] = bool(b == copy.copy(b)) if False else bool(b == b)
        ha, hb = hash(a), hash(b)
        c["hash_equal"] = ha == hb
        c["in_set"] = (b in {a}) == c["eq_ab"] and ({a: 1}.get(b) == 1) == c["eq_ab"] if c["eq_ab"] else True
    except Exception as e:
        c["raised"], c["exc"] = True, type(e).__name__ + ":" + str(e)[:80]
    finally:
        setter(set())
    return c


def env_cases(arg):
    """Run in a NEW interpreter started with FLOW_RECORD_IGNORE=<arg>: the ignored-fields configuration comes from the
    environment; pairs are compared WITHOUT any call of the setter.  -> eq traces."""
    import flow.record.base as base
    from flow.record import GroupedRecord, RecordDescriptor

    ign = set(arg.split(",")) if arg else set()
    assert base.IGNORE_FIELDS_FOR_COMPARISON == ign, "FLOW_RECORD_IGNORE was not picked up"
    D = RecordDescriptor("t/env", [("string", "f"), ("string", "g"), ("varint", "n")])
    H = RecordDescriptor("t/envh", [("record", "r"), ("string", "g")])
    import datetime as _dt

    G1, G2 = gen.GEN, _dt.datetime(2021, 5, 6, 7, 8, 9, tzinfo=_dt.timezone.utc)
    pairs = [("same", D("a", "x", 1, _generated=G1), D("a", "x", 1, _generated=G1)), ("vary-g", D("a", "x", 1, _generated=G1), D("a", "y", 1, _generated=G1)),
             ("vary-f", D("a", "x", 1, _generated=G1), D("b", "x", 1, _generated=G1)), ("vary-generated", D("a", "x", 1, _generated=G1), D("a", "x", 1, _generated=G2)),
             ("vary-g-and-generated", D("a", "x", 1, _generated=G1), D("a", "y", 1, _generated=G2)),
             ("nested-vary-g", H(D("a", "x", 1, _generated=G1), "h", _generated=G1), H(D("a", "y", 1, _generated=G1), "h", _generated=G1)),
             ("grouped-vary-g", GroupedRecord("g/e", [D("a", "x", 1, _generated=G1), H(None, "h", _generated=G1)]), GroupedRecord("g/e", [D("a", "x", 1, _generated=G1), H(None, "other", _generated=G1)]))]
    out = []
    noop = lambda s: None      # the configuration is NOT touched
    for label, a, b in pairs:
        c = compare(a, b, ign, Ids(), noop)
        c["env"], c["pair"] = arg, label
        out.append(c)
    return out


def env_scope_cases(arg):
    """Run in a NEW interpreter started with FLOW_RECORD_IGNORE=<arg> (round g): scope histories that START from the
    configuration taken from the environment -- in particular ones that first CLEAR it with the setter -- so that a scope
    which falls back to the process default instead of what was in force when it was entered is seen.  -> scope traces."""
    import random

    import flow.record.base as base
    from flow.record import ignore_fields_for_comparison, set_ignored_fields_for_comparison as setter

    env = sorted(set(arg.split(","))) if arg else []
    assert sorted(base.IGNORE_FIELDS_FOR_COMPARISON) == env, "FLOW_RECORD_IGNORE was not picked up"
    sets = [[], ["a"], ["a", "b"], ["_generated"]]
    fixed = [[("set", []), ("enter", ["a"]), ("exit_ok", [])], [("set", []), ("enter", ["a"]), ("exit_err", [])], [("enter", ["a"]), ("exit_ok", [])],
             [("enter", []), ("exit_err", [])], [("set", []), ("enter", []), ("exit_ok", [])], [("set", ["b"]), ("enter", ["a"]), ("set", []), ("exit_ok", [])],
             [("set", []), ("enter", ["a"]), ("enter", []), ("exit_err", []), ("exit_ok", [])]]
    rnd = random.Random(len(arg))
    plans = fixed + [[(rnd.choice(["set", "enter", "enter", "exit_ok", "exit_err"]), rnd.choice(sets)) for _ in range(rnd.randint(2, 7))] for _ in range(25)]
    out = []
    for plan in plans:
        setter(list(env))          # back to what the environment gave (init of the trace)
        ops, cms = [], []
        for kind, a in plan:
            if kind in ("exit_ok", "exit_err") and not cms:
                kind = "enter"
            try:
                if kind == "set":
                    setter(list(a))
                elif kind == "enter":
                    cm = ignore_fields_for_comparison(list(a))
                    cm.__enter__()
                    cms.append(cm)
                elif kind == "exit_ok":
                    cms.pop().__exit__(None, None, None)
                else:
                    e = ValueError("boom")
                    try:
                        cms.pop().__exit__(ValueError, e, None)
                    except ValueError:
                        pass
            except Exception:
                pass
            ops.append({"op": kind, "arg": a, "after": sorted(base.IGNORE_FIELDS_FOR_COMPARISON)})
        while cms:
            cms.pop().__exit__(None, None, None)
        out.append({"kind": "scope", "init": list(env), "ops": ops})
    return out


def run(tier):
    import flow.record.base as base
    from flow.record import GroupedRecord, RecordDescriptor, ignore_fields_for_comparison, set_ignored_fields_for_comparison

    ctx = check.Ctx(PROP, tier)
    thorough = tier == "thorough"
    ctx.design("Ignore", "MC_Ignore.cfg", "all sequences <= 6 of set / enter / exit-ok / exit-error over 3 field sets, nesting <= 3", actions=("Set", "Enter", "ExitOk", "ExitErr", "ExitBase"), workers=4)
    if thorough:
        ctx.sensitivity("Ignore", "MC_Ignore_dev.cfg", "a scope without 'finally' must violate ScopeRestores", "ScopeRestores", workers=4)
        ctx.sensitivity("Ignore", "MC_Ignore_dev2.cfg", "a scope restored for ordinary exceptions only must violate ScopeRestores", "ScopeRestores", workers=4)
    vc = gen.value_classes()
    traces, metas = [], []
    setter = set_ignored_fields_for_comparison

    def add(a, b, ign, meta):
        ids = Ids()
        traces.append(compare(a, b, ign, ids, setter))
        metas.append(meta)
        ctx.case(json.dumps(meta, default=str))

    IGNS = [set(), {"g"}, {"f"}, {"_generated"}, {"_source", "_generated"}]
    vc = dict(vc)
    vc["net.ipv4.Subnet"] = [("net24", "10.0.0.0/24"), ("net8", "10.0.0.0/8")]   # whitelisted, deprecated, not serialisable
    types = [(t, False) for t in vc] + [(t, True) for t in gen.LISTABLE]
    for t, islist in types:
        tn = t + ("[]" if islist else "")
        try:
            D = RecordDescriptor("t/" + gen.typename_slug(tn), [(tn, "f"), ("string", "g")])
            D2 = RecordDescriptor("t/" + gen.typename_slug(tn), [(tn, "f"), ("string", "h")])      # same name, another field list
            D3 = RecordDescriptor("u/" + gen.typename_slug(tn), [(tn, "f"), ("string", "g")])      # same fields, another name
        except Exception:
            continue
        classes = vc[t] if (thorough or not islist) else vc[t][:4]
        built = []
        for label, v in classes:
            if label in ("len65535", "len65536"):
                continue
            val = ([v, v] if v is not None else None) if islist else v
            try:
                a = D(copy.deepcopy(val), "x", _generated=gen.GEN, _source="s")
                b = D(copy.deepcopy(val), "x", _generated=gen.GEN, _source="s")
                # an independently rebuilt copy: new descriptor object, and the generated-class cache has been evicted
                base._generate_record_class.cache_clear()
                Dn = RecordDescriptor("t/" + gen.typename_slug(tn), [(tn, "f"), ("string", "g")])
                bn = Dn(copy.deepcopy(val), "x", _generated=gen.GEN, _source="s")
            except Exception:
                continue
            if label != "nan":
                add(a, bn, set(), {"pair": "copy-after-class-cache-eviction", "type": tn, "class": label})
            built.append((label, val, a))
            nan = label == "nan"
            for ign in (IGNS if thorough else IGNS[:3]):
                if not nan:
                    add(a, b, ign, {"pair": "copy", "type": tn, "class": label, "ign": sorted(ign)})
                # variation in g / metadata only (NaN never equals its copy: skip the configurations that would make the pair equal)
                if not (nan and "g" in ign):
                    add(a, D(copy.deepcopy(val), "y", _generated=gen.GEN, _source="s"), ign, {"pair": "vary-g", "type": tn, "class": label, "ign": sorted(ign), "nan": nan})
            if not nan:
                add(a, D(copy.deepcopy(val), "x", _generated=gen.GEN, _source="other"), {"_source"}, {"pair": "vary-source", "type": tn, "class": label, "ign": ["_source"], "nan": nan})
            add(a, D(copy.deepcopy(val), "x", _generated=gen.GEN, _source="other"), set(), {"pair": "vary-source", "type": tn, "class": label, "ign": [], "nan": nan})
            try:
                add(a, D2(copy.deepcopy(val), "x", _generated=gen.GEN, _source="s"), set(), {"pair": "other-fields", "type": tn, "class": label})
                add(a, D3(copy.deepcopy(val), "x", _generated=gen.GEN, _source="s"), set(), {"pair": "other-name", "type": tn, "class": label})
            except Exception:
                pass
        # single-field variations: two different value classes of the same type
        for i in range(len(built)):
            for j in range(i + 1, len(built)):
                (l1, v1, a), (l2, v2, b) = built[i], built[j]
                same_obs = okey(getattr(a, "f")) == okey(getattr(b, "f"))
                try:
                    field_eq = bool(getattr(a, "f") == getattr(b, "f"))
                except Exception:
                    field_eq = False
                if not same_obs and field_eq:
                    continue  # unspecified: values that differ in kind but compare equal (0.0 / -0.0, path / text)
                if not thorough and (i + j) % 3:
                    continue
                add(a, b, set(), {"pair": "vary-f", "type": tn, "classes": [l1, l2]})
                add(a, b, {"f"}, {"pair": "vary-f", "type": tn, "classes": [l1, l2], "ign": ["f"]})
    # nested and grouped records
    I = RecordDescriptor("t/inner", [("string", "q"), ("varint", "n")])
    H = RecordDescriptor("t/holder", [("record", "r"), ("record[]", "rl"), ("string", "g")])
    C = RecordDescriptor("t/cmd", [("command", "f"), ("string", "g")])
    mk = lambda q, n: I(q, n, _generated=gen.GEN)
    for (qa, na), (qb, nb) in [(("x", 1), ("x", 1)), (("x", 1), ("y", 1)), (("x", 1), ("x", 2))]:
        for ign in (set(), {"g"}, {"_generated"}):
            add(H(mk(qa, na), [mk("l", 1), mk("l", 2)], "x", _generated=gen.GEN), H(mk(qb, nb), [mk("l", 1), mk("l", 2)], "x", _generated=gen.GEN), ign, {"pair": "nested", "inner": [qa, na, qb, nb], "ign": sorted(ign)})
            add(H(None, [mk(qa, na)], "x", _generated=gen.GEN), H(None, [mk(qb, nb)], "x", _generated=gen.GEN), ign, {"pair": "nested-list", "inner": [qa, na, qb, nb], "ign": sorted(ign)})
            ga = GroupedRecord("g/x", [mk(qa, na), C("ls -la", "x", _generated=gen.GEN)])
            gb = GroupedRecord("g/x", [mk(qb, nb), C("ls -la", "x", _generated=gen.GEN)])
            add(ga, gb, ign, {"pair": "grouped", "inner": [qa, na, qb, nb], "ign": sorted(ign)})
            add(ga, mk(qa, na), ign, {"pair": "grouped-vs-plain", "ign": sorted(ign)})
            gc = GroupedRecord("g/x", [mk(qa, na), C("ls -la", "other-g", _generated=gen.GEN)])
            add(ga, gc, ign, {"pair": "grouped-vary-g", "ign": sorted(ign)})
    # differences that sit ONLY in an ignored field of a nested record / of a later member of a grouped record
    import datetime as _dt

    G2 = _dt.datetime(2021, 5, 6, 7, 8, 9, tzinfo=_dt.timezone.utc)
    I2 = RecordDescriptor("t/inner2", [("string", "q"), ("string", "g")])
    for ign in (set(), {"_generated"}, {"g"}, {"_generated", "g"}, {"q"}):
        inner_a, inner_b = I("x", 1, _generated=gen.GEN), I("x", 1, _generated=G2)
        add(H(inner_a, [], "x", _generated=gen.GEN), H(inner_b, [], "x", _generated=gen.GEN), ign, {"pair": "nested-vary-inner-generated", "ign": sorted(ign)})
        add(H(None, [mk("l", 1), inner_a], "x", _generated=gen.GEN), H(None, [mk("l", 1), inner_b], "x", _generated=gen.GEN), ign, {"pair": "nested-list-vary-inner-generated", "ign": sorted(ign)})
        add(H(I("x", 1, _generated=gen.GEN), [], "x", _generated=gen.GEN), H(I("y", 1, _generated=gen.GEN), [], "x", _generated=gen.GEN), ign, {"pair": "nested-vary-inner-q", "ign": sorted(ign)})
        for first_differs in (False, True):
            m1a, m1b = mk("x", 1), (I("x", 1, _generated=G2) if first_differs else mk("x", 1))
            m2a, m2b = I2("x", "g1", _generated=gen.GEN), (I2("x", "g1", _generated=gen.GEN) if first_differs else I2("x", "g1", _generated=G2))
            add(GroupedRecord("g/x", [m1a, m2a]), GroupedRecord("g/x", [m1b, m2b]), ign, {"pair": "grouped-vary-member-generated", "first": first_differs, "ign": sorted(ign)})
        # an ordinary field name shared by two members, differing in the second one
        add(GroupedRecord("g/x", [I2("a", "g1", _generated=gen.GEN), I2("b", "g1", _generated=gen.GEN)]), GroupedRecord("g/x", [I2("a", "g1", _generated=gen.GEN), I2("b", "g2", _generated=gen.GEN)]), ign,
            {"pair": "grouped-shared-name-vary-second", "ign": sorted(ign)})
        # a grouped record nested in a grouped record
        inner_g = lambda gen2: GroupedRecord("g/in", [mk("x", 1), I2("x", "g1", _generated=gen2)])
        add(GroupedRecord("g/out", [inner_g(gen.GEN), mk("z", 3)]), GroupedRecord("g/out", [inner_g(G2), mk("z", 3)]), ign, {"pair": "grouped-in-grouped-vary-generated", "ign": sorted(ign)})
    # the same INSTANT written with different UTC offsets (in a field, in a list element, as _generated, nested): whatever
    # equality says about such a pair, the hashes must say the same
    import datetime as _dt

    DT = RecordDescriptor("t/instants", [("datetime", "ts"), ("datetime[]", "tl"), ("string", "g")])
    HT = RecordDescriptor("t/instholder", [("record", "r"), ("string", "g")])
    t0 = _dt.datetime(2022, 3, 4, 12, 0, 0, 5, tzinfo=_dt.timezone.utc)
    for off in (2, -5, 5.5, 14, -12):
        t1 = t0.astimezone(_dt.timezone(_dt.timedelta(hours=off)))
        for ign in (set(), {"_generated"}):
            add(DT(t0, [], "x", _generated=gen.GEN), DT(t1, [], "x", _generated=gen.GEN), ign, {"pair": "same-instant-other-offset:field", "offset_h": off, "ign": sorted(ign)})
            add(DT(None, [t0, t0], "x", _generated=gen.GEN), DT(None, [t0, t1], "x", _generated=gen.GEN), ign, {"pair": "same-instant-other-offset:list-element", "offset_h": off, "ign": sorted(ign)})
            add(DT(None, [], "x", _generated=t0), DT(None, [], "x", _generated=t1), ign, {"pair": "same-instant-other-offset:_generated", "offset_h": off, "ign": sorted(ign)})
            add(HT(DT(t0, [], "x", _generated=gen.GEN), "x", _generated=gen.GEN), HT(DT(t1, [], "x", _generated=gen.GEN), "x", _generated=gen.GEN), ign, {"pair": "same-instant-other-offset:nested", "offset_h": off, "ign": sorted(ign)})
            add(GroupedRecord("g/i", [DT(t0, [], "x", _generated=gen.GEN)]), GroupedRecord("g/i", [DT(t1, [], "x", _generated=gen.GEN)]), ign, {"pair": "same-instant-other-offset:grouped", "offset_h": off, "ign": sorted(ign)})
    # descriptors made with extend() AFTER the base descriptor was used (hashed, compared, packed): an extension is a
    # descriptor of its own
    Bx = RecordDescriptor("t/base", [("string", "f"), ("string", "g")])
    b0 = Bx("v", "x", _generated=gen.GEN)
    hash(b0), b0 == b0, b0._pack(), Bx.descriptor_hash
    E1, E2, E3 = Bx.extend([("string", "owner")]), Bx.extend([("varint", "owner")]), Bx.extend([("string", "other")])
    for ign in (set(), {"owner"}, {"owner", "other"}):
        add(E1("v", "x", None, _generated=gen.GEN), E2("v", "x", None, _generated=gen.GEN), ign, {"pair": "extended-descriptors-differ-in-added-type", "ign": sorted(ign)})
        add(E1("v", "x", None, _generated=gen.GEN), E3("v", "x", None, _generated=gen.GEN), ign, {"pair": "extended-descriptors-differ-in-added-name", "ign": sorted(ign)})
        add(Bx("v", "x", _generated=gen.GEN), E1("v", "x", None, _generated=gen.GEN), ign, {"pair": "base-vs-extended", "ign": sorted(ign)})
        add(E1("v", "x", "o", _generated=gen.GEN), Bx.extend([("string", "owner")])("v", "x", "o", _generated=gen.GEN), ign, {"pair": "same-extension-made-twice", "ign": sorted(ign)})
    # a dictionary field whose keys cannot be ordered among themselves (msgpack allows them): the record is hashable all the same
    DLd = RecordDescriptor("t/dl", [("dictlist", "f"), ("string", "g")])
    for dv in ([{1: "a", "b": 2}], [{None: 1, "x": 2}], [{"k": {2: 1, "z": 0}}], [{"a": 1, "b": [1, {3: 4, "c": 5}]}]):
        add(DLd(copy.deepcopy(dv), "x", _generated=gen.GEN), DLd(copy.deepcopy(dv), "x", _generated=gen.GEN), set(), {"pair": "dictlist-unorderable-keys", "type": "dictlist", "value": repr(dv)[:40]})
    # a record compared with something that is NOT a record (its own field values, its descriptor, its class, plain objects):
    # unequal, both ways round, without an error
    FD = RecordDescriptor("t/foreign", [("string", "s"), ("path", "p"), ("digest", "d"), ("string[]", "l"), ("net.ipaddress", "ip"), ("varint", "n"), ("datetime", "ts")])
    fr = FD("text", "/a/b", ("d41d8cd98f00b204e9800998ecf8427e", None, None), ["a"], "1.2.3.4", 5, gen.GEN, _generated=gen.GEN)
    others = [("own-" + n, getattr(fr, n)) for n in ("s", "p", "d", "l", "ip", "n", "ts")] + [("descriptor", FD), ("class", FD.recordType), ("none", None), ("text", "text"), ("int", 5),
                                                                                               ("tuple", fr._pack()), ("object", object()), ("grouped-of-itself", GroupedRecord("g/f", [fr]))]
    for label, other in others:
        c = {"kind": "foreign", "raised": False, "exc": "none", "eq_ab": True, "eq_ba": True, "ne_ab": False}
        try:
            c["eq_ab"], c["eq_ba"], c["ne_ab"] = bool(fr == other), bool(other == fr), bool(fr != other)
            [fr].index(fr), (other in [fr]), (fr in [other, fr])
        except Exception as e:
            c["raised"], c["exc"] = True, type(e).__name__ + ":" + str(e)[:80]
        traces.append(c)
        metas.append({"pair": "record-vs-" + label, "type": "foreign"})
        ctx.case(json.dumps(metas[-1]))
    # a record that was already packed / hashed / compared, whose typed LIST field is then changed IN PLACE: equality and
    # hash follow the current contents
    for T, v1, v2 in (("string", "a", "b"), ("varint", 1, 2), ("path", "/a", "/b"), ("uint16", 1, 2)):
        DL = RecordDescriptor("t/mutlist_" + gen.typename_slug(T), [(T + "[]", "f"), ("string", "g")])
        for how in ("append", "setitem", "del", "clear"):
            a = DL([v1, v1], "x", _generated=gen.GEN, _source="s")
            old = DL([v1, v1], "x", _generated=gen.GEN, _source="s")
            try:
                hash(a), a == old, a._pack(), hash(GroupedRecord("g/m", [a]))      # priming only: what these calls leave behind is the point
            except Exception:
                pass
            elem = a.f[0].__class__(v2)          # of the element type: a raw value appended to the list is not converted (unspecified pair)
            if how == "append":
                a.f.append(elem); now = [v1, v1, v2]
            elif how == "setitem":
                a.f[0] = elem; now = [v2, v1]
            elif how == "del":
                del a.f[0]; now = [v1]
            else:
                a.f.clear(); now = []
            new = DL(list(now), "x", _generated=gen.GEN, _source="s")
            add(a, new, set(), {"pair": "list-changed-in-place-vs-rebuilt", "type": T + "[]", "how": how})
            add(a, old, set(), {"pair": "list-changed-in-place-vs-old", "type": T + "[]", "how": how})
            add(GroupedRecord("g/m", [a]), GroupedRecord("g/m", [new]), set(), {"pair": "grouped-list-changed-in-place", "type": T + "[]", "how": how})
    # the configuration taken from the environment variable FLOW_RECORD_IGNORE by fresh interpreters
    for envval in ("", "g", "g,_generated", "_generated", "f,g,n"):
        for c in common.in_fresh_process("c12", "env_cases", envval, {"FLOW_RECORD_IGNORE": envval}):
            traces.append(c)
            metas.append({"pair": "env:" + c.pop("pair"), "type": "FLOW_RECORD_IGNORE=" + c.pop("env")})
            ctx.case(json.dumps(metas[-1]))
    ctx.sample({"trace": traces[0], "meta": metas[0]})
    neq = len(traces)
    # scope traces
    sets = [[], ["a"], ["a", "b"], ["_generated"]]
    # spec -> code: operation sequences generated by TLC from Ignore.tla (up to 14 operations), then seeded random ones
    plans = []
    amap = {"Set": "set", "Enter": "enter", "ExitOk": "exit_ok", "ExitErr": "exit_err", "ExitBase": "exit_base"}
    for beh in simulate.behaviours("Ignore", "Sim_Ignore.cfg", 150 if not thorough else 1500, 14, ctx.seed + 5):
        plans.append((sorted(beh[0][2]["ignored"]), [(amap[a], sorted(args[0]) if args else []) for a, args, st in beh[1:] if a in amap]))
    ctx.extra["scope_behaviours_simulated_by_tlc"] = len(plans)
    for _ in range(300 if not thorough else 3000):
        plans.append((ctx.rnd.choice(sets), None))
    for init, planned in plans:
        setter(init)
        ops, cms, prepared = [], [], []
        steps = planned if planned is not None else [None] * ctx.rnd.randint(1, 8)
        for step in steps:
            if step is not None:
                kind, arg = step
            else:
                kind = ctx.rnd.choice(["set", "enter", "enter", "exit_ok", "exit_err", "exit_base", "prepare", "enter_prepared"])
                arg = ctx.rnd.choice(sets)
            if kind in ("exit_ok", "exit_err", "exit_base") and not cms:
                kind = "enter"
            if kind == "enter_prepared" and not prepared:
                kind = "prepare"
            # the configuration is handed over in different shapes of "iterable of names": a list, a set, a tuple, and
            # one-shot iterables (an iterator, a generator expression, a map object)
            shape = ctx.rnd.choice(["list", "set", "tuple", "iter", "gen", "map"])
            given = {"list": lambda a: list(a), "set": lambda a: set(a), "tuple": lambda a: tuple(a), "iter": lambda a: iter(list(a)),
                     "gen": lambda a: (x for x in list(a)), "map": lambda a: map(str, list(a))}[shape](arg)
            try:
                if kind == "prepare":
                    # the scope object is CREATED now and entered later (a prepared context, a decorator): what it restores
                    # on exit is the configuration in force when it is entered
                    prepared.append((ignore_fields_for_comparison(given), list(arg)))
                elif kind == "enter_prepared":
                    cm, arg = prepared.pop(0)
                    cm.__enter__()
                    cms.append(cm)
                    kind = "enter"
                elif kind == "set":
                    setter(given)
                elif kind == "enter":
                    cm = ignore_fields_for_comparison(given)
                    cm.__enter__()
                    cms.append(cm)
                elif kind == "exit_ok":
                    cms.pop().__exit__(None, None, None)
                elif kind == "exit_err":
                    e = ValueError("boom")
                    try:
                        cms.pop().__exit__(ValueError, e, None)
                    except ValueError:
                        pass
                else:
                    import asyncio

                    et = ctx.rnd.choice([KeyboardInterrupt, SystemExit, GeneratorExit, asyncio.CancelledError])
                    e = et()
                    try:
                        cms.pop().__exit__(et, e, None)
                    except BaseException as x:  # noqa
                        if x is not e:
                            raise
            except Exception:
                pass
            if kind != "prepare":
                ops.append({"op": kind, "arg": arg, "after": sorted(base.IGNORE_FIELDS_FOR_COMPARISON)})
        while cms:
            cms.pop().__exit__(None, None, None)
        setter(set())
        traces.append({"kind": "scope", "init": init, "ops": ops})
        metas.append({"pair": "scope", "ops": [o["op"] for o in ops]})
        ctx.case(("scope", json.dumps(ops)))
    # scope histories that start from a configuration given by the ENVIRONMENT (fresh interpreters; round g)
    for envval in ("a", "a,b", "_generated"):
        for t in common.in_fresh_process("c12", "env_scope_cases", envval, {"FLOW_RECORD_IGNORE": envval}):
            traces.append(t)
            metas.append({"pair": "scope", "ops": [o["op"] for o in t["ops"]], "env": "FLOW_RECORD_IGNORE=" + envval})
            ctx.case(("scope-env", envval, json.dumps(t["ops"])))
    ctx.sample({"trace": traces[-1]})
    path = os.path.join(common.scratch("c12"), "traces.json")
    tlc.write_json(path, traces)
    r = ctx.tlc("Trace_Equality", "Trace_Equality.cfg", f"{neq} record pairs + {len(traces) - neq} scope traces", env={"TRACE_FILE": path})
    seen = set()
    for v in r.violations:
        tid = v["state"].get("tid")
        if tid is None:
            raise MachineryError(f"cannot attribute counter-example: {v}")
        if tid in seen:
            continue
        seen.add(tid)
        m = metas[tid - 1]
        t = traces[tid - 1]
        key = {"check": v["inv"], "pair": m.get("pair"), "type": m.get("type"), "raised": t.get("raised", False)}
        if t.get("raised"):
            key["exc"] = t["exc"].split(":")[0]
        ctx.violation(key, {"meta": m, "trace": {k: x for k, x in t.items() if k not in ("a", "b")}})
    ctx.count(len(traces), neq + sum(len(t["ops"]) for t in traces[neq:]))
    ctx.extra["rule"] = "pairs per field type (scalar and list) x value class: rebuilt copy, variation of another field, of metadata, of the field itself (two classes), other descriptor (same name / same fields); nested, grouped; x ignored-field sets; scope traces are seeded operation sequences"
    ctx.assumptions += ["value pairs that differ in kind but compare equal at field level (0.0 / -0.0, path vs its text) are unspecified and not generated; NaN is excluded from copy-equality"]
    return ctx.finish()
