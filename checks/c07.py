"""C07 -- both selector engines compute the Python meaning of the expression.

Specification: spec/Selector.tla (reference semantics Ev), explored at model level by TLC
(MC_Selector, MC_SelectorExprs: totality, chains = conjunction, De Morgan, not-in = negation).
Binding: expressions enumerated from the selector grammar (comparisons incl. chains, and/or/not, arithmetic
and bit operators incl. unsupported ones, membership, list/tuple displays, helper calls, any/all generators
with conditions) are rendered to source and evaluated by Selector, CompiledSelector and CPython's own eval on
every record; TLC evaluates Ev on each (expression, record) pair and checks RefOK (machinery), EngI, EngC and
Refuse (spec/Trace_Selector.tla).
"""
from vf import check, common, selgen as sg
from checks.c08 import validate

PROP = "C07"


def shape(e):
    ks = sorted({x["k"] + (":" + x["op"] if x["k"] in ("bin",) else "") for x in sg.walk(e) if x["k"] not in ("const", "field", "var")})
    return "+".join(ks)


def run(tier):
    ctx = check.Ctx(PROP, tier)
    thorough = tier == "thorough"
    ctx.design("MC_Selector", "MC_Selector_c08.cfg", "model lemmas on a small universe", workers=4)
    if thorough:
        ctx.design("MC_SelectorExprs", "MC_SelectorExprs.cfg", "reference semantics: total, typed, chain = conjunction, De Morgan over ~23k expressions x 3 records", timeout=3000)
    frecs, D = sg.real_records()
    plain = [{k: sg.val(v) for k, v in r.items()} for r in sg.RECS]
    exprs, total = sg.c07_exprs(ctx.rnd, 12000 if not thorough else None)
    ctx.extra["grammar_size"] = total
    CH = 6000
    for start in range(0, len(exprs), CH):
        part = exprs[start:start + CH]
        cases = [sg.make_case(e, frecs, plain) for e, tag in part]
        tags = [dict(tag, shape=shape(e), supported=sg.supported_interpreted(e)) for e, tag in part]
        for c in cases:
            ctx.case(c["src"])
        if start == 0:
            for c in cases[:3]:
                ctx.sample({"expression": c["src"], "cpython": c["py"], "interpreted": c["I"], "compiled": c["C"]})
        validate(ctx, cases, tags, f"C07 grammar {start}..{start+len(part)-1}", prop=PROP)
    # typed matchers, helpers and the like once more in a fresh interpreter that meets the records in reverse order
    # (the grouped record and the record with the extra field first)
    rc = common.in_fresh_process("c08", "reversed_order_cases", {"grammar": "c07", "seed": ctx.seed})
    for c in rc:
        ctx.case("reversed:" + c["src"])
    validate(ctx, rc, [dict(c.pop("tag"), order="reversed", shape="-", supported=c["supI"]) for c in rc], "C07 grammar (typed / helper groups), reverse record order, fresh interpreter", prop=PROP, with_c=True, grouped=True)
    # typed matchers over records that HOLD records, one and two levels deep
    nrecs, nenvs = sg.nested_records()
    allx, _ = sg.c07_exprs(ctx.rnd, None)
    nx = [(e, tag) for e, tag in allx if tag.get("group") in ("typed", "typed_chain")]
    nplain = [{} for _ in nrecs]
    ncases = [sg.make_case(e, nrecs, nplain) for e, tag in nx]
    for c in ncases:
        ctx.case("nested:" + c["src"])
    validate(ctx, ncases, [dict(tag, shape=shape(e), supported=sg.supported_interpreted(e), records="nested") for e, tag in nx], "C07 typed matchers on nested records", prop=PROP, envs=nenvs)
    # ... and over records of ONE type name in different layouts, met one after the other
    lrecs, lenvs = sg.layout_records()
    lcases = [sg.make_case(e, lrecs, [{} for _ in lrecs]) for e, tag in nx]
    for c in lcases:
        ctx.case("layouts:" + c["src"])
    validate(ctx, lcases, [dict(tag, shape=shape(e), supported=sg.supported_interpreted(e), records="layouts") for e, tag in nx], "C07 typed matchers on one type name in three layouts", prop=PROP, envs=lenvs)
    ctx.exhaustive = thorough
    ctx.extra["rule"] = ("expressions of depth <= 2 from the selector grammar (10 groups: cmp, bin, call, chain, gen, l2cmp, neg, bool, not, helper); quick samples each group "
                         "proportionally with the seed, thorough takes all; distinct = distinct expression texts; each is evaluated on 3 records by 2 engines")
    ctx.assumptions += ["value domain is small: integers, booleans, None, short texts, lists/tuples of these; floats, IP types and real regular expressions are outside the reference semantics",
                        "only (expression, record) pairs on which the reference semantics is defined (Python does not raise, every construct is modelled) are compared"]
    return ctx.finish()
