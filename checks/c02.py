"""C02 -- written bytes conform to the frozen RecordStream wire format.

Specification: spec/Codec.tla: Enc(T, c) is the token-family tree of every field type x value class; the record,
descriptor, grouped and header frame shapes; StreamOK.  TLC checks BinIsNotStr / RoundTrip on the model.
Binding: (a) every stream written in C01's sweep is tokenized by the independent tokenizer (vf/refcodec.py) and TLC
compares each field's tree with Enc and each frame with the frame grammar; the identifier hash is recomputed;
the reference decoder must recover exactly the written values.  (b) the same records encoded by the reference
ENCODER -- plus the compatibility forms: extra trailing metadata fields, records without a version field,
bare-name identifiers -- are fed to the implementation's reader.  (c) a golden corpus written at the pinned
revision (golden/) must decode to its stored observations.
"""
import io, json, os

from vf import check, codecdrv as cd, common, gen, observe, refcodec as rc, tlc
from checks.c01 import report

PROP = "C02"
GOLDEN = os.path.join(common.VERIF, "golden")


def compat_cases(ctx):
    """conforming streams the implementation never writes itself"""
    from flow.record import RecordStreamReader

    fields = [("string", "a"), ("varint", "n")]
    name = "compat/x"
    H, Dfr = rc.header_frame(), rc.descriptor_frame(name, fields)
    gen7 = rc.ext_datetime_utc(2020, 1, 2, 3, 4, 5, 6)
    forms = {
        "plain": rc.record_frame(name, fields, ["v", 5, "src", "cls", gen7, 1]),
        "extra-trailing-metadata": rc.record_frame(name, fields, ["v", 5, "src", "cls", gen7, "future-field", 12345, 1]),
        "one-extra-trailing-metadata": rc.record_frame(name, fields, ["v", 5, "src", "cls", gen7, "future-field", 1]),
        "three-extra-trailing-metadata": rc.record_frame(name, fields, ["v", 5, "src", "cls", gen7, "f1", None, [1, 2], 1]),
        "no-version-field": rc.record_frame(name, fields, ["v", 5, "src", "cls", gen7]),
        "bare-name-identifier": rc.record_frame(name, fields, ["v", 5, "src", "cls", gen7, 1], identifier="name"),
        "other-version": rc.record_frame(name, fields, ["v", 5, "src", "cls", gen7, 2]),
        "repeated-header": H + rc.record_frame(name, fields, ["v", 5, "src", "cls", gen7, 1]),
        "str-header": None,
    }
    # streams archived from Python 2 era releases carry type and field names in the bin family
    B = rc.Bin
    py2_desc = rc.frame(rc.ext(rc.T_DESC, [B(name.encode()), [[B(t.encode()), B(n.encode())] for t, n in fields]]))
    py2_rec = rc.frame(rc.ext(rc.T_RECORD, [[B(name.encode()), rc.descriptor_hash(name, fields)], ["v", 5, "src", "cls", gen7, 1]]))
    py2_grp = rc.frame(rc.ext(rc.T_GROUPED, [B(b"grp/x"), [[[B(name.encode()), rc.descriptor_hash(name, fields)], ["v", 5, "src", "cls", gen7, 1]]]]))
    for form, body in (("py2-bin-names", py2_rec), ("py2-bin-names-grouped", py2_grp)):
        ctx.case(("compat", form))
        try:
            recs = list(RecordStreamReader(io.BytesIO(H + py2_desc + body)))
            r0 = recs[0].records[0] if form.endswith("grouped") else recs[0]
            ok = len(recs) == 1 and r0.a == "v" and r0.n == 5 and r0._desc.name == name and [n for _, n in r0._desc.get_field_tuples()] == ["a", "n"]
            exc = "none"
        except Exception as e:
            ok, exc = False, type(e).__name__ + ":" + str(e)[:80]
        if not ok:
            ctx.violation({"check": "compat-form", "form": form}, {"exc": exc})
    for form, fr in forms.items():
        if fr is None:
            continue
        ctx.case(("compat", form))
        try:
            recs = list(RecordStreamReader(io.BytesIO(H + Dfr + fr)))
            ok = len(recs) == 1 and recs[0].a == "v" and recs[0].n == 5 and recs[0]._source == "src" and recs[0]._classification == "cls" and \
                recs[0]._generated.microsecond == 6 and [n for _, n in recs[0]._desc.get_field_tuples()] == ["a", "n"]
            exc = "none"
        except Exception as e:
            ok, exc = False, type(e).__name__ + ":" + str(e)[:80]
        if not ok:
            ctx.violation({"check": "compat-form", "form": form}, {"exc": exc})
    # the compatibility forms AFTER the reader has used the type in other ways: as a member of a grouped record earlier in the
    # stream, after its definition was printed / its full field list asked for (whatever those calls leave behind in the
    # descriptor must not change how many values a record frame may carry)
    grp_first = rc.frame(rc.ext(rc.T_GROUPED, ["grp/x", [[[name, rc.descriptor_hash(name, fields)], ["g", 1, "src", "cls", gen7, 1]]]]))
    for form in ("extra-trailing-metadata", "one-extra-trailing-metadata", "no-version-field", "plain"):
        for prelude in ("grouped-record-first", "definition-asked-first"):
            ctx.case(("compat-after", prelude, form))
            try:
                rd = RecordStreamReader(io.BytesIO(H + Dfr + (grp_first if prelude == "grouped-record-first" else forms["plain"]) + forms[form]))
                it = iter(rd)
                first = next(it)
                if prelude == "definition-asked-first":
                    first._desc.definition(), first._desc.get_all_fields(), first._desc.getfields("string")
                r = next(it)
                ok = r.a == "v" and r.n == 5 and r._source == "src" and r._generated.microsecond == 6 and [n for _, n in r._desc.get_field_tuples()] == ["a", "n"] and list(it) == []
                exc = "none"
            except Exception as e:
                ok, exc = False, type(e).__name__ + ":" + str(e)[:80]
            if not ok:
                ctx.violation({"check": "compat-form", "form": form, "after": prelude}, {"exc": exc})
    # latest definition wins for bare-name identifiers when several same-name descriptors were defined
    f2 = [("varint", "n")]
    data = H + rc.descriptor_frame(name, fields) + rc.descriptor_frame(name, f2) + rc.record_frame(name, f2, [7, None, None, gen7, 1], identifier="name")
    ctx.case(("compat", "bare-name-latest-definition"))
    try:
        recs = list(RecordStreamReader(io.BytesIO(data)))
        ok = len(recs) == 1 and recs[0].n == 7 and [n for _, n in recs[0]._desc.get_field_tuples()] == ["n"]
    except Exception as e:
        ok = False
    if not ok:
        ctx.violation({"check": "compat-form", "form": "bare-name-latest-definition"}, {})


    # sequences (reference-encoded): a type redefined in mid-stream under bare-name identifiers; two descriptors that share
    # name + hash written alternately; a type redefined back and forth.  Each record must come back with the fields of
    # the LATEST definition in front of it.
    X, Xc = [("string", "a"), ("string", "b")], [("string", "astringb")]
    assert rc.descriptor_hash("t/x", X) == rc.descriptor_hash("t/x", Xc)
    meta = [None, None, gen7, 1]
    seqs = {
        "bare-name-redefined-midstream": [("D", name, fields), ("R", name, fields, ["v", 5], "name"), ("R", name, fields, ["w", 6], "name"), ("D", name, f2), ("R", name, f2, [7], "name"),
                                          ("R", name, f2, [8], "name"), ("D", name, fields), ("R", name, fields, ["x", 9], "name")],
        "colliding-identifiers-alternating": [("D", "t/x", X), ("R", "t/x", X, ["1", "2"], None), ("D", "t/x", Xc), ("R", "t/x", Xc, ["3"], None), ("R", "t/x", Xc, ["4"], None),
                                              ("D", "t/x", X), ("R", "t/x", X, ["5", "6"], None)],
        "versioned-redefined-back-and-forth": [("D", name, fields), ("R", name, fields, ["v", 5], None), ("D", name, f2), ("R", name, f2, [7], None), ("R", name, fields, ["w", 6], None),
                                               ("R", name, f2, [8], None)],
    }
    for form, seq in seqs.items():
        ctx.case(("compat-seq", form))
        data, want = H, []
        for it in seq:
            if it[0] == "D":
                data += rc.descriptor_frame(it[1], it[2])
            else:
                _, nm, fl, vals, ident = it
                data += rc.record_frame(nm, fl, vals + meta, **({"identifier": ident} if ident else {}))
                want.append(([n for _, n in fl], [str(v) for v in vals]))
        try:
            recs = list(RecordStreamReader(io.BytesIO(data)))
            got = [([n for _, n in r._desc.get_field_tuples()], [str(getattr(r, n)) for _, n in r._desc.get_field_tuples()]) for r in recs]
            ok, exc = got == want, "none"
        except Exception as e:
            ok, exc, got = False, type(e).__name__ + ":" + str(e)[:80], None
        if not ok:
            ctx.violation({"check": "compat-form", "form": form}, {"exc": exc, "got": got, "want": want})


def golden(ctx):
    from flow.record import RecordReader

    idx = os.path.join(GOLDEN, "index.json")
    if not os.path.exists(idx):
        raise common.MachineryError("golden corpus missing (golden/index.json)")
    for entry in json.load(open(idx)):
        ctx.case(("golden", entry["file"]))
        p = os.path.join(GOLDEN, entry["file"])
        try:
            got = [cd.obs_key(r) for r in RecordReader(p)]
            ok = got == entry["observations"]
            exc = "none"
        except Exception as e:
            ok, exc = False, type(e).__name__ + ":" + str(e)[:80]
        if not ok:
            ctx.violation({"check": "golden", "file": entry["file"]}, {"exc": exc})


def concurrent_writers(ctx):
    """Two independent stream writers in two threads; writer A's file object is slow: while it is inside write() -- holding
    the data it was handed -- writer B writes a whole record of its own.  Each stream holds exactly its own frames."""
    import threading

    from flow.record import RecordDescriptor, RecordStreamWriter

    DA = RecordDescriptor("conc/a", [("string", "s"), ("varint", "n")])
    DB = RecordDescriptor("conc/b", [("varint", "n"), ("bytes", "blob")])
    for arm_at in (1, 2, 3):                       # which of A's write() calls (after the header) is the slow one
        ctx.case(("concurrent-writers", arm_at))
        go, done = threading.Event(), threading.Event()

        class Slow(io.RawIOBase):
            def __init__(self):
                self.data, self.calls = bytearray(), 0

            def writable(self):
                return True

            def write(self, b):
                self.calls += 1
                if self.calls == arm_at + 2:       # (the first two calls carry the stream header)
                    go.set()
                    done.wait(10)
                self.data += bytes(b)              # taken AFTER the other writer has run
                return len(b)

        sa, sb = Slow(), io.BytesIO()
        wa, wb = RecordStreamWriter(sa), RecordStreamWriter(sb)

        def other():
            go.wait(10)
            try:
                wb.write(DB(77, b"\x00" * 300, _generated=gen.GEN))
                wb.write(DB(78, b"\xff" * 5, _generated=gen.GEN))
            finally:
                done.set()

        t = threading.Thread(target=other, daemon=True)
        t.start()
        exc = "none"
        try:
            wa.write(DA("first", 1, _generated=gen.GEN))
            wa.write(DA("second", 2, _generated=gen.GEN))
            go.set()
            t.join(15)
            wa.write(DA("third", 3, _generated=gen.GEN))
            da, db = rc.decode_stream(bytes(sa.data)), rc.decode_stream(sb.getvalue())
            ok = [x[2][1] for x in da if x[0] == "REC"] == [1, 2, 3] and [x[2][0] for x in db if x[0] == "REC"] == [77, 78]
        except Exception as e:
            ok, exc = False, type(e).__name__ + ":" + str(e)[:80]
        wa.fp = wb.fp = None
        if not ok:
            ctx.violation({"check": "concurrent-writers", "slow_call": arm_at}, {"exc": exc})


def grouped_attribute_names(ctx):
    """member record types whose FIELDS are called what a grouped record calls its own attributes (name, records, ...): the
    values the members were made with are what goes on the wire, and what comes back from a reference-encoded frame"""
    from flow.record import GroupedRecord, RecordDescriptor, RecordStreamReader, RecordStreamWriter

    fields = [("string", "name"), ("varint", "records"), ("string", "descriptors")]
    mname, gname = "member/attrs", "grp/of_attrs"
    gen7 = rc.ext_datetime_utc(2020, 1, 2, 3, 4, 5, 6)
    want = ["the member's own name", 7, "its own descriptors text"]
    ctx.case(("grouped-attribute-names", "write"))
    exc = "none"
    try:
        M = RecordDescriptor(mname, fields)
        g = GroupedRecord(gname, [M(*want, _generated=gen.GEN)])
        b = io.BytesIO()
        w = RecordStreamWriter(b)
        w.write(g)
        w.fp = None
        grp = [x for x in rc.decode_stream(b.getvalue()) if x[0] == "GRP"]
        ok = len(grp) == 1 and str(grp[0][1]) == gname and list(grp[0][2][0][2][:3]) == want
    except Exception as e:
        ok, exc = False, type(e).__name__ + ":" + str(e)[:80]
    if not ok:
        ctx.violation({"check": "grouped-attribute-names", "direction": "write"}, {"exc": exc})
    ctx.case(("grouped-attribute-names", "read"))
    try:
        data = rc.header_frame() + rc.descriptor_frame(mname, fields) + rc.frame(rc.ext(rc.T_GROUPED, [gname, [[[mname, rc.descriptor_hash(mname, fields)], want + ["src", "cls", gen7, 1]]]]))
        recs = list(RecordStreamReader(io.BytesIO(data)))
        m = recs[0].records[0]
        ok = len(recs) == 1 and [object.__getattribute__(m, "name"), int(object.__getattribute__(m, "records")), object.__getattribute__(m, "descriptors")] == want and recs[0]._desc.name == gname
        exc = "none"
    except Exception as e:
        ok, exc = False, type(e).__name__ + ":" + str(e)[:80]
    if not ok:
        ctx.violation({"check": "grouped-attribute-names", "direction": "read"}, {"exc": exc})


def run(tier):
    ctx = check.Ctx(PROP, tier)
    thorough = tier == "thorough"
    ctx.design("Codec", "MC_Codec.cfg", "Enc/Dec over every field type x class; BinIsNotStr", workers=4)
    ctx.sensitivity("Codec", "MC_Codec_dev_bin.cfg", "bytes written in the str family must violate BinIsNotStr", "BinIsNotStr", workers=4)
    tmp = common.scratch("c02")
    cases, metas = cd.value_cases(ctx.rnd, thorough, tmp)
    scases = cd.stream_cases(ctx.rnd, 25 if not thorough else 400, tmp)
    allc = cases + scases
    for c in cases:
        ctx.case((c["T"], c["islist"], c["label"], c["via"]))
    ctx.sample({k: cases[3][k] for k in ("T", "islist", "cs", "label", "via", "tree", "hash_ok", "ref_decode_ok", "impl_decodes_ref_ok")})
    path = os.path.join(common.scratch("c02t"), "cases.json")
    tlc.write_json(path, allc)
    r = ctx.tlc("Trace_Codec", "Trace_Codec_c02.cfg", f"{len(cases)} value cases + {len(scases)} stream cases", env={"TRACE_FILE": path}, workers=8)
    report(ctx, r, allc, metas, ("FormatC02", "FrameShape"), PROP)
    compat_cases(ctx)
    concurrent_writers(ctx)
    grouped_attribute_names(ctx)
    golden(ctx)
    ctx.count(len(allc), len(allc))
    ctx.extra["rule"] = "as C01 (type x form x class x writer path, record sequences), compared at token-family level with Enc and the frame grammar; + 8 compatibility forms built with the reference encoder; + the golden corpus"
    ctx.assumptions += ["any valid msgpack width inside a family is accepted; SHA-256 is computed by hashlib in the observation layer"]
    return ctx.finish()
