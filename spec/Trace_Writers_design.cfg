SPECIFICATION TSpec
CONSTANTS
  Kinds = {"stream", "streamgz", "json", "avro", "sqlite", "csv", "line", "text"}
  MaxOps = 100000
  Dev = {"CloseNoHeader"}
  Mode = "design"
INVARIANT NotStuck
INVARIANT CDurable
INVARIANT CNoRaise
CHECK_DEADLOCK FALSE
