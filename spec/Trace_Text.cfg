SPECIFICATION TSpec
CONSTANTS
  MaxLen = 0
  Dev = {}
INVARIANT Contract
CHECK_DEADLOCK FALSE
