SPECIFICATION Spec
CONSTANT Dev = {}
INVARIANT Aware
INVARIANT InputInstant
INVARIANT InstantKept
INVARIANT OffsetRule
PROPERTY DisplayOnlyShows
CHECK_DEADLOCK FALSE
