SPECIFICATION Spec
CONSTANTS
  MaxN = 9
  Limits = {1, 2, 3, 4}
  Dev = {}
INVARIANT PartBound
INVARIANT PartsConcat
INVARIANT Counters
INVARIANT DesignParts
CHECK_DEADLOCK FALSE
