---------------------------- MODULE Policy ----------------------------
(* Layer 6 (call policy): what the interpreted selector's Call branch decides for every spelling of a call
   target, and which callable evaluation then reaches.  Anchor: flow/record/selector.py
   RecordContextMatcher._eval (ast.Call, ast.Attribute, ast.GeneratorExp), resolve_attr_path.

   Two parts kept apart on purpose: Policy(target, ingen) -- the decision -- and Resolve -- what is invoked
   when the decision is "allowed".  C09: only whitelisted helpers, str/repr/any/all and whitelisted field-type
   constructors are ever invoked; everything else is refused before anything is invoked.

   Dev (as built before the repair):
     "PathFromLastAttr"  the dotted path of a target that is not rooted at a Name is just its attribute names,
                         so `lower(x).upper()` / `'abc'.upper()` look like the whitelisted helper `upper`
     "GenVarCallable"    a generator variable bound to a callable value passes the namespace-callable test
     "GenVarShadowsCtor" a generator variable NAMED like a whitelisted field type passes the whitelist test
     "ResolveAfterArgs"  the call target is looked up AFTER the arguments were evaluated: an argument that advances a
                         suspended generator whose loop variable is named like the target re-binds the name in between
                         (`any(string(any(g)) for g in [(1 for string in [r.c.strip])])`)  (sensitivity)
     "RootNameOnly"      only the ROOT of a dotted target is tested against the namespace callables, so `str.upper(x)`,
                         `str.format(...)` -- methods reached through a whitelisted name -- are invoked (sensitivity) *)
EXTENDS Naturals, Sequences, FiniteSets, TLC
CONSTANT Dev    \* subset of {"PathFromLastAttr", "GenVarCallable"}
\* ---- name classes in the interpreter namespace (self.data) ----
Helpers   == {"lower", "upper", "fields"}  \* FUNCTION_WHITELIST representatives; `fields` is the one helper that is bound anew for every record
Builtins4 == {"str", "any"}                \* str/repr/any/all
DataCallables == Helpers \cup Builtins4     \* names n with callable(self.data.get(n))
NotAllowedNames == {"len", "open"}         \* builtins that are not in the namespace
Roots     == {"net"}                       \* field-type tree roots (DynamicFieldtypeModule)
CtorPaths == {<<"net", "ipaddress">>, <<"string">>}      \* WHITELIST paths (dotted and single-segment)
GenVars   == {"f", "string", "fields"}     \* generator variable names: a fresh name, one that shadows a field type, one that shadows a helper
\* ---- attribute name classes ----
PlainMeth == {"strip"}                     \* a method whose name is not a namespace callable
ShadowMeth == {"upper"}                    \* a method whose name equals a whitelisted helper's name
Dunder    == {"__class__", "__x"}           \* every name that STARTS with two underscores, whatever it ends with
Attrs == PlainMeth \cup ShadowMeth \cup Dunder \cup {"s", "ipaddress", "fl", "o"}     \* "fl": a mutable (list) value of the record; "o": a value that is not text
\* ---- target shapes (node.func) ----
\* base of an attribute chain: Name, call result, constant, parenthesised operator expression
Bases == {[b |-> "name", n |-> n] : n \in {"r", "net"} \cup GenVars \cup Helpers \cup Builtins4 \cup NotAllowedNames}
           \cup {[b |-> "callres"], [b |-> "const"], [b |-> "paren"]}
Chains == {<<>>} \cup {<<x>> : x \in Attrs} \cup {<<x, y>> : x \in Attrs, y \in Attrs}
\* call = TRUE: the shape is the target of a call; call = FALSE: it is only read (attribute access without a call)
Targets == {[base |-> b, chain |-> c, call |-> k] : b \in Bases, c \in Chains, k \in BOOLEAN}
              \cup {[base |-> [b |-> "lambda"], chain |-> <<>>, call |-> k] : k \in BOOLEAN}
              \cup {[base |-> [b |-> "subscript"], chain |-> <<>>, call |-> k] : k \in BOOLEAN}
\* which generator variable (bound to a callable canary) is in scope, if any; "f_op": the enclosing generator
\* expression is consumed by an operator ('x in (... for f in ...)') instead of any()/all()
\* "net_val": the variable is called `net` -- the ROOT of the dotted constructors -- and is bound to a VALUE of the record
\* "late_string": the enclosing generator's variable `g` holds a SUSPENDED generator whose own loop variable is called `string`
\*                and is bound to a callable canary; the call's argument `any(g)` advances it -- so the name `string` is a
\*                whitelisted constructor when the call is decided and a canary once the arguments have been evaluated
InGen == {"none", "f_op", "net_val", "late_string"} \cup GenVars
VarOf(g) == IF g = "f_op" THEN "f" ELSE IF g = "net_val" THEN "net" ELSE IF g = "late_string" THEN "g" ELSE g
\* ---- what the Call branch decides ----
SyntaxOK(t) == t.base.b \notin {"lambda", "subscript"} /\ ~(t.chain = <<>> /\ t.base.b \in {"callres", "const", "paren"})
\* resolve_attr_path: attrs (reversed back) + root name if the chain bottoms out in a Name
PathAsBuilt(t) == (IF t.base.b = "name" THEN <<t.base.n>> ELSE <<>>) \o t.chain
NameCallable(n, ingen) == n \in DataCallables \/ (n = VarOf(ingen))
PolicyAsBuilt(t, ingen) ==
    LET p == PathAsBuilt(t) IN
    \/ (Len(p) = 1 /\ NameCallable(p[1], ingen))       \* callable(self.data.get("name"))  -- dotted strings are never keys
    \/ p \in CtorPaths                                  \* func_name in WHITELIST
PolicyIntended(t, ingen) ==
    /\ t.base.b = "name"
    /\ t.base.n # VarOf(ingen)                                   \* a name bound by a generator expression is never a call target
    /\ \/ (t.chain = <<>> /\ t.base.n \in DataCallables)
       \/ (<<t.base.n>> \o t.chain) \in CtorPaths
Policy(t, ingen) ==
    IF t.base.b # "name" /\ "PathFromLastAttr" \notin Dev THEN FALSE
    ELSE IF t.base.b = "name" /\ t.base.n = VarOf(ingen)
         THEN \/ ("GenVarCallable" \in Dev /\ t.chain = <<>>)
              \/ ("GenVarShadowsCtor" \in Dev /\ (<<t.base.n>> \o t.chain) \in CtorPaths)
    ELSE IF "RootNameOnly" \in Dev /\ t.base.b = "name" /\ t.base.n \in DataCallables THEN TRUE
    ELSE IF "PathFromLastAttr" \in Dev THEN PolicyAsBuilt(t, ingen) ELSE PolicyIntended(t, ingen)
\* ---- what evaluating node.func then yields (only reached when Policy holds) ----
\* classes of callable objects
Resolve(t, ingen) ==
    IF t.base.b = "name" /\ t.base.n = VarOf(ingen) THEN "canary-callable"
    ELSE IF "ResolveAfterArgs" \in Dev /\ ingen = "late_string" /\ t.base.b = "name" /\ t.base.n = "string" /\ t.chain = <<>> THEN "canary-callable"
    ELSE IF t.chain = <<>> THEN
        (IF t.base.n \in Helpers THEN "helper" ELSE IF t.base.n \in Builtins4 THEN "builtin4"
         ELSE IF <<t.base.n>> \in CtorPaths THEN "ctor" ELSE "other")
    ELSE IF t.base.b = "name" /\ (<<t.base.n>> \o t.chain) \in CtorPaths THEN "ctor"
    ELSE "method-of-value"          \* getattr(value, last attr): an arbitrary bound method
HasDunder(t) == \E i \in DOMAIN t.chain : t.chain[i] \in Dunder
\* reading (no call): lambdas and subscripts are not part of the language; double-underscore attributes are refused;
\* a name must exist in the namespace or be a field-type root
NameKnown(n, ingen) == n \in {"r", "string"} \cup Roots \cup DataCallables \/ (n = VarOf(ingen))
ReadOutcome(t, ingen) ==
    IF t.base.b \in {"lambda", "subscript"} THEN "refused"
    ELSE IF t.base.b = "name" /\ ~NameKnown(t.base.n, ingen) THEN "refused"
    ELSE IF HasDunder(t) THEN "refused"
    ELSE "read"
\* a generator expression whose variable would overwrite a name of the namespace (a helper, str/any) is refused as a whole
Outcome(t, ingen) ==
    IF VarOf(ingen) \in DataCallables THEN "refused"
    ELSE IF ~t.call THEN ReadOutcome(t, ingen)
    ELSE IF ~SyntaxOK(t) THEN "refused"
    ELSE IF ~Policy(t, ingen) THEN "refused"
    ELSE IF HasDunder(t) THEN "refused"                \* Attribute branch raises before getattr
    ELSE Resolve(t, ingen)
Safe == {"refused", "helper", "builtin4", "ctor", "read"}
\* syntactic context the call is nested in (the decision must not depend on it)
Contexts == {"bare", "arg", "operand", "listelt", "genelt", "geniter", "gencond", "kwarg", "not", "boolop",
             "add_list", "mult", "bitor",       \* the value is the LEFT operand of an operator (must never be modified in place)
             "helper_strings", "helper_fields", \* the value is handed to a whitelisted helper as its list of strings / of field names
             "primed",                          \* genuine whitelisted calls of the same names were made earlier in the same expression
             "fields_arg", "fields_kwarg",      \* the value is handed to the selector helper fields() as the type to look up
             "helper_unknown_kwarg", "helper_extra_positional"}   \* the value is handed to a helper as a parameter it does not document
VARIABLES t, g, ctx
Init == t \in Targets /\ g \in InGen /\ ctx \in Contexts
Next == UNCHANGED <<t, g, ctx>>
Spec == Init /\ [][Next]_<<t, g, ctx>>
OnlyWhitelistedInvoked == Outcome(t, g) \in Safe
=============================================================================

