---------------------------- MODULE Policy ----------------------------
EXTENDS Naturals, Sequences, FiniteSets, TLC
CONSTANT Dev    \* subset of {"PathFromLastAttr", "GenVarCallable"}
\* ---- name classes in the interpreter namespace (self.data) ----
Helpers   == {"lower", "upper"}            \* FUNCTION_WHITELIST representatives
Builtins4 == {"str", "any"}                \* str/repr/any/all
DataCallables == Helpers \cup Builtins4     \* names n with callable(self.data.get(n))
NotAllowedNames == {"len", "open"}         \* builtins that are not in the namespace
Roots     == {"net"}                       \* field-type tree roots (DynamicFieldtypeModule)
CtorPaths == {<<"net", "ipaddress">>}      \* WHITELIST dotted paths
GenVar    == "f"
\* ---- attribute name classes ----
PlainMeth == {"strip"}                     \* a method whose name is not a namespace callable
ShadowMeth == {"upper"}                    \* a method whose name equals a whitelisted helper's name
Dunder    == {"__class__"}
Attrs == PlainMeth \cup ShadowMeth \cup Dunder \cup {"s", "ipaddress"}
\* ---- target shapes (node.func) ----
\* base of an attribute chain: Name, call result, constant, parenthesised operator expression
Bases == {[b |-> "name", n |-> n] : n \in {"r", "net", GenVar} \cup Helpers \cup NotAllowedNames}
           \cup {[b |-> "callres"], [b |-> "const"], [b |-> "paren"]}
Chains == {<<>>} \cup {<<x>> : x \in Attrs} \cup {<<x, y>> : x \in Attrs, y \in Attrs}
Targets == {[base |-> b, chain |-> c] : b \in Bases, c \in Chains} \cup {[base |-> [b |-> "lambda"], chain |-> <<>>], [base |-> [b |-> "subscript"], chain |-> <<>>]}
InGen == BOOLEAN       \* is the call inside a generator expression whose variable f is bound to a callable canary?
\* ---- what the Call branch decides ----
SyntaxOK(t) == t.base.b \notin {"lambda", "subscript"} /\ ~(t.chain = <<>> /\ t.base.b \in {"callres", "const", "paren"})
\* resolve_attr_path: attrs (reversed back) + root name if the chain bottoms out in a Name
PathAsBuilt(t) == (IF t.base.b = "name" THEN <<t.base.n>> ELSE <<>>) \o t.chain
NameCallable(n, ingen) == n \in DataCallables \/ (n = GenVar /\ ingen)
PolicyAsBuilt(t, ingen) ==
    LET p == PathAsBuilt(t) IN
    \/ (Len(p) = 1 /\ NameCallable(p[1], ingen))       \* callable(self.data.get("name"))  -- dotted strings are never keys
    \/ p \in CtorPaths                                  \* func_name in WHITELIST
PolicyIntended(t, ingen) ==
    /\ t.base.b = "name"
    /\ \/ (t.chain = <<>> /\ t.base.n \in DataCallables)
       \/ (<<t.base.n>> \o t.chain) \in CtorPaths
Policy(t, ingen) ==
    IF t.base.b # "name" /\ "PathFromLastAttr" \notin Dev THEN FALSE
    ELSE IF t.base.b = "name" /\ t.base.n = GenVar /\ t.chain = <<>> THEN ("GenVarCallable" \in Dev /\ ingen)
    ELSE IF "PathFromLastAttr" \in Dev THEN PolicyAsBuilt(t, ingen) ELSE PolicyIntended(t, ingen)
\* ---- what evaluating node.func then yields (only reached when Policy holds) ----
HasDunder(t) == \E i \in DOMAIN t.chain : t.chain[i] \in Dunder
\* classes of callable objects
Resolve(t, ingen) ==
    IF t.chain = <<>> THEN
        (IF t.base.n \in Helpers THEN "helper" ELSE IF t.base.n \in Builtins4 THEN "builtin4"
         ELSE IF t.base.n = GenVar /\ ingen THEN "canary-callable" ELSE "other")
    ELSE IF t.base.b = "name" /\ (<<t.base.n>> \o t.chain) \in CtorPaths THEN "ctor"
    ELSE "method-of-value"          \* getattr(value, last attr): an arbitrary bound method
Outcome(t, ingen) ==
    IF ~SyntaxOK(t) THEN "refused"
    ELSE IF ~Policy(t, ingen) THEN "refused"
    ELSE IF HasDunder(t) THEN "refused"                \* Attribute branch raises before getattr
    ELSE Resolve(t, ingen)
Safe == {"refused", "helper", "builtin4", "ctor"}
VARIABLES t, g
Init == t \in Targets /\ g \in InGen
Next == UNCHANGED <<t, g>>
Spec == Init /\ [][Next]_<<t, g>>
OnlyWhitelistedInvoked == Outcome(t, g) \in Safe
=============================================================================

