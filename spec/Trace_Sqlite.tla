---------------------------- MODULE Trace_Sqlite ----------------------------
(* Trace validation for Sqlite (C18).  Events are recorded from the real SqliteWriter; after every call an
   INDEPENDENT sqlite3 connection reads the table list, the column names and the row ids it can see.
   Mode "contract": writer-side bookkeeping from Sqlite's Core actions, committed state adopted from the
   observation; C18's invariants are evaluated on that behaviour (verdict).
   Mode "design": Sqlite's full actions must reproduce the observation exactly (drift only).            *)
EXTENDS Sqlite, Json, IOUtils, TLCExt
CONSTANT Mode
Traces == JsonDeserialize(IOEnv.TRACE_FILE)
VARIABLES tid, l, rb
tvars == <<vars, tid, l, rb>>
Ev == Traces[tid][l]
NoRb == [done |-> FALSE, rows |-> [t \in Tables |-> <<>>], values_ok |-> TRUE, cols_ok |-> TRUE]
TInit == /\ tid \in 1..Len(Traces) /\ l = 2 /\ rb = NoRb
         /\ cols = [t \in Tables |-> <<>>] /\ rows = [t \in Tables |-> <<>>] /\ ccols = cols /\ crows = rows
         /\ seen = {} /\ count = 0 /\ batch = Traces[tid][1].batch /\ open = TRUE /\ nw = 0 /\ bounds = {0} /\ sess = 1
Adopt == ccols' = Ev.ccols /\ crows' = Ev.crows
Same  == ccols' = Ev.ccols /\ crows' = Ev.crows
TStep == \/ /\ Ev.op = "write" /\ IF Mode = "contract" THEN WriteCore(Ev.d) /\ Adopt ELSE Write(Ev.d) /\ Same
            /\ UNCHANGED rb
         \/ /\ Ev.op = "flush" /\ IF Mode = "contract" THEN FlushCore /\ Adopt ELSE Flush /\ Same
            /\ UNCHANGED rb
         \/ /\ Ev.op = "close" /\ IF Mode = "contract" THEN CloseCore /\ Adopt ELSE Close /\ Same
            /\ UNCHANGED rb
         \/ /\ Ev.op = "reopen" /\ IF Mode = "contract" THEN ReopenCore /\ Adopt ELSE Reopen /\ Same
            /\ UNCHANGED rb
         \* close() that RAISES (the final commit could not be made: the file is locked by a reader): nothing has happened, the
         \* writer is still open and can be closed again
         \/ /\ Ev.op = "closefail" /\ UNCHANGED core /\ (IF Mode = "contract" THEN Adopt ELSE (UNCHANGED <<ccols, crows>> /\ Same))
            /\ UNCHANGED rb
         \/ /\ Ev.op = "badwrite" /\ IF Mode = "contract" THEN FailedWriteCore(Ev.d) /\ Adopt ELSE FailedWrite(Ev.d) /\ Same
            /\ UNCHANGED rb
         \/ /\ Ev.op = "writes" /\ IF Mode = "contract" THEN WriteManyCore(Ev.d, Ev.n) /\ Adopt ELSE WriteManyCore(Ev.d, Ev.n) /\ WriteManyVis(Ev.d, Ev.n) /\ Same
            /\ UNCHANGED rb
         \/ /\ Ev.op = "crash" /\ IF Mode = "contract" THEN Adopt /\ CrashCore ELSE Crash /\ Same
            /\ UNCHANGED rb
         \/ /\ Ev.op = "read" /\ rb' = [done |-> TRUE, rows |-> Ev.rows, values_ok |-> Ev.values_ok, cols_ok |-> Ev.cols_ok]
            /\ UNCHANGED vars
\* ----- contract invariants on the observed behaviour -----
On == Mode = "contract"
CVisiblePrefix   == On => VisiblePrefix
CAtBoundary      == On => AtBoundary
CClosedCommitted == On => ClosedCommitted
CVisibleSchemaOK == On => VisibleSchemaOK
\* reading the database back with the library's reader: one record per row written, per table, in write
\* order, with the same values (compared by the driver per the type mapping) and every declared column
CReadBack == (On /\ rb.done) => (rb.rows = rows /\ rb.values_ok /\ rb.cols_ok)
\* the death of the writer changes nothing another connection sees: the open transaction goes, whole
CCrashRollsBack == [][(On /\ l <= Len(Traces[tid]) /\ Ev.op = "crash") => (crows' = crows /\ ccols' = ccols)]_tvars
AllOK == CVisiblePrefix /\ CAtBoundary /\ CClosedCommitted /\ CVisibleSchemaOK /\ CReadBack
TNext == /\ l <= Len(Traces[tid]) /\ AllOK
         /\ TStep
         /\ l' = l + 1 /\ UNCHANGED tid
TSpec == TInit /\ [][TNext]_tvars
NotStuck == (Mode = "design" /\ l <= Len(Traces[tid])) => ENABLED TNext
=============================================================================
