SPECIFICATION Spec
CONSTANT Dev = {"GenVarShadowsCtor"}
INVARIANT OnlyWhitelistedInvoked
CHECK_DEADLOCK FALSE
