---------------------------- MODULE Trace_Selector ----------------------------
(* Conformance of the two selector engines with the reference semantics (C07, C08, C10).
   The file holds the records (as environments: field -> tagged value) and one case per expression: its
   abstract syntax, whether it lies in the documented language of each engine, and per record what CPython's
   own eval returned on plain values (py), what Selector(...).match returned (I) and what
   CompiledSelector(...).match returned (C) -- each as [k |-> "ok" | "exc", v |-> truth value].
   TLC evaluates Ev on every (expression, record) and checks:
     RefOK   (machinery) the reference semantics agrees with CPython wherever it says "defined"
     EngI    the interpreted engine returns the Python truth value on every defined case of its language
     EngC    the compiled engine likewise
     Refuse  outside its language the interpreted engine raises -- or computes the Python meaning          *)
EXTENDS Selector, Json, IOUtils
Data == JsonDeserialize(IOEnv.TRACE_FILE)
Recs == Data.recs
Cases == Data.cases
VARIABLES cid, rid                     \* one state per (expression, record)
Init == cid \in 1..Len(Cases) /\ rid \in DOMAIN Recs
Next == UNCHANGED <<cid, rid>>
Spec == Init /\ [][Next]_<<cid, rid>>
C == Cases[cid]
M == Truth(Ev(C.e, Recs[rid]))
Defined == M.t = "bool"
Agrees(o) == o.k = "ok" /\ o.v = M.v
\* py is recorded as "skip" where CPython's eval has no counterpart (missing-field sentinel, helper functions)
RefOK  == (Defined /\ C.py[rid].k # "skip") => Agrees(C.py[rid])
EngI   == (Defined /\ C.supI) => Agrees(C.I[rid])
EngC   == (Defined /\ C.supC) => Agrees(C.C[rid])
Refuse == (~C.supI /\ M.t \in {"bool", "err"}) => (C.I[rid].k = "exc" \/ (Defined /\ Agrees(C.I[rid])))
\* non-vacuity: the driver requires that NotDefined is VIOLATED somewhere (some pair is defined)
SomeDefined == ~Defined
=============================================================================
