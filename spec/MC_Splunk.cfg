SPECIFICATION Spec
CONSTANTS
  Protos = {"tcp", "http"}
  Limit = 3
  MaxOps = 9
  MayFail = TRUE
  Dev = {}
INVARIANT Conservation
INVARIANT Delivered
INVARIANT BodyBound
INVARIANT EscapeInjective
INVARIANT EscapedSafe
PROPERTY FlushEmpties
CHECK_DEADLOCK FALSE
