SPECIFICATION Spec
CONSTANTS
  MaxLen = 4
  Dev = {}
INVARIANT OutIsFilter
CHECK_DEADLOCK FALSE
