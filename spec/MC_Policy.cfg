SPECIFICATION Spec
CONSTANT Dev = {}
INVARIANT OnlyWhitelistedInvoked
CHECK_DEADLOCK FALSE
