---------------------------- MODULE Trace_Filter ----------------------------
(* Conformance of the real readers' filter loops (C10).  One case = (adapter, selector, selector form, record
   sequence): for every record the driver logs whether the reader yielded it when iterating WITH the selector
   (inline), whether selector.match kept it when testing afterwards (after), whether matching left the
   record's deep observation unchanged (pure), and whether the result was the same when the same selector
   object met the records in reverse order (stable).  TLC replays the loop over the logged records. *)
EXTENDS Naturals, Sequences, FiniteSets, TLC, Json, IOUtils
Cases == JsonDeserialize(IOEnv.TRACE_FILE)
VARIABLES cid, pos, outInline, outAfter
vars == <<cid, pos, outInline, outAfter>>
C == Cases[cid]
Init == cid \in 1..Len(Cases) /\ pos = 0 /\ outInline = <<>> /\ outAfter = <<>>
Step == /\ pos < Len(C.recs)
        /\ LET r == C.recs[pos + 1] IN
           /\ outInline' = IF r.inline THEN Append(outInline, r.id) ELSE outInline
           /\ outAfter' = IF r.after THEN Append(outAfter, r.id) ELSE outAfter
        /\ pos' = pos + 1 /\ UNCHANGED cid
Spec == Init /\ [][Step]_vars
\* same records, same order, at every prefix
OutIsFilter == outInline = outAfter
\* iteration ends the same way (both complete, or both raise at the same record)
SameEnd == pos = Len(C.recs) => C.end_inline = C.end_after
\* matching is free of side effects and does not depend on what was matched before
Pure == \A i \in 1..pos : C.recs[i].pure /\ C.recs[i].stable
\* and yielded records carry the same values as the ones kept afterwards
SameValues == pos = Len(C.recs) => C.values_equal
\* for selectors with an independently known meaning: the reader yields exactly the records that meaning keeps
RefAgrees == pos = Len(C.recs) => C.ref_ok
=============================================================================
