---------------------------- MODULE SplitCount ----------------------------
(* Counter abstraction of Split.tla (splitting output by count), for an UNBOUNDED argument: n records written so far,
   k parts opened so far, cur = records in the current part, Limit = records per part.  A record that does not fit the
   current part opens the next one.  IndInv is inductive for every Limit >= 1 and every n (Apalache); it implies
   PartBound (no part holds more than Limit) and the arithmetic of PartsConcat (all parts but the last are full, so the
   i-th record sits at position (i - 1) % Limit + 1 of part (i - 1) \div Limit + 1).                                  *)
EXTENDS Integers

CONSTANT
    \* @type: Int;
    Limit

VARIABLES
    \* @type: Int;
    n,
    \* @type: Int;
    k,
    \* @type: Int;
    cur

ConstInit == Limit \in 1..1000000
Init == n = 0 /\ k = 1 /\ cur = 0
Write == /\ n' = n + 1
         /\ IF cur >= Limit THEN k' = k + 1 /\ cur' = 1 ELSE k' = k /\ cur' = cur + 1
Next == Write
PartBound == cur >= 0 /\ cur <= Limit
AllButLastFull == n = (k - 1) * Limit + cur
IndInv == Limit >= 1 /\ n >= 0 /\ k >= 1 /\ PartBound /\ AllButLastFull /\ (n > 0 => cur >= 1)
IndInit == n \in Int /\ k \in Int /\ cur \in Int /\ IndInv
=============================================================================
