---------------------------- MODULE SqliteCount ----------------------------
(* Counter abstraction of Sqlite.tla's commit behaviour, for an UNBOUNDED argument: nw records written, v of them visible
   to another connection, count = the writer's own counter, Batch = batch size.  A record of a descriptor not seen
   before commits what is pending BEFORE it is inserted; every Batch-th insert commits AFTER it; flush and close commit;
   a crash leaves v as it is.  IndInv is inductive for every Batch >= 1 and every history (Apalache); it says that the
   visible records are a prefix (v <= nw), that what is pending is always less than a batch and never more than the
   writer has counted since the last batch boundary, and that a closed writer has committed everything.            *)
EXTENDS Integers

CONSTANT
    \* @type: Int;
    Batch

VARIABLES
    \* @type: Int;
    nw,
    \* @type: Int;
    v,
    \* @type: Int;
    count,
    \* @type: Str;
    st

ConstInit == Batch \in 1..1000000
Init == nw = 0 /\ v = 0 /\ count = 0 /\ st = "open"
Write(newdesc) == /\ st = "open" /\ nw' = nw + 1 /\ count' = count + 1 /\ st' = st
                  /\ IF (count + 1) % Batch = 0 THEN v' = nw + 1
                     ELSE IF newdesc THEN v' = nw ELSE v' = v
Flush == st = "open" /\ v' = nw /\ UNCHANGED <<nw, count, st>>
Close == st = "open" /\ st' = "closed" /\ v' = nw /\ UNCHANGED <<nw, count>>
Crash == st = "open" /\ st' = "dead" /\ UNCHANGED <<nw, v, count>>
Reopen == st = "closed" /\ st' = "open" /\ count' = 0 /\ UNCHANGED <<nw, v>>
Next == (\E b \in BOOLEAN : Write(b)) \/ Flush \/ Close \/ Crash \/ Reopen
VisiblePrefix == 0 <= v /\ v <= nw
NeverPartOfABatch == nw - v < Batch /\ nw - v <= count % Batch
ClosedCommitted == st = "closed" => v = nw
IndInv == Batch >= 1 /\ count >= 0 /\ st \in {"open", "closed", "dead"} /\ VisiblePrefix /\ NeverPartOfABatch /\ ClosedCommitted
IndInit == nw \in Int /\ v \in Int /\ count \in Int /\ st \in {"open", "closed", "dead"} /\ IndInv
=============================================================================
