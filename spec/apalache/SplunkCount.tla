---------------------------- MODULE SplunkCount ----------------------------
(* Counter abstraction of Splunk.tla's HTTP transport (how MANY records are where), for an UNBOUNDED argument:
   nb = Len(buffer), ns = number of records in POSTed bodies, nd = number of records in bodies the collector refused,
   last = size of the body POSTed last (0 = none yet).  The refinement is by counting: every action of Splunk.tla
   changes these numbers exactly as the action of the same name does here.
   IndInv is inductive (checked by Apalache: Init => IndInv, IndInv /\ Next => IndInv') for EVERY Limit >= 1 and
   every number of calls; it implies the counting content of Conservation, Delivered and BodyBound.              *)
EXTENDS Integers

CONSTANT
    \* @type: Int;
    Limit

VARIABLES
    \* @type: Int;
    nw,
    \* @type: Int;
    nb,
    \* @type: Int;
    ns,
    \* @type: Int;
    nd,
    \* @type: Int;
    last,
    \* @type: Bool;
    open

ConstInit == Limit \in 1..1000000

Init == nw = 0 /\ nb = 0 /\ ns = 0 /\ nd = 0 /\ last = 0 /\ open = TRUE

Post(k, ok) == /\ nb' = 0
               /\ IF ok THEN ns' = ns + k /\ last' = k /\ nd' = nd
                        ELSE nd' = nd + k /\ ns' = ns /\ last' = last

Write == /\ open /\ nw' = nw + 1 /\ open' = open
         /\ IF nb + 1 >= Limit THEN \E ok \in BOOLEAN : Post(nb + 1, ok)
            ELSE nb' = nb + 1 /\ UNCHANGED <<ns, nd, last>>
DoFlush == IF nb > 0 THEN \E ok \in BOOLEAN : Post(nb, ok) ELSE UNCHANGED <<nb, ns, nd, last>>
Flush == open /\ DoFlush /\ UNCHANGED <<nw, open>>
Close == /\ open' = FALSE /\ nw' = nw
         /\ IF open THEN DoFlush ELSE UNCHANGED <<nb, ns, nd, last>>
Next == Write \/ Flush \/ Close

\* nothing is invented or lost: every record written is buffered, sent or in a refused body
Conservation == ns + nb + nd = nw
\* once closed nothing is left in the writer; without refusals the peer has them all
Delivered == ~open => (nb = 0 /\ (nd = 0 => ns = nw))
\* no body is empty or larger than the limit; the buffer never reaches the limit
BodyBound == last >= 0 /\ last <= Limit /\ nb >= 0 /\ nb < Limit
IndInv == /\ nw >= 0 /\ ns >= 0 /\ nd >= 0 /\ Limit >= 1
          /\ Conservation /\ Delivered /\ BodyBound
\* the inductive step starts from ANY state that satisfies IndInv
IndInit == nw \in Int /\ nb \in Int /\ ns \in Int /\ nd \in Int /\ last \in Int /\ open \in BOOLEAN /\ IndInv
=============================================================================
