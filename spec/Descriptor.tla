---------------------------- MODULE Descriptor ----------------------------
(* Layer 1: acceptance of record type definitions.  Anchor: flow/record/base.py RE_VALID_FIELD_NAME,
   RE_VALID_RECORD_TYPE_NAME, is_valid_field_name, RecordField, _generate_record_class (class template + exec),
   fieldtype(); whitelist.py; packer.py / jsonpacker.py / adapter/avro.py (definitions arriving in data).

   Strings are sequences over CHARACTER CLASSES:
     L ASCII letter   D digit   U underscore   S slash   N newline   P other ASCII punctuation / space
     X non-ASCII letter (look-alikes)   C control character other than newline
     F non-ASCII letter that case-folds or compatibility-normalises to an ASCII letter (dotless i, dotted capital I,
       long s, the Kelvin sign, a ligature): what a case-insensitive "[a-z]" also matches -- Dev "IgnoreCase"
   The property's grammar (Ref...) and the implementation's recognisers (Impl...) are both written out; Python's
   `$` -- which also matches before ONE trailing newline -- is modelled as it is.  What slips through the
   regular expressions (an identifier followed by a newline) is rejected downstream by the compiler before
   anything runs, so the ACCEPTED language is Impl minus strings containing a newline.

   Field types: a type name is accepted iff it is a whitelist entry, optionally followed by "[]" once.
   The class template has identifier-context holes (class name, argument names, attribute names) and
   string-literal holes (repr-quoted); the template's own free identifiers must not be capturable by a field
   name: NoCapture. *)
EXTENDS Naturals, Sequences, FiniteSets, TLC
CONSTANT Dev

Classes == {"L", "D", "U", "S", "N", "P", "X", "C", "F"}
RECURSIVE Strs(_)
Strs(n) == IF n = 0 THEN {<<>>} ELSE LET prev == Strs(n - 1) IN prev \cup {Append(s, c) : s \in {p \in prev : Len(p) = n - 1}, c \in Classes}
Word(c) == c \in {"L", "D", "U"}
\* ---- the property's grammar ----
IsIdent(s) == Len(s) >= 1 /\ s[1] = "L" /\ \A i \in DOMAIN s : Word(s[i])      \* ASCII identifier not starting with underscore or digit
RECURSIVE SplitOn(_, _)
SplitOn(s, sep) == IF ~\E i \in DOMAIN s : s[i] = sep THEN <<s>>
                   ELSE LET i == CHOOSE j \in DOMAIN s : s[j] = sep /\ \A k \in 1..(j - 1) : s[k] # sep
                        IN <<SubSeq(s, 1, i - 1)>> \o SplitOn(SubSeq(s, i + 1, Len(s)), sep)
RefTypeName(s) == s # <<>> /\ \A i \in DOMAIN SplitOn(s, "S") : IsIdent(SplitOn(s, "S")[i])
RefFieldName(s) == IsIdent(s)
\* ---- the implementation's recognisers (re.match with ^...$) ----
IWord(c) == Word(c) \/ ("IgnoreCase" \in Dev /\ c = "F")
ILetter(c) == c = "L" \/ ("IgnoreCase" \in Dev /\ c = "F")
ImplIdent(s) == Len(s) >= 1 /\ ILetter(s[1]) /\ \A i \in DOMAIN s : IWord(s[i])
StripDollar(s) == IF Len(s) >= 1 /\ s[Len(s)] = "N" THEN {s, SubSeq(s, 1, Len(s) - 1)} ELSE {s}
ReField(s) == \E t \in StripDollar(s) :
                 LET u == IF Len(t) >= 1 /\ t[1] = "U" THEN SubSeq(t, 2, Len(t)) ELSE t
                 IN ImplIdent(u)
ImplFieldName(s) == ~(Len(s) >= 1 /\ s[1] = "U") /\ ReField(s)
ImplTypeName(s) == s # <<>> /\ \E t \in StripDollar(s) : t # <<>> /\ \A i \in DOMAIN SplitOn(t, "S") : ImplIdent(SplitOn(t, "S")[i])
HasNewline(s) == \E i \in DOMAIN s : s[i] = "N"
AcceptedField(s) == ImplFieldName(s) /\ ~HasNewline(s)
AcceptedType(s) == ImplTypeName(s) /\ ~HasNewline(s)
\* ---- template: the generated class's free identifiers, and which of them a field name could shadow ----
TemplateGlobals == {"Record", "RECORD_VERSION", "_utcnow", "_zip_longest"}
UsedInsideInit == {"RECORD_VERSION", "_utcnow", "_zip_longest"}       \* free identifiers read inside a function whose ARGUMENTS are the field names
Capturable(n) == n \in UsedInsideInit /\ ~(Len(n) >= 1 /\ SubSeq(n, 1, 1) = "_")     \* a field name cannot start with an underscore
=============================================================================
