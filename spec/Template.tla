---------------------------- MODULE Template ----------------------------
(* Layer 5: path-template writer (time-templated archiving).  Anchor: flow/record/stream.py
   PathTemplateWriter.{write,record_stream_for_path,rotate_existing_file,close}, RecordArchiver.

   Every record names its destination path through the template.  When the destination differs from the
   current one the writer (1) renames an EXISTING file at that path to a rotation name carrying the current
   clock value, (2) creates the file anew, (3) closes the previous writer.  The clock is explicit and Tick
   is its own action so that TLC explores several rotations inside one clock value.

   A pre-existing file may be EMPTY (another process created it and has not written yet): it is still a file
   that exists, so it is renamed like any other.  To say "the file that was there is still there" for a file
   without content the model carries a file identity (`ino`, the inode in the real directory): a rename moves
   it, creating a file gives identity 0, and opening an existing path for writing keeps its identity.

   Dev: "SkipEmptyRotation" -- an existing but empty destination is not renamed, the writer opens it for
        writing and so takes over a file it did not create.
   Dev: "RotateStampCollision" -- the rotation name is a function of (path, clock) only, so a second
        rotation of the same path within one clock value overwrites the first rotated file (as built
        before the repair). *)
EXTENDS Naturals, Sequences, FiniteSets, TLC
CONSTANTS Paths, MaxOps, MaxClock, Dev

None == "none"
\* file names: <<p, 0, 0>> is the path p itself; <<p, t + 1, k>> is the k-th rotation of p made at clock value t
\* (TLC's equality is typed, so all names have one shape)
Names == {<<p, t, k>> : p \in Paths, t \in 0..(MaxClock + 1), k \in 0..MaxOps}
File(p) == <<p, 0, 0>>
Base(f) == f[1]
PreId(p) == IF p = (CHOOSE q \in Paths : TRUE) THEN 101 ELSE 102    \* id of the record a pre-existing file holds

VARIABLES clock, exists, content, cur, nw, dest, pre, closed, preE, ino
vars == <<clock, exists, content, cur, nw, dest, pre, closed, preE, ino>>
\* preE: the pre-existing paths whose file is empty; ino: file name -> identity (PreId of the path for a file that was
\* there before the writer started, 0 for a file the writer created or for no file)
\* exists: set of file names on disk; content: name -> sequence of record ids; cur: current_path;
\* dest: history, record id -> path its template names; pre: set of paths that existed before the writer started

InitFiles == /\ exists = {File(p) : p \in pre}
             /\ content = [f \in Names |-> IF f[2] = 0 /\ f[1] \in pre \ preE THEN <<PreId(f[1])>> ELSE <<>>]
             /\ ino = [f \in Names |-> IF f[2] = 0 /\ f[1] \in pre THEN PreId(f[1]) ELSE 0]
Init == /\ clock = 0 /\ pre \in SUBSET Paths /\ preE \in SUBSET pre /\ InitFiles
        /\ cur = None /\ nw = 0 /\ dest = <<>> /\ closed = FALSE

\* the rotation name for path p at the current clock
RotName(p) == IF "RotateStampCollision" \in Dev THEN <<p, clock + 1, 0>>
              ELSE <<p, clock + 1, CHOOSE k \in 0..MaxOps : <<p, clock + 1, k>> \notin exists /\ \A j \in 0..(k - 1) : <<p, clock + 1, j>> \in exists>>

Write(p) == /\ ~closed /\ nw < MaxOps
            /\ LET id == nw + 1
                   switch == cur # p
                   fp == File(p)
                   rot == switch /\ fp \in exists /\ ~("SkipEmptyRotation" \in Dev /\ content[fp] = <<>>)
                   dst == RotName(p)
                   ex1 == IF rot THEN (exists \ {fp}) \cup {dst} ELSE exists
                   c1 == IF rot THEN [content EXCEPT ![dst] = content[fp], ![fp] = <<>>] ELSE content
                   ex2 == IF switch THEN ex1 \cup {fp} ELSE ex1
                   c2 == IF switch THEN [c1 EXCEPT ![fp] = <<>>] ELSE c1
               IN /\ exists' = ex2
                  /\ content' = [c2 EXCEPT ![fp] = Append(@, id)]
                  /\ ino' = IF rot THEN [ino EXCEPT ![dst] = ino[fp], ![fp] = 0] ELSE ino
                  /\ nw' = id /\ dest' = Append(dest, p) /\ cur' = p
            /\ UNCHANGED <<clock, pre, closed, preE>>
Tick == clock < MaxClock /\ clock' = clock + 1 /\ UNCHANGED <<exists, content, cur, nw, dest, pre, closed, preE, ino>>
Close == ~closed /\ closed' = TRUE /\ UNCHANGED <<clock, exists, content, cur, nw, dest, pre, preE, ino>>
Next == (\E p \in Paths : Write(p)) \/ Tick \/ Close
Spec == Init /\ [][Next]_vars

\* ---------------- C17 (rotation part) ----------------
SeqToSet(q) == {q[i] : i \in DOMAIN q}
Holders(id) == {f \in exists : id \in SeqToSet(content[f])}
\* every record ever on disk -- written or pre-existing -- is in exactly one file ...
NoLoss == /\ \A id \in 1..nw : Cardinality(Holders(id)) = 1
          /\ \A p \in pre \ preE : Cardinality(Holders(PreId(p))) = 1
\* a file that existed before the writer started still exists (under its own or a rotation name of its path) and the
\* writer has put nothing into it
NeverOverwrites == \A p \in pre : \E f \in exists : /\ ino[f] = PreId(p) /\ Base(f) = p
                                                   /\ \A i \in DOMAIN content[f] : content[f][i] > 100
\* ... and that file is the one its template names, or a renamed copy of it
InRightFile == /\ \A id \in 1..nw : \A f \in Holders(id) : Base(f) = dest[id]
               /\ \A p \in pre \ preE : \A f \in Holders(PreId(p)) : Base(f) = p
\* records of one path keep their write order inside a file
OrderKept == \A f \in exists : \A i, j \in DOMAIN content[f] : i < j => content[f][i] < content[f][j] \/ content[f][i] > 100
=============================================================================
