SPECIFICATION TSpec
CONSTANTS
  Protos = {"tcp", "http"}
  Limit = 20
  MaxOps = 10
  MayFail = FALSE
  Dev = {}
INVARIANT Contract
CHECK_DEADLOCK FALSE
