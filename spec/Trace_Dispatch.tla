---------------------------- MODULE Trace_Dispatch ----------------------------
(* Conformance of RecordWriter(url) / RecordReader(url) with Dispatch (C11, writer side).  One case = one URL built from
   (scheme, ext1, ext2, query), what RecordWriter did with it -- the adapter class it returned, the file that appeared,
   the codec and container found in that file by standard decompressors and an independent sniffer -- and whether
   RecordReader(url) returned the records again. *)
EXTENDS Dispatch, Json, IOUtils
Cases == JsonDeserialize(IOEnv.TRACE_FILE)
VARIABLE cid
TInit == cid \in 1..Len(Cases) /\ s = Cases[cid].s /\ e1 = Cases[cid].e1 /\ e2 = Cases[cid].e2 /\ q = Cases[cid].q
         /\ clobber = Cases[cid].clobber /\ exists = Cases[cid].exists
TNext == UNCHANGED <<cid, s, e1, e2, q, clobber, exists>>
TSpec == TInit /\ [][TNext]_<<cid, s, e1, e2, q, clobber, exists>>
C == Cases[cid]
A == AdapterQ(s, e1, e2, q)
Cd == IF UsesOpenPath(A) THEN CodecOfExt(LastExt(e1, e2)) ELSE "none"
Contract == IF Refuses THEN C.raised /\ C.untouched                 \* an existing file is refused and stays as it was
            ELSE
            /\ C.adapter = A
            /\ Supported(A, Cd) =>
                 /\ ~C.raised
                 /\ C.file_ok                                   \* exactly the named file appeared (no scheme, no query in its name)
                 /\ C.codec = Cd
                 /\ C.container = ContainerOf(A)
                 /\ (C.readback_checked => C.readback_ok)
=============================================================================
