SPECIFICATION Spec
CONSTANTS
  MaxLen = 5
  Dev = {"IgnoreCase"}
INVARIANT FieldInclusion
INVARIANT TypeInclusion
INVARIANT FieldComplete
INVARIANT SlipIsOnlyNewline
CHECK_DEADLOCK FALSE
