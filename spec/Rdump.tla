---------------------------- MODULE Rdump ----------------------------
(* Layer 8: the rdump command-line pipeline as a pure function on sequences.
   Anchors: flow/record/tools/rdump.py main(); flow/record/stream.py record_stream (per-source isolation),
   RecordFieldRewriter; flow/record/base.py iter_timestamped_records; adapter/split.py.

     sources --(each: intact prefix; a failing source never stops later ones)--> concatenation
       --(selector, evaluated INSIDE each reader)--> filtered --(skip, count)--> sliced
       --(--record-source / --record-classification)--> overridden --(-F / -X)--> projected
       --(--multi-timestamp)--> expanded --(--split)--> parts
   Output mode / writer and -n (interpreted selector) only change the rendering, never the sequence. *)
EXTENDS Naturals, Sequences, FiniteSets, TLC

\* ---- records: id is unique and is the value of field n ----
\* A and A2 are two descriptors with the SAME type name and different fields
FieldsOf(d) == CASE d = "A" -> <<"s", "n", "t1", "t2">> [] d = "A2" -> <<"n", "s", "extra">> [] d = "B" -> <<"n", "other">>
DtFields == {"t1", "t2"}
SVal(id) == IF id % 2 = 1 THEN "a" ELSE "b"          \* value of A.s
OVal(id) == IF id % 3 = 0 THEN "y" ELSE "x"          \* value of B.other
Rec(id, d) == [id |-> id, d |-> d]
\* ---- selectors: Python meaning over a record; a comparison on a field the record lacks is False (C08) ----
Sels == {"none", "n_gt_2", "other_y", "s_b", "n_ge_other", "other_ge_x", "not_other_y"}
Match(sel, r) == CASE sel = "none" -> TRUE
                   [] sel = "n_gt_2" -> r.id > 2
                   [] sel = "other_y" -> r.d = "B" /\ OVal(r.id) = "y"
                   [] sel = "s_b" -> r.d \in {"A", "A2"} /\ SVal(r.id) = "b"
                   [] sel = "n_ge_other" -> r.id >= 2 /\ r.d = "B" /\ OVal(r.id) = "y"
                   [] sel = "other_ge_x" -> r.d = "B"                                       \* r.other >= 'x' : "x" and "y" both qualify
                   [] sel = "not_other_y" -> ~(r.d = "B" /\ OVal(r.id) = "y")             \* not (r.other == 'y')
\* ---- sources ----
Readable(src) == CASE src.kind = "good" -> src.recs
                   [] src.kind = "trunc" -> SubSeq(src.recs, 1, src.keep)
                   [] OTHER -> <<>>                                                       \* missing, garbage
RECURSIVE Concat(_)
Concat(ss) == IF ss = <<>> THEN <<>> ELSE Readable(Head(ss)) \o Concat(Tail(ss))
\* ---- pipeline ----
Slice(q, skip, cnt) == LET a == IF skip >= Len(q) THEN <<>> ELSE SubSeq(q, skip + 1, Len(q))
                       IN IF cnt = 0 \/ cnt >= Len(a) THEN a ELSE SubSeq(a, 1, cnt)        \* cnt = 0: no limit
InSeq(x, q) == \E i \in DOMAIN q : q[i] = x
Project(fs, fields, excl) ==
   IF fields = <<>> THEN SelectSeq(fs, LAMBDA f : ~InSeq(f, excl))
   ELSE SelectSeq(fields, LAMBDA f : InSeq(f, fs) /\ ~InSeq(f, excl))                      \* -F order wins, unknown names dropped
\* cfg.override: "no" | "set" (--record-source OVR --record-classification CLS) | "empty" (both given as the empty
\* string: an override that BLANKS the metadata is still an override)
OutRec(r, cfg, fs, tsd) == [id |-> r.id, d |-> r.d, fields |-> fs,
                            src |-> CASE cfg.override = "set" -> "OVR" [] cfg.override = "empty" -> "" [] OTHER -> "orig",
                            cls |-> CASE cfg.override = "set" -> "CLS" [] cfg.override = "empty" -> "" [] OTHER -> "none", tsd |-> tsd]
\* --multi-timestamp: one record per datetime field left after projection (in field order), annotated with
\* ts / ts_description in front; a record without datetime fields passes unchanged
Expand(r, cfg) ==
   LET fs == Project(FieldsOf(r.d), cfg.fields, cfg.excl)
       dts == SelectSeq(fs, LAMBDA f : f \in DtFields)
   IN IF ~cfg.mts \/ dts = <<>> THEN <<OutRec(r, cfg, fs, "none")>>
      ELSE [i \in DOMAIN dts |-> OutRec(r, cfg, <<"ts", "ts_description">> \o fs, dts[i])]
RECURSIVE FlatMap(_, _)
FlatMap(q, cfg) == IF q = <<>> THEN <<>> ELSE Expand(Head(q), cfg) \o FlatMap(Tail(q), cfg)
Filtered(srcs, cfg) == SelectSeq(Concat(srcs), LAMBDA r : Match(cfg.sel, r))
Pipeline(srcs, cfg) == FlatMap(Slice(Filtered(srcs, cfg), cfg.skip, cfg.cnt), cfg)
\* --list: instead of records, the unique record descriptors of the sliced (and projected) records in order of first
\* appearance, then the number of records processed.  A descriptor is its type name and its ordered field list.
TypeName(d) == IF d = "B" THEN "t/b" ELSE "t/a"
Sliced(srcs, cfg) == Slice(Filtered(srcs, cfg), cfg.skip, cfg.cnt)
DescAfter(r, cfg) == [name |-> TypeName(r.d), fields |-> Project(FieldsOf(r.d), cfg.fields, cfg.excl)]
RECURSIVE Uniq(_, _)
Uniq(q, seen) == IF q = <<>> THEN <<>> ELSE IF Head(q) \in seen THEN Uniq(Tail(q), seen) ELSE <<Head(q)>> \o Uniq(Tail(q), seen \cup {Head(q)})
ListOut(srcs, cfg) == LET q == Sliced(srcs, cfg) IN Uniq([i \in DOMAIN q |-> DescAfter(q[i], cfg)], {})
\* --split: greedy parts; as built a trailing (possibly empty) part always exists
RECURSIVE Chunk(_, _)
Chunk(q, k) == IF k = 0 THEN <<q>> ELSE IF Len(q) < k THEN <<q>>
               ELSE <<SubSeq(q, 1, k)>> \o Chunk(SubSeq(q, k + 1, Len(q)), k)
RECURSIVE Flat(_)
Flat(ps) == IF ps = <<>> THEN <<>> ELSE Head(ps) \o Flat(Tail(ps))
=============================================================================
