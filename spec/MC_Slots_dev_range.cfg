SPECIFICATION Spec
CONSTANTS
  MaxOps = 4
  Dev = {"NoRangeCheck"}
INVARIANT SlotsTyped
INVARIANT FailedAssignIsNoOp
INVARIANT FreshStartsEmpty
CHECK_DEADLOCK FALSE
