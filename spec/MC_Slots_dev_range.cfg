SPECIFICATION Spec
CONSTANTS
  MaxOps = 4
  Dev = {"NoRangeCheck"}
INVARIANT SlotsTyped
INVARIANT FailedAssignIsNoOp
CHECK_DEADLOCK FALSE
