SPECIFICATION Spec
CONSTANTS
  MaxOps = 4
  Dev = {}
INVARIANT SlotsTyped
INVARIANT FailedAssignIsNoOp
CHECK_DEADLOCK FALSE
