SPECIFICATION Spec
INVARIANT Aware
INVARIANT InputInstant
INVARIANT InstantKept
INVARIANT OffsetRule
INVARIANT DisplayOnlyShows
CHECK_DEADLOCK FALSE
