SPECIFICATION Spec
INVARIANT OutIsFilter
INVARIANT SameEnd
INVARIANT Pure
INVARIANT SameValues
CHECK_DEADLOCK FALSE
INVARIANT RefAgrees
