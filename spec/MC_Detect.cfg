SPECIFICATION Spec
CONSTANT Dev = {}
INVARIANT Transparent
INVARIANT RefusesJunk
CHECK_DEADLOCK FALSE
