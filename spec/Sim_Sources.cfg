SPECIFICATION Spec
CONSTANTS
  Readers = {"a", "b"}
  N = 3
  Dev = {}
INVARIANT Independent
CHECK_DEADLOCK FALSE
