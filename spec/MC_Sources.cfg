SPECIFICATION Spec
CONSTANTS
  Readers = {"a", "b", "c"}
  N = 3
  Dev = {}
INVARIANT Independent
CHECK_DEADLOCK FALSE
