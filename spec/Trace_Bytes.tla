---------------------------- MODULE Trace_Bytes ----------------------------
(* Conformance of the real stream writer/reader with StreamBytes (C04).  One case = the frame layout of a
   stream the real writer produced (kinds and body sizes found by the independent decoder), the number of
   bytes that reached the disk (a cut of the finished file, or a failing / short fp.write), and what the
   real reader did with that disk content.
     Contract (verdict)  StreamBytes!ContractOK on the observation + identity of the yielded records
     Design   (drift)    the observation equals StreamBytes!DesignRead; the writer's fp.write calls are
                         length part then body, frame by frame                                         *)
EXTENDS Naturals, Sequences, FiniteSets, TLC, Json, IOUtils, SequencesExt
Cases == JsonDeserialize(IOEnv.TRACE_FILE)
SB == INSTANCE StreamBytes WITH MaxFrames <- 0, LenSize <- 4, BodySizes <- {}, HdrBody <- 15, Dev <- {}, DescIds <- {}, MaxTransient <- 1,
                                layout <- <<>>, disk <- 0, pc <- "idle", dead <- FALSE, holes <- FALSE
VARIABLE cid
Init == cid \in 1..Len(Cases)
Next == UNCHANGED cid
Spec == Init /\ [][Next]_cid
C == Cases[cid]
\* the logged layout: ids arrive as a JSON list, the model wants a set
Lay == [i \in DOMAIN C.layout |-> [k |-> C.layout[i].k, len |-> C.layout[i].len, lost |-> C.layout[i].lost, hole |-> C.layout[i].hole,
                                     ids |-> {C.layout[i].ids[j] : j \in DOMAIN C.layout[i].ids}]]
\* for compressed containers the plain prefix a streaming decoder recovers is what "is on disk"; a clean end
\* is then not pinned (the container itself is damaged)
Contract == /\ C.obs.identical
            /\ IF C.pin_boundary
               THEN SB!ContractOK(Lay, C.cut, C.obs.yielded, C.obs.how)
               ELSE C.obs.yielded = SB!Expected(Lay, C.cut).y /\ C.obs.how \in {"end", "raise"}
Design == LET r == SB!DesignRead(Lay, C.cut) IN
            C.raw => (C.obs.how = r.how /\ C.obs.yielded = r.y)
\* fp.write call sizes made by the writer up to the fault: 4, body, 4, body, ... (a frame lost to a transient
\* failure shows its length call only)
RECURSIVE Flat(_, _)
Flat(lay, i) == IF i > Len(lay) THEN <<>> ELSE (IF lay[i].lost THEN <<4>> ELSE <<4, lay[i].len>>) \o Flat(lay, i + 1)     \* (a body call that failed was still made)
\* (histories with a short write that the writer completes show the part in two or more calls: not compared)
DesignCalls == C.calls_comparable => IsPrefix(C.calls, Flat(Lay, 1))
=============================================================================
