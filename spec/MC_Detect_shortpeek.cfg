SPECIFICATION Spec
CONSTANT Dev = {}
INVARIANT AlwaysRecognised
CHECK_DEADLOCK FALSE
