SPECIFICATION Spec
CONSTANT Dev = {"RootNameOnly"}
INVARIANT OnlyWhitelistedInvoked
CHECK_DEADLOCK FALSE
