SPECIFICATION Spec
CONSTANTS
  FieldSets = {{}, {"a"}, {"a", "b"}}
  MaxDepth = 3
  MaxOps = 14
  Dev = {}
PROPERTY ScopeRestores
CHECK_DEADLOCK FALSE
