SPECIFICATION Spec
CONSTANT Dev = {"FirstExtension"}
INVARIANT CompressedByExtension
INVARIANT SchemeWins
CHECK_DEADLOCK FALSE
