---------------------------- MODULE Trace_SplunkNames ----------------------------
(* Conformance of the Splunk renderings with Splunk's naming rules.  One case = one record rendered by the real
   record_to_splunk_kv_line / record_to_splunk_tcp_api_json / record_to_splunk_http_api_json and taken apart by an
   independent parser of the driver: the field names found (decomposed into <<#"rd_", leading underscore, base>>),
   whether every value was recovered exactly, and for the HTTP form which indexer keys were present.            *)
EXTENDS Splunk, Json, IOUtils
Cases == JsonDeserialize(IOEnv.TRACE_FILE)
VARIABLE cid
TInit == /\ cid \in 1..Len(Cases)
         /\ proto = "tcp" /\ st = "open" /\ nw = 0 /\ buffer = <<>> /\ sent = <<>> /\ dropped = <<>> /\ raisedW = FALSE /\ nops = 0
TNext == UNCHANGED <<vars, cid>>
TSpec == TInit /\ [][TNext]_<<vars, cid>>
C == Cases[cid]
N(x) == <<x[1], x[2] = 1, x[3]>>                         \* JSON has no tuples with booleans of TLC's liking: [p, 0/1, base]
Own == << <<0, FALSE, "rdtype">>, <<0, FALSE, "rdtag">> >>
Kept == SelectSeq([i \in DOMAIN C.fields |-> N(C.fields[i])], LAMBDA f : f # <<0, TRUE, "version">>)
Esc(q) == [i \in DOMAIN q |-> Escape(q[i])]
Found == [i \in DOMAIN C.found |-> N(C.found[i])]
Contract ==
   /\ ~C.raised
   /\ CASE C.kind = "escape" -> Found = Esc(Kept)                                            \* escape_field_name alone, name by name
        [] C.kind = "kv" -> Found = Own \o Esc(Kept)                                          \* rdtype, rdtag, then the fields in order
        [] OTHER -> SeqToSet(Found) = SeqToSet(Esc(Kept)) \cup SeqToSet(Own) /\ Len(Found) = Len(Kept) + 2   \* a JSON object: a set of keys
   /\ C.values_ok                                                                             \* every value recovered exactly by the parser
   /\ C.own_ok                                                                                \* rdtype = the type name, rdtag = the tag (or None / null)
=============================================================================
