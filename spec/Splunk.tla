---------------------------- MODULE Splunk ----------------------------
(* Layer 5: the Splunk forwarding writer (a writer whose "file" is a transport: a TCP connection or an HTTP event
   collector).  Anchor: flow/record/adapter/splunk.py SplunkWriter.{__init__,write,flush,close,_send_tcp,
   _send_http,_cache_records_for_http}, escape_field_name, record_to_splunk_kv_line, record_to_splunk_json,
   record_to_splunk_http_api_json.

   Transport part.  Over TCP every record is sent on its own as soon as it is written.  Over HTTP(S) records
   are collected in `buffer` and POSTed as one body when Limit of them are there, on flush() and on close().
   `sent` is the sequence of transmissions (each a sequence of record ids) the peer received.  A POST that the
   collector answers with an error raises out of write()/flush(); the body it carried has been taken out of the
   buffer by then and is not retried (as built: PostFails moves it to `dropped`).

   Rendering part.  A record's field names are escaped so that they cannot collide with Splunk's own fields,
   with the two fields the writer adds (rdtag, rdtype), or with each other.  A name is modelled as
   <<p, u, base>> = p copies of "rd_", then "_" if u, then a base that starts with neither.

   Dev: "CloseNoFlush"   close() does not POST what is still buffered                     (sensitivity: Delivered)
        "LimitOffByOne"  the body is POSTed when MORE than Limit records are buffered     (sensitivity: BodyBound)
        "EscapeOnce"     names that already start with "rd_" are left alone               (sensitivity: EscapeInjective) *)
EXTENDS Naturals, Sequences, SequencesExt, FiniteSets, TLC
CONSTANTS Protos, Limit, MaxOps, Dev, MayFail

VARIABLES proto, st, nw, buffer, sent, dropped, raisedW, nops
vars == <<proto, st, nw, buffer, sent, dropped, raisedW, nops>>

Init == /\ proto \in Protos /\ st = "open" /\ nw = 0 /\ buffer = <<>> /\ sent = <<>> /\ dropped = <<>>
        /\ raisedW = FALSE /\ nops = 0
Tick == nops < MaxOps /\ nops' = nops + 1

Full(b) == IF "LimitOffByOne" \in Dev THEN Len(b) > Limit ELSE Len(b) >= Limit
\* POST the buffered records (b = the buffer including what this call adds); ok = the collector's answer
Post(b, ok) == /\ buffer' = <<>>
               /\ IF ok THEN sent' = Append(sent, b) /\ UNCHANGED dropped
                        ELSE dropped' = dropped \o b /\ UNCHANGED sent
               /\ raisedW' = ~ok

Write == /\ st = "open" /\ Tick /\ nw' = nw + 1
         /\ IF proto = "tcp"
            THEN sent' = Append(sent, <<nw + 1>>) /\ raisedW' = FALSE /\ UNCHANGED <<buffer, dropped>>
            ELSE LET b == Append(buffer, nw + 1) IN
                 IF Full(b) THEN \E ok \in (IF MayFail THEN BOOLEAN ELSE {TRUE}) : Post(b, ok)
                 ELSE buffer' = b /\ raisedW' = FALSE /\ UNCHANGED <<sent, dropped>>
         /\ UNCHANGED <<proto, st>>
DoFlush == IF proto # "tcp" /\ buffer # <<>>
           THEN \E ok \in (IF MayFail THEN BOOLEAN ELSE {TRUE}) : Post(buffer, ok)
           ELSE raisedW' = FALSE /\ UNCHANGED <<buffer, sent, dropped>>
\* flush() on a closed writer finds nothing buffered and does nothing
Flush == /\ Tick /\ UNCHANGED <<proto, st, nw>>
         /\ IF st = "open" THEN DoFlush ELSE raisedW' = FALSE /\ UNCHANGED <<buffer, sent, dropped>>
Close == /\ Tick /\ st' = "closed" /\ UNCHANGED <<proto, nw>>
         /\ IF st = "open" /\ "CloseNoFlush" \notin Dev THEN DoFlush
            ELSE raisedW' = FALSE /\ UNCHANGED <<buffer, sent, dropped>>
Next == Write \/ Flush \/ Close
Spec == Init /\ [][Next]_vars

Flat(ss) == FlattenSeq(ss)
Ids(n) == [i \in 1..n |-> i]
SeqToSet(q) == {q[i] : i \in DOMAIN q}
\* nothing is invented, duplicated or reordered on the way: what the peer has plus what is buffered is what was written
\* (minus the bodies an answering-with-an-error collector was given)
Conservation == /\ SeqToSet(Flat(sent)) \cup SeqToSet(buffer) \cup SeqToSet(dropped) = 1..nw
                /\ Len(Flat(sent)) + Len(buffer) + Len(dropped) = nw
                /\ \A i, j \in DOMAIN Flat(sent) : i < j => Flat(sent)[i] < Flat(sent)[j]
\* once closed nothing is left inside the writer; without transport errors the peer has every record, in order
Delivered == st = "closed" => (buffer = <<>> /\ (dropped = <<>> => Flat(sent) = Ids(nw)))
\* no transmission is empty or larger than the limit
BodyBound == \A i \in DOMAIN sent : Len(sent[i]) >= 1 /\ Len(sent[i]) <= (IF proto = "tcp" THEN 1 ELSE Limit)
FlushEmpties == [][(Flush \/ Close) => buffer' = <<>>]_vars

\* ---------------- field names ----------------
Bases == {"host", "source", "sourcetype", "tag", "type", "rdtag", "rdtype", "x", "ts"}
ReservedBases == {"host", "index", "linecount", "punct", "source", "sourcetype", "splunk_server", "timestamp", "tag", "type", "rdtag", "rdtype"}
FieldNames == {<<p, u, b>> : p \in 0..2, u \in BOOLEAN, b \in Bases}
Escape(n) == IF n[2] \/ (n[1] > 0 /\ "EscapeOnce" \notin Dev) \/ (n[1] = 0 /\ ~n[2] /\ n[3] \in ReservedBases)
             THEN <<n[1] + 1, n[2], n[3]>> ELSE n
Plain(n) == n[1] = 0 /\ ~n[2]
\* (nops >= 0 makes these state-level formulas: TLC reports a constant-level invariant that is false in a way of its own)
EscapeInjective == nops >= 0 /\ \A a, b \in FieldNames : a # b => Escape(a) # Escape(b)
\* an escaped name is never one of Splunk's, never one of the writer's own two, never starts with an underscore
EscapedSafe == nops >= 0 /\ \A a \in FieldNames : LET e == Escape(a) IN ~(Plain(e) /\ e[3] \in ReservedBases) /\ ~(e[1] = 0 /\ e[2])
=============================================================================
