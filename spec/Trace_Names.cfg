SPECIFICATION Spec
CONSTANT Dev = {}
INVARIANT Contract
INVARIANT Design
INVARIANT Resplit
CHECK_DEADLOCK FALSE
