---------------------------- MODULE Selector ----------------------------
(* Layer 6: the selector language.  This module is the REFERENCE SEMANTICS: the Python meaning of a selector
   expression over a record, as a recursive operator Ev(e, env) on a small tagged value domain.
   Anchor: flow/record/selector.py (Selector / RecordContextMatcher._eval, CompiledSelector, NoneObject,
   helper functions).

   Values are tagged records because TLC's equality is typed.  Text is a sequence of code units.
     Err  = Python raises on this expression / these operands
     Un   = deliberately not modelled (e.g. str * int); such cases are never compared
     Mi   = the missing-field sentinel: a field the record does not have.  C08: every comparison with it is
            False; it is falsy; helper functions skip it.
   The reference semantics is itself cross-validated against CPython's eval on every case the conformance
   drivers generate (RefOK in Trace_Selector.tla); a disagreement there is a machinery error. *)
EXTENDS Integers, Sequences, FiniteSets, TLC
\* ---------- tagged values ----------
I(n)  == [t |-> "int", v |-> n]
Bv(b) == [t |-> "bool", v |-> b]
Nn    == [t |-> "none"]
S(q)  == [t |-> "str", v |-> q]          \* q : Seq(Nat) code units
Li(q) == [t |-> "list", v |-> q]         \* q : Seq(value)
Tu(q) == [t |-> "tuple", v |-> q]
Ip(q) == [t |-> "ip", v |-> q]           \* net.ipaddress; q : its canonical text
Pa(q) == [t |-> "path", v |-> q]         \* posix path; q : its text
Mi    == [t |-> "missing"]
Err   == [t |-> "err"]
Un    == [t |-> "unspec"]
Bad(x) == x.t \in {"err", "unspec"}
Worst(x, y) == IF x.t = "err" \/ y.t = "err" THEN Err ELSE Un      \* err dominates unspec
IsNum(x) == x.t \in {"int", "bool"}
Num(x) == IF x.t = "int" THEN x.v ELSE IF x.v THEN 1 ELSE 0
IsSeq(x) == x.t \in {"list", "tuple"}
\* ---------- text helpers ----------
RECURSIVE LexLt(_, _)
LexLt(a, b) == IF b = <<>> THEN FALSE ELSE IF a = <<>> THEN TRUE
               ELSE IF Head(a) # Head(b) THEN Head(a) < Head(b) ELSE LexLt(Tail(a), Tail(b))
IsPrefixOf(p, s) == Len(p) <= Len(s) /\ SubSeq(s, 1, Len(p)) = p
SubStr(p, s) == \E i \in 0..(Len(s) - Len(p)) : SubSeq(s, i + 1, i + Len(p)) = p
Lower(q) == [i \in DOMAIN q |-> IF q[i] >= 65 /\ q[i] <= 90 THEN q[i] + 32 ELSE q[i]]
Upper(q) == [i \in DOMAIN q |-> IF q[i] >= 97 /\ q[i] <= 122 THEN q[i] - 32 ELSE q[i]]
RECURSIVE Digits(_)
Digits(n) == IF n < 10 THEN <<48 + n>> ELSE Digits(n \div 10) \o <<48 + (n % 10)>>
RECURSIVE BAnd(_, _), BOr(_, _)
BAnd(x, y) == IF x = 0 \/ y = 0 THEN 0 ELSE ((x % 2) * (y % 2)) + 2 * BAnd(x \div 2, y \div 2)
BOr(x, y)  == IF x = 0 THEN y ELSE IF y = 0 THEN x ELSE (IF (x % 2) + (y % 2) > 0 THEN 1 ELSE 0) + 2 * BOr(x \div 2, y \div 2)
\* ---------- Python equality / ordering / membership ----------
RECURSIVE PyEq(_, _)
TextLike(x) == x.t \in {"ip", "path"}
PyEq(x, y) == IF IsNum(x) /\ IsNum(y) THEN Num(x) = Num(y)
              ELSE IF TextLike(x) /\ y.t = "str" THEN x.v = y.v        \* the field types compare equal to their text form
              ELSE IF TextLike(y) /\ x.t = "str" THEN x.v = y.v
              ELSE IF TextLike(x) /\ x.t = y.t THEN x.v = y.v
              ELSE IF x.t # y.t THEN FALSE
              ELSE IF x.t = "none" THEN TRUE
              ELSE IF x.t = "str" THEN x.v = y.v
              ELSE IF IsSeq(x) THEN Len(x.v) = Len(y.v) /\ \A i \in DOMAIN x.v : PyEq(x.v[i], y.v[i])
              ELSE FALSE
\* returns tagged bool / Err / Un
PyLt(x, y) == IF TextLike(x) \/ TextLike(y) THEN Un
              ELSE IF IsNum(x) /\ IsNum(y) THEN Bv(Num(x) < Num(y))
              ELSE IF x.t = "str" /\ y.t = "str" THEN Bv(LexLt(x.v, y.v))
              ELSE IF IsSeq(x) /\ x.t = y.t THEN Un
              ELSE Err
\* [t |-> "tref", v |-> values] is what `Type.<t>` denotes: the values of all fields of that type, in field order.  A
\* comparison with it on the LEFT is true at the first value for which the operator holds (an operator that raises on
\* an earlier value raises).
RECURSIVE Cmp(_, _, _), ScanTyped(_, _, _, _)
Cmp(op, x, y) ==
  IF x.t = "tref" THEN (IF Bad(y) THEN y ELSE IF y.t = "tref" THEN Un ELSE ScanTyped(op, x.v, y, FALSE))
  ELSE IF y.t = "tref" THEN Un
  ELSE IF Bad(x) \/ Bad(y) THEN Worst(x, y)
  ELSE IF x.t = "missing" \/ y.t = "missing" THEN Bv(FALSE)                  \* C08: every comparison with a missing field is false
  ELSE IF x.t \in {"net", "cmd"} \/ y.t \in {"net", "cmd"} THEN Un             \* network arithmetic / command comparison are not modelled
  ELSE CASE op = "Eq"    -> Bv(PyEq(x, y))
         [] op = "NotEq" -> Bv(~PyEq(x, y))
         [] op = "Lt"    -> PyLt(x, y)
         [] op = "Gt"    -> PyLt(y, x)
         [] op = "LtE"   -> LET a == PyLt(y, x) IN IF Bad(a) THEN a ELSE Bv(~a.v)   \* total orders only in this domain
         [] op = "GtE"   -> LET a == PyLt(x, y) IN IF Bad(a) THEN a ELSE Bv(~a.v)
         [] op \in {"In", "NotIn"} /\ (TextLike(x) \/ TextLike(y)) -> Un
         [] op = "In"    -> IF y.t = "str" THEN (IF x.t = "str" THEN Bv(SubStr(x.v, y.v)) ELSE Err)
                            ELSE IF IsSeq(y) THEN Bv(\E i \in DOMAIN y.v : PyEq(x, y.v[i]))
                            ELSE Err
         [] op = "NotIn" -> IF y.t = "str" THEN (IF x.t = "str" THEN Bv(~SubStr(x.v, y.v)) ELSE Err)
                            ELSE IF IsSeq(y) THEN Bv(~\E i \in DOMAIN y.v : PyEq(x, y.v[i]))
                            ELSE Err
Truth(x) == CASE Bad(x) -> x
              [] x.t = "tref" -> Un
              [] x.t = "missing" -> Bv(FALSE)
              [] x.t = "bool" -> x
              [] x.t = "int" -> Bv(x.v # 0)
              [] x.t = "none" -> Bv(FALSE)
              [] x.t \in {"str", "list", "tuple"} -> Bv(x.v # <<>>)
              [] x.t \in {"ip", "path", "net", "cmd"} -> Un
Bin(op, x, y) ==
  IF Bad(x) \/ Bad(y) THEN Worst(x, y)
  ELSE IF x.t = "missing" \/ y.t = "missing" \/ TextLike(x) \/ TextLike(y) \/ x.t \in {"net", "cmd"} \/ y.t \in {"net", "cmd"} THEN Un
  ELSE CASE op = "Add" -> IF IsNum(x) /\ IsNum(y) THEN I(Num(x) + Num(y))
                          ELSE IF x.t = "str" /\ y.t = "str" THEN S(x.v \o y.v)
                          ELSE IF x.t = y.t /\ IsSeq(x) THEN [t |-> x.t, v |-> x.v \o y.v]
                          ELSE Err
         [] op = "Mult" -> IF IsNum(x) /\ IsNum(y) THEN I(Num(x) * Num(y)) ELSE IF x.t = "none" \/ y.t = "none" THEN Err ELSE Un
         [] op = "Mod" -> IF IsNum(x) /\ IsNum(y) THEN (IF Num(y) = 0 THEN Err ELSE IF Num(y) < 0 \/ Num(x) < 0 THEN Un ELSE I(Num(x) % Num(y))) ELSE IF x.t = "str" THEN Un ELSE Err
         [] op = "Div" -> IF IsNum(x) /\ IsNum(y) THEN (IF Num(y) = 0 THEN Err ELSE Un) ELSE Err     \* true division yields a float: not modelled
         [] op = "Sub" -> IF IsNum(x) /\ IsNum(y) THEN I(Num(x) - Num(y)) ELSE Err
         [] op = "FloorDiv" -> IF IsNum(x) /\ IsNum(y) THEN (IF Num(y) = 0 THEN Err ELSE IF Num(x) >= 0 /\ Num(y) > 0 THEN I(Num(x) \div Num(y)) ELSE Un) ELSE Err
         [] op = "BitAnd" -> IF x.t = "bool" /\ y.t = "bool" THEN Bv(x.v /\ y.v) ELSE IF IsNum(x) /\ IsNum(y) THEN I(BAnd(Num(x), Num(y))) ELSE Err
         [] op = "BitOr" -> IF x.t = "bool" /\ y.t = "bool" THEN Bv(x.v \/ y.v) ELSE IF IsNum(x) /\ IsNum(y) THEN I(BOr(Num(x), Num(y))) ELSE Err
Call1(f, x) ==
  IF Bad(x) THEN x
  ELSE IF x.t \in {"net", "cmd"} THEN Un
  ELSE IF TextLike(x) THEN (IF f = "str" THEN S(x.v) ELSE x)
  ELSE CASE f = "lower" -> IF x.t = "str" THEN S(Lower(x.v)) ELSE x
         [] f = "upper" -> IF x.t = "str" THEN S(Upper(x.v)) ELSE x
         [] f = "str"   -> IF x.t = "str" THEN x ELSE IF x.t = "int" THEN S(Digits(x.v))
                           ELSE IF x.t = "bool" THEN S(IF x.v THEN <<84, 114, 117, 101>> ELSE <<70, 97, 108, 115, 101>>)     \* "True" / "False": a boolean is not its number
                           ELSE IF x.t = "none" THEN S(<<78, 111, 110, 101>>)
                           ELSE Un
Iter(x) == IF x.t \in {"list", "tuple"} THEN x.v
           ELSE IF x.t = "str" THEN [i \in DOMAIN x.v |-> S(<<x.v[i]>>)]
           ELSE <<>>
Iterable(x) == x.t \in {"list", "tuple", "str"}
\* ---------- helper functions of the selector namespace (field_equals / field_contains / field_regex) ----------
\* fields: sequence of field names; strs: sequence of text values; missing fields are SKIPPED (C08).
\* Only text-valued fields are modelled (a helper on a non-text value is "not defined": Un).
FieldVal(env, f) == IF f \in DOMAIN env THEN env[f] ELSE Mi
Helper(e, env) ==
  LET present == {i \in DOMAIN e.fields : FieldVal(env, e.fields[i]).t # "missing"}
      vals == {FieldVal(env, e.fields[i]) : i \in present}
      strs == {e.strs[i] : i \in DOMAIN e.strs}
  IN IF e.f = "field_equals" /\ \A v \in vals : v.t = "str" \/ TextLike(v)
     THEN Bv(\E v \in vals, q \in strs : IF v.t = "str" THEN Lower(v.v) = Lower(q) ELSE v.v = Lower(q))   \* lower() leaves non-text values alone
     ELSE IF \E v \in vals : v.t # "str" THEN Un
     ELSE CASE e.f = "field_equals"   -> Bv(\E v \in vals, q \in strs : Lower(v.v) = Lower(q))
            [] e.f = "field_contains" -> Bv(\E v \in vals, q \in strs : SubStr(Lower(q), Lower(v.v)))
            [] e.f = "field_regex"    -> Bv(\E v \in vals : SubStr(e.strs[1], v.v))      \* literal patterns only
\* ---------- typed field matchers: Type.<t> OP value, and value in Type.<t> ----------
\* The matcher scans the values of all fields of that type in field order and is true at the first value for
\* which the operator holds; an operator that raises on an earlier value (e.g. ordering with None) raises.
\* env["$types"] maps field name -> type name; env["$order"] is the field order.
ScanTyped(op, vals, other, swap) ==
  IF vals = <<>> THEN Bv(FALSE)
  ELSE LET v == Head(vals)
           r == IF swap THEN Cmp(op, other, v) ELSE Cmp(op, v, other)
       IN IF Bad(r) THEN r ELSE IF r.v THEN Bv(TRUE) ELSE ScanTyped(op, Tail(vals), other, swap)
\* the values `Type.<ty>` ranges over: the record's own fields of that type in field order, then -- depth first -- those of
\* the records it holds in `record` / `record[]` fields (env["$sub"]: their environments, in field and element order)
RECURSIVE TypedVals(_, _), CatTyped(_, _)
CatTyped(subs, ty) == IF subs = <<>> THEN <<>> ELSE TypedVals(Head(subs), ty) \o CatTyped(Tail(subs), ty)
TypedVals(env, ty) ==
  LET names == SelectSeq(env["$order"].v, LAMBDA f : env["$types"].v[f] = ty)
  IN [i \in DOMAIN names |-> env[names[i]]] \o (IF "$sub" \in DOMAIN env THEN CatTyped(env["$sub"].v, ty) ELSE <<>>)
TypedMatch(e, env) ==
  LET vals == TypedVals(env, e.ty)
      other == e.b.v
  IN IF e.form = "cmp" THEN ScanTyped(e.op, vals, other, FALSE)        \* Type.t OP const
     ELSE ScanTyped("In", vals, other, TRUE)                           \* const in Type.t  : contains(value, const)
\* ---------- expressions ----------
\* env: record fields + generator variable "x"
RECURSIVE Ev(_, _)
Ev(e, env) ==
  CASE e.k = "const" -> e.v
    [] e.k = "field" -> IF e.f \in DOMAIN env THEN env[e.f] ELSE Mi
    [] e.k = "var"   -> env["$x"]
    [] e.k = "var2"  -> env["$y"]
    [] e.k = "gen2"  -> \* any/all( elt for x in it if cond for y in it2 ): the filter belongs to the OUTER clause
         LET it == Ev(e.it, env) IN
         IF Bad(it) THEN it ELSE IF it.t = "missing" THEN Un ELSE IF ~Iterable(it) THEN Err
         ELSE LET xs == Iter(it)
                  envX(i) == [n \in DOMAIN env \cup {"$x"} |-> IF n = "$x" THEN xs[i] ELSE env[n]]
                  cond(i) == Truth(Ev(e.cond, envX(i)))
                  it2(i) == Ev(e.it2, envX(i))
                  ys(i) == Iter(it2(i))
                  envXY(i, j) == [n \in DOMAIN env \cup {"$x", "$y"} |-> IF n = "$x" THEN xs[i] ELSE IF n = "$y" THEN ys(i)[j] ELSE env[n]]
                  elt(i, j) == Truth(Ev(e.elt, envXY(i, j)))
                  badI(i) == Bad(cond(i)) \/ (~Bad(cond(i)) /\ cond(i).v /\ (Bad(it2(i)) \/ it2(i).t = "missing" \/ ~Iterable(it2(i)) \/ \E j \in DOMAIN ys(i) : Bad(elt(i, j))))
              IN IF \E i \in DOMAIN xs : badI(i) THEN Un
                 ELSE IF e.q = "any" THEN Bv(\E i \in DOMAIN xs : cond(i).v /\ \E j \in DOMAIN ys(i) : elt(i, j).v)
                 ELSE Bv(\A i \in DOMAIN xs : cond(i).v => \A j \in DOMAIN ys(i) : elt(i, j).v)
    [] e.k = "tref"  -> [t |-> "tref", v |-> TypedVals(env, e.ty)]
    [] e.k = "ctor"  -> [t |-> "net", v |-> e.arg]        \* a field-type constructor call: net.ipv4.Subnet('10.0.0.0/8'), net.ipnetwork(...)
    [] e.k = "tuple" -> LET xs == [i \in DOMAIN e.es |-> Ev(e.es[i], env)] IN
                        IF \E i \in DOMAIN xs : xs[i].t = "err" THEN Err ELSE IF \E i \in DOMAIN xs : xs[i].t = "unspec" THEN Un ELSE Tu(xs)
    [] e.k = "neg"   -> LET x == Ev(e.a, env) IN IF Bad(x) THEN x ELSE IF x.t = "missing" THEN Un ELSE IF IsNum(x) THEN I(0 - Num(x)) ELSE Err
    [] e.k = "helper" -> Helper(e, env)
    [] e.k = "typed"  -> TypedMatch(e, env)
    [] e.k = "hasfield" -> Bv(e.f \in DOMAIN env /\ e.f \notin {"$x", "$types", "$order", "$sub"})
    [] e.k = "list"  -> LET xs == [i \in DOMAIN e.es |-> Ev(e.es[i], env)] IN
                        IF \E i \in DOMAIN xs : xs[i].t = "err" THEN Err ELSE IF \E i \in DOMAIN xs : xs[i].t = "unspec" THEN Un ELSE Li(xs)
    [] e.k = "cmp"   -> Cmp(e.op, Ev(e.a, env), Ev(e.b, env))
    [] e.k = "chain" -> LET y == Ev(e.b, env) p == Cmp(e.op, Ev(e.a, env), y) q == Cmp(e.op2, y, Ev(e.c, env)) IN
                        IF Bad(p) \/ Bad(q) THEN Worst(p, q) ELSE Bv(p.v /\ q.v)
    [] e.k = "bool"  -> \* strict in both operands (cases with an undefined operand are never compared); the value
                        \* is the deciding operand, as in Python
                        LET x == Ev(e.a, env) y == Ev(e.b, env) p == Truth(x) q == Truth(y) IN
                        IF Bad(p) \/ Bad(q) THEN Worst(p, q)
                        ELSE IF e.op = "And" THEN (IF p.v THEN y ELSE x) ELSE (IF p.v THEN x ELSE y)
    [] e.k = "not"   -> LET p == Truth(Ev(e.a, env)) IN IF Bad(p) THEN p ELSE Bv(~p.v)
    [] e.k = "bin"   -> Bin(e.op, Ev(e.a, env), Ev(e.b, env))
    \* two forms OUTSIDE the documented language (the interpreted engine must reject them, wherever they sit):
    \* a subscript with a constant index and a conditional expression -- their Python meaning:
    [] e.k = "sub"   -> LET x == Ev(e.a, env) IN
                        IF Bad(x) THEN x ELSE IF x.t = "missing" \/ TextLike(x) THEN Un
                        ELSE IF IsSeq(x) THEN (IF e.i < Len(x.v) THEN x.v[e.i + 1] ELSE Err)
                        ELSE IF x.t = "str" THEN (IF e.i < Len(x.v) THEN S(<<x.v[e.i + 1]>>) ELSE Err)
                        ELSE Err
    \* a list comprehension (also outside the documented language): the list of elt for the items that pass the filter
    [] e.k = "listcomp" ->
         LET it == Ev(e.it, env) IN
         IF Bad(it) THEN it ELSE IF it.t = "missing" THEN Un ELSE IF ~Iterable(it) THEN Err
         ELSE LET items == Iter(it)
                  envOf(i) == [n \in DOMAIN env \cup {"$x"} |-> IF n = "$x" THEN items[i] ELSE env[n]]
                  cond(i) == Truth(Ev(e.cond, envOf(i)))
                  elt(i) == Ev(e.elt, envOf(i))
                  bad == \E i \in DOMAIN items : Bad(cond(i)) \/ (~Bad(cond(i)) /\ cond(i).v /\ (Bad(elt(i)) \/ elt(i).t = "missing"))
                  idxs == SelectSeq([i \in DOMAIN items |-> i], LAMBDA i : cond(i).v)
              IN IF bad THEN Un ELSE Li([j \in DOMAIN idxs |-> elt(idxs[j])])
    [] e.k = "ifexp" -> LET c == Truth(Ev(e.c, env)) x == Ev(e.a, env) y == Ev(e.b, env) IN      \* strict, like "bool"
                        IF Bad(c) \/ Bad(x) \/ Bad(y) THEN (IF c.t = "err" \/ x.t = "err" \/ y.t = "err" THEN Err ELSE Un)
                        ELSE IF c.v THEN x ELSE y
    [] e.k = "call"  -> Call1(e.f, Ev(e.a, env))
    [] e.k = "gen"   -> \* any/all( elt for x in it [if cond] )
         LET it == Ev(e.it, env) IN
         IF Bad(it) THEN it
         ELSE IF it.t = "missing" THEN Un
         ELSE IF ~Iterable(it) THEN Err
         ELSE LET items == Iter(it)
                  envOf(i) == [n \in DOMAIN env \cup {"$x"} |-> IF n = "$x" THEN items[i] ELSE env[n]]
                  cond(i) == IF e.hasif THEN Truth(Ev(e.cond, envOf(i))) ELSE Bv(TRUE)
                  elt(i)  == Truth(Ev(e.elt, envOf(i)))
                  bad == \E i \in DOMAIN items : Bad(cond(i)) \/ (~Bad(cond(i)) /\ cond(i).v /\ Bad(elt(i)))
                  anyErr == \E i \in DOMAIN items : cond(i).t = "err" \/ (~Bad(cond(i)) /\ cond(i).v /\ elt(i).t = "err")
              IN IF bad THEN (IF anyErr THEN Err ELSE Un)
                 ELSE IF e.q = "any" THEN Bv(\E i \in DOMAIN items : cond(i).v /\ elt(i).v)
                 ELSE Bv(\A i \in DOMAIN items : cond(i).v => elt(i).v)
=============================================================================

