---------------------------- MODULE Sqlite ----------------------------
(* Layer 5: the SQLite writer's transaction / commit / visibility / schema-evolution behaviour.
   Anchor: flow/record/adapter/sqlite.py SqliteWriter.{__init__,write,tx_cycle,flush,close},
   create_descriptor_table, update_descriptor_columns, db_insert_record.

   Working state (what the writer's own connection sees) versus committed state (what any other connection
   sees).  A write of a descriptor not seen before creates/extends the table and COMMITS before the insert;
   every batch-th insert commits after the insert; flush and close commit.  `count` is global across tables.

   Each action is split into Core (writer-side and history variables; independent of when commits happen)
   and Vis (the commit behaviour as built).  The design is Core /\ Vis; trace validation in contract mode
   takes Core and adopts the observed committed state instead of Vis.

   A database file outlives a writer: Reopen starts a new writer session on the same file (the new writer has seen no
   descriptor yet and counts from zero, the tables and their rows are still there), so a table may have to evolve in a
   LATER session than the one that created it.

   A writer may also DIE (Crash: the process is gone without close): what other connections see afterwards is what
   was committed before -- the open transaction is rolled back by SQLite's journal, whole.

   Dev: "CrashKeepsSpilledPages" (no on-disk rollback journal: rows of the open transaction that were already spilled to
        the file stay visible after the writer died),
        "SessionSkipsEvolution" (the first descriptor of a name seen by a session only creates the table if it does not
        exist, and never adds columns to one that does),
        "CloseNoCommit", "CommitOffByOne", "NoDescriptorCommit", "NoColumnEvolution" (sensitivity runs) *)
EXTENDS Naturals, Sequences, FiniteSets, TLC
CONSTANTS MaxOps, Batches, Dev, MaxSess

\* A, Aplus and Aplus2 share a table name and grow by one field each (the table evolves TWICE in one session);
\* C is a type whose name begins with "sqlite" (SQLite's own tables begin with "sqlite_": the reader must not
\* confuse the two)
\* Aalt is as wide as A but swaps a field for another one (a version that gains a field WITHOUT becoming wider)
\* R has a field literally called "rowid" (a valid field name that is also SQLite's name for its implicit row id)
McDescs == {"A", "Aplus", "Aplus2", "Aalt", "B", "C"}
Descs == McDescs \cup {"R"}
NameOf(d) == CASE d = "B" -> "tb" [] d = "C" -> "tc" [] d = "R" -> "tr" [] OTHER -> "ta"
FieldsOf(d) == CASE d = "A" -> <<"a", "n">> [] d = "Aplus" -> <<"a", "n", "extra">> [] d = "Aplus2" -> <<"a", "n", "extra", "extra2">> [] d = "Aalt" -> <<"a", "alt">>
                 [] d = "B" -> <<"q", "b", "ts", "p", "ip">> [] d = "C" -> <<"q">> [] d = "R" -> <<"rowid", "q">>
Tables == {"ta", "tb", "tc", "tr"}

VARIABLES cols,       \* table -> sequence of column names (<<>> = no such table)      [writer connection]
          rows,       \* table -> sequence of row ids in insert order                   [writer connection]
          ccols, crows,   \* committed: what another connection sees
          seen, count, batch, open, nw,   \* descriptors_seen, count, batch_size, con is not None, #records written
          bounds,     \* history: the record counts at which a commit is PERMITTED (batch boundaries)
          sess        \* number of writer sessions on this file so far
vars == <<cols, rows, ccols, crows, seen, count, batch, open, nw, bounds, sess>>
core == <<cols, rows, seen, count, batch, open, nw, bounds, sess>>

Init == /\ cols = [t \in Tables |-> <<>>] /\ rows = [t \in Tables |-> <<>>]
        /\ ccols = cols /\ crows = rows
        /\ seen = {} /\ count = 0 /\ batch \in Batches /\ open = TRUE /\ nw = 0 /\ bounds = {0} /\ sess = 1

SeqToSet(q) == {q[i] : i \in DOMAIN q}
AddCols(cs, fs) == IF "NoColumnEvolution" \in Dev /\ cs # <<>> THEN cs
                   ELSE cs \o SelectSeq(fs, LAMBDA f : f \notin SeqToSet(cs))

NameSeen(d) == \E e \in seen : NameOf(e) = NameOf(d)
NewCols(d) == IF d \notin seen /\ ~("SessionSkipsEvolution" \in Dev /\ ~NameSeen(d) /\ cols[NameOf(d)] # <<>>)
              THEN [cols EXCEPT ![NameOf(d)] = AddCols(@, FieldsOf(d))] ELSE cols
NewRows(d) == [rows EXCEPT ![NameOf(d)] = Append(@, nw + 1)]

WriteCore(d) == /\ open /\ nw < MaxOps
                /\ cols' = NewCols(d) /\ rows' = NewRows(d)
                /\ seen' = seen \cup {d} /\ count' = count + 1 /\ nw' = nw + 1
                /\ bounds' = bounds \cup (IF d \notin seen THEN {nw} ELSE {}) \cup (IF (count + 1) % batch = 0 THEN {nw + 1} ELSE {})
                /\ UNCHANGED <<batch, open, sess>>
WriteVis(d) == LET hit == IF "CommitOffByOne" \in Dev THEN (count + 1) % batch = 1 % batch ELSE (count + 1) % batch = 0 IN
               IF hit THEN ccols' = NewCols(d) /\ crows' = NewRows(d)                       \* batch commit after the insert
               ELSE IF d \notin seen /\ "NoDescriptorCommit" \notin Dev
                    THEN ccols' = NewCols(d) /\ crows' = rows                              \* descriptor commit BEFORE the insert
                    ELSE UNCHANGED <<ccols, crows>>
FlushCore == open /\ bounds' = bounds \cup {nw} /\ UNCHANGED <<cols, rows, seen, count, batch, open, nw, sess>>
FlushVis  == ccols' = cols /\ crows' = rows
CloseCore == open /\ open' = FALSE /\ bounds' = bounds \cup {nw} /\ UNCHANGED <<cols, rows, seen, count, batch, nw, sess>>
CloseVis  == IF "CloseNoCommit" \in Dev THEN UNCHANGED <<ccols, crows>> ELSE ccols' = cols /\ crows' = rows

\* a new writer on the same file, after the previous one was closed
ReopenCore == /\ ~open /\ sess < MaxSess /\ open' = TRUE /\ seen' = {} /\ count' = 0 /\ sess' = sess + 1
              /\ UNCHANGED <<cols, rows, batch, nw, bounds>>
ReopenVis == UNCHANGED <<ccols, crows>>
Reopen == ReopenCore /\ ReopenVis
\* a record SQLite REFUSES (an integer beyond 64 bits ...): write() raises, the record is not stored -- and nothing that was
\* accepted before it is touched.  If it was the first record of its descriptor, the table work (and its commit) has
\* happened by then.
FailedWriteCore(d) == /\ open /\ nw < MaxOps
                      /\ cols' = NewCols(d) /\ seen' = seen \cup {d}
                      /\ bounds' = bounds \cup (IF d \notin seen THEN {nw} ELSE {})
                      /\ UNCHANGED <<rows, count, nw, batch, open, sess>>
FailedWriteVis(d) == IF d \notin seen /\ "NoDescriptorCommit" \notin Dev THEN ccols' = NewCols(d) /\ crows' = rows
                     ELSE UNCHANGED <<ccols, crows>>
FailedWrite(d) == FailedWriteCore(d) /\ FailedWriteVis(d)
\* n records of one type in a row (trace validation of long runs; the composition of n Write(d) steps)
WriteManyCore(d, n) ==
    /\ open /\ n >= 1
    /\ cols' = NewCols(d) /\ rows' = [rows EXCEPT ![NameOf(d)] = @ \o [i \in 1..n |-> nw + i]]
    /\ seen' = seen \cup {d} /\ count' = count + n /\ nw' = nw + n
    /\ bounds' = bounds \cup (IF d \notin seen THEN {nw} ELSE {}) \cup {nw + k : k \in {j \in 1..n : (count + j) % batch = 0}}
    /\ UNCHANGED <<batch, open, sess>>
WriteManyVis(d, n) ==
    LET hits == {j \in 1..n : (count + j) % batch = 0} IN
    IF hits # {} THEN LET last == CHOOSE j \in hits : \A k \in hits : k <= j IN
                      ccols' = NewCols(d) /\ crows' = [rows EXCEPT ![NameOf(d)] = @ \o [i \in 1..last |-> nw + i]]
    ELSE IF d \notin seen /\ "NoDescriptorCommit" \notin Dev THEN ccols' = NewCols(d) /\ crows' = rows
    ELSE UNCHANGED <<ccols, crows>>
\* the writer's process dies: its uncommitted work is gone with it
CrashVis == IF "CrashKeepsSpilledPages" \in Dev THEN ccols' = cols /\ crows' = rows ELSE UNCHANGED <<ccols, crows>>
\* (the model ends there: sess' = MaxSess rules out a later session, whose record numbering would have holes)
CrashCore == /\ open /\ open' = FALSE /\ rows' = crows' /\ cols' = ccols' /\ sess' = MaxSess
             /\ UNCHANGED <<seen, count, batch, nw, bounds>>
Crash == CrashVis /\ CrashCore
Write(d) == WriteCore(d) /\ WriteVis(d)
Flush == FlushCore /\ FlushVis
Close == CloseCore /\ CloseVis
Next == (\E d \in Descs : Write(d)) \/ FailedWrite("A") \/ Flush \/ Close \/ Reopen \/ Crash
Spec == Init /\ [][Next]_vars

\* ---------------- C18 ----------------
AllVisible == UNION {SeqToSet(crows[t]) : t \in Tables}
VisibleN == Cardinality(AllVisible)
IsPrefix(p, q) == Len(p) <= Len(q) /\ SubSeq(q, 1, Len(p)) = p
\* another connection sees a prefix of what was written, per table and in the global write order
VisiblePrefix == /\ \A t \in Tables : IsPrefix(crows[t], rows[t])
                 /\ AllVisible = 1..VisibleN
\* ... that ends at a batch boundary: never part of a batch
AtBoundary == VisibleN \in bounds
\* after close everything is committed; and since cols/rows never mention `batch`, the final content is
\* the same for every batch size
ClosedCommitted == ~open => (crows = rows /\ ccols = cols)
\* one table per type name with a column for every field any same-name type has declared
OneColumnPerField == \A d \in seen : SeqToSet(FieldsOf(d)) \subseteq SeqToSet(cols[NameOf(d)])
\* ... and a column, once there, stays (also across sessions)
ColumnsOnlyGrow == [][\A t \in Tables : IsPrefix(cols[t], cols'[t])]_vars
\* visible rows always sit in a table that has all their columns
VisibleSchemaOK == \A t \in Tables : crows[t] # <<>> => ccols[t] # <<>>
\* visibility only changes in a step that is a permitted boundary (action property)
VisChangesOnlyAtBoundary == [][(crows' # crows) => (Cardinality(UNION {SeqToSet(crows'[t]) : t \in Tables}) \in bounds')]_vars
=============================================================================
