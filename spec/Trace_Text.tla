---------------------------- MODULE Trace_Text ----------------------------
(* Conformance of the CSV / line / text writers with TextWriters (C20).  One case = a record history written with
   some options through a real writer and what an independent parser found in the output. *)
EXTENDS TextWriters, Json, IOUtils
Cases == JsonDeserialize(IOEnv.TRACE_FILE)
VARIABLE cid
TInit == cid \in 1..Len(Cases) /\ hist = <<>> /\ opts = [fields |-> <<>>, excl |-> <<>>]
TNext == UNCHANGED <<cid, hist, opts>>
TSpec == TInit /\ [][TNext]_<<cid, hist, opts>>
C == Cases[cid]
Expected == CASE C.writer = "csv" -> CsvOut(C.hist, "none", C.opts)
              [] C.writer = "line" -> LineOut(C.hist, C.opts)
              [] C.writer = "text" -> TextOut(C.hist)
\* the structure of the output is exactly the specified one; every cell / value line / text item carries the text
\* form of its value (compared by the driver through an independent parser); nothing failed
Contract == /\ ~C.raised
            /\ C.items = Expected
            /\ C.values_ok
            /\ (C.readback_checked => C.readback_ok)
=============================================================================
