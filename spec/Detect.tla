---------------------------- MODULE Detect ----------------------------
(* Layer 7: how a source is opened: compression codec and container detection.
   Anchor: flow/record/base.py open_path, open_stream, find_adapter_for_stream, open_path_or_stream,
   RecordAdapter (ext_to_adapter, scheme parsing, fileobj branch); adapter/stream.py.

   A source is (codec, container) bytes reached through a naming:
     "ext"      a path whose extension(s) reveal container and codec (written by RecordWriter with that name);
                compressed Avro / JSON need the URL scheme because only the LAST suffix selects the adapter
     "neutral"  a path without any extension holding the same bytes
     "fileobj"  an open binary file object over the same bytes (BytesIO; also a raw object that returns its data
                in small pieces, whose peek() may deliver fewer bytes than asked for)
   The procedure is written out step by step: codec by extension table, else peek + magic tests in order
   (gzip, bz2, lz4, zstd); container by extension / scheme for paths, by a second peek on the decompressed
   stream for file objects (Avro magic, then the record-stream magic), else refusal.
   PeekLen is the number of leading bytes the first peek delivers (>= 1 unless the source is empty).
   Dev: "TrustShortPeek" -- magic tests are made on whatever a short peek returned (as built: a peek shorter than
        the magic makes the test fail and the codec goes unrecognised). *)
EXTENDS Naturals, Sequences, FiniteSets, TLC
CONSTANTS Dev
Codecs == {"none", "gzip", "bz2", "lz4", "zstd"}
\* junkmagic: non-stream bytes that contain the stream magic at the wrong place; cutcodec: the first few bytes of a valid
\* compressed stream (the codec's magic is there, fewer than the 19 header bytes can be decoded)
Containers == {"stream", "avro", "json", "text", "garbage", "empty", "junkmagic", "cutcodec"}
\* "stdin": standard input without a name (codec and container sniffed); "stdin_scheme": standard input named by a URL
\* scheme (stream://- , avro://-): codec sniffed, container from the scheme; "fileobj_offset": a file object positioned
\* behind a preamble that is not part of the source
\* "class_fileobj": an open binary file object handed to an adapter CLASS (StreamReader(fh), AvroReader(fh)): the class is
\* the container, the codec is sniffed from the leading bytes
\* "ext_hidden": a path whose extension names the CONTAINER only (x.records, x.avro) while the bytes are compressed: the
\* codec is sniffed from the leading bytes, the container follows the extension
Namings == {"ext", "neutral", "fileobj", "stdin", "stdin_scheme", "fileobj_offset", "class_fileobj", "ext_hidden"}
Sniffed(n) == n \in {"fileobj", "stdin", "fileobj_offset"}
MagicLen(c) == CASE c = "gzip" -> 2 [] c = "bz2" -> 3 [] c = "lz4" -> 4 [] c = "zstd" -> 4 [] c = "none" -> 0
ContainerMagicLen(c) == CASE c = "stream" -> 19 [] c = "avro" -> 3 [] OTHER -> 0     \* 4 length bytes + bin8 header + RECORDSTREAM\n ; "Obj"
VARIABLES codec, container, naming, peeklen
vars == <<codec, container, naming, peeklen>>
Init == codec \in Codecs /\ container \in Containers /\ naming \in Namings /\ peeklen \in {1, 2, 3, 4, 19}
Next == UNCHANGED vars
Spec == Init /\ [][Next]_vars
\* ---- codec as seen by the reader ----
CodecSeen == IF naming = "ext" THEN codec                                     \* extension table
             ELSE IF codec = "none" THEN "none"
             ELSE IF peeklen >= MagicLen(codec) \/ "TrustShortPeek" \in Dev THEN codec ELSE "missed"   \* magic sniffing
\* ---- container as seen by the reader ----
AdapterSeen == IF CodecSeen = "missed" THEN "none"
               ELSE IF naming \in {"ext", "stdin_scheme", "class_fileobj", "ext_hidden"} THEN (IF container \in {"stream", "avro", "json"} THEN container ELSE "stream")   \* by extension / scheme
               ELSE IF naming = "neutral" THEN "stream"                          \* no extension: the default adapter
               ELSE IF codec = "none" /\ peeklen < ContainerMagicLen(container) /\ "TrustShortPeek" \notin Dev THEN "none"   \* the same short peek
               ELSE IF container = "avro" THEN "avro" ELSE IF container = "stream" THEN "stream" ELSE "none"      \* second peek: magic
Outcome == IF AdapterSeen = "none" THEN "refused"
           ELSE IF AdapterSeen = container THEN "records" ELSE "refused"        \* (junkmagic is sniffed as "stream" and then rejected by the header check)        \* the adapter rejects bytes that are not its format
\* ---- C11 ----
\* what the property promises
Promised == IF container \in {"text", "garbage", "empty", "junkmagic", "cutcodec"} THEN "refused"
            ELSE IF container = "json" THEN (IF naming \in {"ext", "stdin_scheme", "class_fileobj", "ext_hidden"} THEN "records" ELSE "refused")      \* JSON is only reachable by extension / scheme
            ELSE IF container = "avro" /\ naming = "neutral" THEN "refused"                      \* for paths the container follows the extension
            ELSE "records"
Transparent == (peeklen >= 19) => Outcome = Promised
\* input that is none of these is refused -- never misread as records
RefusesJunk == container \in {"text", "garbage", "empty", "junkmagic", "cutcodec"} => Outcome = "refused"
\* the codec is ALWAYS recognised from the leading bytes (fails as built when a peek delivers less than the magic)
AlwaysRecognised == (Sniffed(naming) /\ container \in {"stream", "avro"}) => Outcome = "records"
=============================================================================
