SPECIFICATION TSpec
CONSTANTS
  MaxOps = 100000
  Batches = {1}
  MaxSess = 4
  Dev = {}
  Mode = "contract"
INVARIANT NotStuck
INVARIANT CVisiblePrefix
INVARIANT CAtBoundary
INVARIANT CClosedCommitted
INVARIANT CVisibleSchemaOK
INVARIANT CReadBack
PROPERTY CCrashRollsBack
CHECK_DEADLOCK FALSE
