---------------------------- MODULE MC_Descriptor ----------------------------
(* TLC checks the language-inclusion lemmas over all class-strings up to length MaxLen. *)
EXTENDS Descriptor
CONSTANT MaxLen
VARIABLE s
Init == s \in Strs(MaxLen)
Next == UNCHANGED s
Spec == Init /\ [][Next]_s
\* accepted  =>  grammatical (the property: "accepted ONLY IF")
FieldInclusion == AcceptedField(s) => RefFieldName(s)
TypeInclusion == AcceptedType(s) => RefTypeName(s)
\* nothing grammatical is lost by the regular expressions
FieldComplete == RefFieldName(s) => ImplFieldName(s)
\* the only strings the field regex admits beyond the grammar are identifier + newline
SlipIsOnlyNewline == (ImplFieldName(s) /\ ~RefFieldName(s)) => (Len(s) >= 2 /\ s[Len(s)] = "N" /\ RefFieldName(SubSeq(s, 1, Len(s) - 1)))
=============================================================================
