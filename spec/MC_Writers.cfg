SPECIFICATION Spec
CONSTANTS
  Kinds = {"stream", "streamgz", "json", "avro", "sqlite", "csv", "line", "text"}
  MaxOps = 6
  Dev = {}
INVARIANT ClosedMeansDurable
INVARIANT EmptyIsValid
INVARIANT ClosingNeverRaises
PROPERTY FlushEmptiesAdapter
CHECK_DEADLOCK FALSE
