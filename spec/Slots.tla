---------------------------- MODULE Slots ----------------------------
(* Layer 2: a record field as a typed slot.  Anchor: flow/record/base.py Record.__setattr__, generated __init__
   and _unpack, Record._replace; flow/record/fieldtypes/*.

   A candidate value offered to a slot falls into one of three classes of the field type's acceptance table:
     "accept"  the property names it as valid input (possibly converted on the way in)
     "reject"  the property names it as unrepresentable: out-of-range unsigned, boolean other than 0/1,
               malformed digest or address, non-bytes for a bytes field -- it MUST raise and change nothing
     "unspec"  anything else (wrong kind, float for an integer type, ...): it may be accepted or refused,
               but whatever happens the slot stays typed
   The slot holds "unset" (None or the type's empty default), "typed" (a value of the declared type; for a list
   field every element of the element type) or -- never, in the intended design -- "foreign".
   The empty default of a list / digest field is an OBJECT the caller may fill in place (rec.tags.append(..)); `dflt`
   is what the next record built without a value for the field starts with -- by design always the empty default.
   Dev: "StoreBeforeConvert" (a failing conversion leaves the raw value in the slot), "NoRangeCheck",
        "SharedDefault" (one default object per record class: filling it in place fills every later record's). *)
EXTENDS Naturals, Sequences, FiniteSets, TLC
CONSTANTS MaxOps, Dev
Classes == {"accept", "reject", "unspec_ok", "unspec_bad", "none"}   \* unspec_ok / unspec_bad: how the code happens to decide
VARIABLES slot, lastFailed, prev, nops, allAccepted, dflt
vars == <<slot, lastFailed, prev, nops, allAccepted, dflt>>
Init == slot = "unset" /\ lastFailed = FALSE /\ prev = "unset" /\ nops = 0 /\ allAccepted = TRUE /\ dflt = "unset"
Raises(c) == c = "unspec_bad" \/ (c = "reject" /\ "NoRangeCheck" \notin Dev)
\* construct / assign / replace-style copy all funnel through the same coercion
Offer(c) == /\ nops < MaxOps /\ nops' = nops + 1 /\ prev' = slot /\ UNCHANGED dflt
            /\ IF c = "none" THEN slot' = "unset" /\ lastFailed' = FALSE /\ UNCHANGED allAccepted
               ELSE IF Raises(c)
                    THEN /\ lastFailed' = TRUE /\ UNCHANGED allAccepted
                         /\ slot' = IF "StoreBeforeConvert" \in Dev THEN "foreign" ELSE slot
                    ELSE /\ lastFailed' = FALSE
                         /\ slot' = IF c = "reject" THEN "foreign" ELSE "typed"      \* an accepted unrepresentable value is not of the type
                         /\ allAccepted' = (allAccepted /\ c # "reject")
\* the caller fills the record's empty default in place
FillInPlace == /\ nops < MaxOps /\ nops' = nops + 1 /\ slot = "unset" /\ prev' = slot /\ slot' = "typed" /\ lastFailed' = FALSE
               /\ dflt' = (IF "SharedDefault" \in Dev THEN "typed" ELSE dflt) /\ UNCHANGED allAccepted
\* another record of the same type is built (or decoded, or copied) without a value for the field
Fresh == /\ nops < MaxOps /\ nops' = nops + 1 /\ prev' = slot /\ slot' = dflt /\ lastFailed' = FALSE /\ UNCHANGED <<allAccepted, dflt>>
Next == (\E c \in Classes : Offer(c)) \/ FillInPlace \/ Fresh
Spec == Init /\ [][Next]_vars
\* ---------------- C05 ----------------
SlotsTyped == slot \in {"unset", "typed"}
FailedAssignIsNoOp == lastFailed => slot = prev
FreshStartsEmpty == dflt = "unset"
=============================================================================
