---------------------------- MODULE Writers ----------------------------
(* Layer 5: life-cycle of a record writer, per adapter kind.
   Anchors: flow/record/adapter/__init__.py AbstractWriter.{__exit__,__del__}; adapter/stream.py StreamWriter,
   stream.py RecordStreamWriter.{write,flush,close,writeheader}; adapter/jsonfile.py JsonfileWriter;
   adapter/avro.py AvroWriter.{write,flush,close}; adapter/sqlite.py SqliteWriter; adapter/csvfile.py,
   line.py, text.py.

   A record accepted by write() is either still inside the adapter (appBuf: fastavro's block buffer, SQLite's
   open transaction) or has been handed to the file object / database (file).  hdr says whether the
   container preamble (stream magic frame, Avro header) has been produced.  What sits in Python's or the
   OS's file buffers before close is not modelled: nothing is promised about it.

   Dev (as-built deviations, all repaired in the repository; kept for sensitivity runs and attribution):
     "AvroCloseNoFlush"   close() of the Avro writer drops appBuf
     "CloseNoHeader"      close() of a stream/Avro writer that never wrote nor flushed produces no preamble
     "FlushAfterCloseRaises"  flush()/with-exit after close() raises (Avro)
     "AvroFlushPoisons"   flush() before the first record makes the Avro writer refuse records
     "FailedWritePoisons" a record the adapter refuses (write() raises) leaves half of itself in the adapter's
                          buffer, so that records accepted before and after it cannot be read back (sensitivity) *)
EXTENDS Naturals, Sequences, FiniteSets, TLC
CONSTANTS Kinds, MaxOps, Dev

HasAppBuf(k)   == k \in {"avro", "sqlite"}
NeedsHeader(k) == k \in {"stream", "streamgz", "avro"}
MustBeValidEmpty(k) == k \in {"stream", "streamgz", "json", "avro", "sqlite"}

VARIABLES kind, st, written, appBuf, file, hdr, raised, nops
vars == <<kind, st, written, appBuf, file, hdr, raised, nops>>

Init == /\ kind \in Kinds /\ st = "open" /\ written = <<>> /\ appBuf = <<>> /\ file = <<>>
        /\ hdr = FALSE /\ raised = FALSE /\ nops = 0

Tick == nops < MaxOps /\ nops' = nops + 1

\* Deviation "AvroFlushPoisons" (repaired): an Avro writer flushed before its first record had already produced a
\* container header with an empty schema and refused the next record (later ones were silently lost).
WriteRefused == "AvroFlushPoisons" \in Dev /\ kind = "avro" /\ hdr /\ written = <<>>

Write == /\ st = "open" /\ Tick /\ ~WriteRefused
         /\ LET r == Len(written) + 1 IN
            /\ written' = Append(written, r)
            /\ IF HasAppBuf(kind) THEN appBuf' = Append(appBuf, r) /\ UNCHANGED file
                                  ELSE file' = Append(file, r) /\ UNCHANGED appBuf
         /\ hdr' = (hdr \/ NeedsHeader(kind))
         /\ UNCHANGED <<kind, st, raised>>

\* the effect of flush() on an open writer
FlushMakesHeader(k) == k \in {"stream", "streamgz"} \/ ("AvroFlushPoisons" \in Dev /\ k = "avro")
DoFlush(ab, f, h) == [appBuf |-> <<>>, file |-> f \o ab, hdr |-> (h \/ FlushMakesHeader(kind))]

Flush == /\ Tick
         /\ IF st = "open"
            THEN LET x == DoFlush(appBuf, file, hdr) IN appBuf' = x.appBuf /\ file' = x.file /\ hdr' = x.hdr /\ UNCHANGED raised
            ELSE /\ raised' = (raised \/ ("FlushAfterCloseRaises" \in Dev /\ kind = "avro"))
                 /\ UNCHANGED <<appBuf, file, hdr>>
         /\ UNCHANGED <<kind, st, written>>

\* the effect of close() on an open writer
DoClose(ab, f, h) ==
   [appBuf |-> <<>>,
    file |-> IF "AvroCloseNoFlush" \in Dev /\ kind = "avro" THEN f ELSE f \o ab,
    hdr |-> IF "CloseNoHeader" \in Dev /\ kind \in {"stream", "streamgz"} THEN h ELSE (h \/ NeedsHeader(kind))]

Close == /\ Tick
         /\ IF st = "open"
            THEN LET x == DoClose(appBuf, file, hdr) IN appBuf' = x.appBuf /\ file' = x.file /\ hdr' = x.hdr /\ st' = "closed"
            ELSE UNCHANGED <<appBuf, file, hdr, st>>
         /\ UNCHANGED <<kind, written, raised>>

\* leaving a with-block: flush(); close()
Exit == /\ Tick
        /\ IF st = "open"
           THEN LET a == IF "ExitNoFlush" \in Dev THEN [appBuf |-> appBuf, file |-> file, hdr |-> hdr] ELSE DoFlush(appBuf, file, hdr)
                    x == DoClose(a.appBuf, a.file, a.hdr)
                IN appBuf' = x.appBuf /\ file' = x.file /\ hdr' = x.hdr /\ st' = "closed" /\ UNCHANGED raised
           ELSE /\ raised' = (raised \/ ("FlushAfterCloseRaises" \in Dev /\ kind = "avro"))
                /\ UNCHANGED <<appBuf, file, hdr, st>>
        /\ UNCHANGED <<kind, written>>

RefusedWrite == st = "open" /\ Tick /\ WriteRefused /\ UNCHANGED <<kind, st, written, appBuf, file, hdr, raised>>
\* a record the adapter cannot represent (text it cannot encode ...): write() raises, the record is NOT accepted, and
\* nothing of it stays behind.  The binary stream writer has produced its header by then; the others have not.
\* (the line writer prints field by field, so a refused record leaves its first lines behind: human-readable
\* output about which C17 claims nothing -- not modelled)
CanRefuse(k) == k \in {"stream", "streamgz", "avro", "sqlite", "csv"}
FailedWrite == /\ st = "open" /\ Tick /\ CanRefuse(kind)
               /\ hdr' = (hdr \/ kind \in {"stream", "streamgz"})
               /\ appBuf' = IF "FailedWritePoisons" \in Dev /\ HasAppBuf(kind) THEN Append(appBuf, 0) ELSE appBuf
               /\ UNCHANGED <<kind, st, written, file, raised>>
Next == Write \/ RefusedWrite \/ FailedWrite \/ Flush \/ Close \/ Exit
Spec == Init /\ [][Next]_vars

\* ---------------- C17 (close part) ----------------
ClosedMeansDurable == st = "closed" => (file = written /\ appBuf = <<>>)
EmptyIsValid == (st = "closed" /\ MustBeValidEmpty(kind)) => (NeedsHeader(kind) => hdr)
ClosingNeverRaises == ~raised
\* flush makes everything accepted so far durable-on-close-independent: after flush nothing sits in the adapter
FlushEmptiesAdapter == [][(Flush /\ st = "open") => appBuf' = <<>>]_vars
=============================================================================
