SPECIFICATION Spec
CONSTANTS
  Kinds = {"stream", "streamgz", "json", "avro", "sqlite", "csv", "line", "text"}
  MaxOps = 4
  Dev = {"FailedWritePoisons"}
INVARIANT ClosedMeansDurable
INVARIANT EmptyIsValid
INVARIANT ClosingNeverRaises
PROPERTY FlushEmptiesAdapter
CHECK_DEADLOCK FALSE
