SPECIFICATION Spec
CONSTANT Dev = {"FamilyFromMagnitude"}
INVARIANT RoundTrip
INVARIANT BinIsNotStr
CHECK_DEADLOCK FALSE
