---------------------------- MODULE MC_Rdump ----------------------------
(* Algebraic lemmas of the pipeline itself over an enumerated universe of source layouts and option
   combinations (no implementation involved). *)
EXTENDS Rdump
CONSTANT Small
R1 == <<Rec(1, "A"), Rec(2, "B"), Rec(3, "A")>>
R2 == <<Rec(4, "B"), Rec(5, "A"), Rec(6, "B")>>
R3 == <<Rec(7, "A"), Rec(8, "A2")>>
SrcChoices(rs) == {[kind |-> "good", recs |-> rs, keep |-> Len(rs)], [kind |-> "missing", recs |-> rs, keep |-> 0],
                   [kind |-> "garbage", recs |-> rs, keep |-> 0]} \cup {[kind |-> "trunc", recs |-> rs, keep |-> k] : k \in 0..(Len(rs) - 1)}
Layouts == {<<x, y, z>> : x \in SrcChoices(R1), y \in SrcChoices(R2), z \in SrcChoices(R3)}
Cfgs == IF Small
        THEN [skip : {0, 1}, cnt : {0, 2}, sel : {"none", "other_y", "n_ge_other"}, fields : {<<>>, <<"t2", "n", "t1">>}, excl : {<<>>, <<"t1">>},
              override : {"no"}, mts : BOOLEAN, split : {0, 2}]
        ELSE [skip : 0..2, cnt : {0, 1, 3}, sel : Sels, fields : {<<>>, <<"n">>, <<"other", "n", "bogus">>, <<"t2", "n", "t1">>, <<"other">>, <<"extra", "t1">>}, excl : {<<>>, <<"s">>, <<"t1">>},
              override : {"no", "set", "empty"}, mts : BOOLEAN, split : {0, 2}]
VARIABLES lay, cfg
vars == <<lay, cfg>>
Init == lay \in Layouts /\ cfg \in Cfgs
Next == UNCHANGED vars
Spec == Init /\ [][Next]_vars
Plain == [skip |-> 0, cnt |-> 0, sel |-> "none", fields |-> <<>>, excl |-> <<>>, override |-> "no", mts |-> FALSE, split |-> 0]
Ids(q) == [i \in DOMAIN q |-> q[i].id]
\* with no options rdump is the identity on the readable records
Identity == Ids(Pipeline(lay, Plain)) = Ids(Concat(lay)) /\ \A i \in DOMAIN Pipeline(lay, Plain) : Pipeline(lay, Plain)[i].fields = FieldsOf(Concat(lay)[i].d)
\* COUNT limits the number of input records taken (each may expand under --multi-timestamp)
CountBound == (cfg.cnt > 0 /\ ~cfg.mts) => Len(Pipeline(lay, cfg)) <= cfg.cnt
\* a bad source never changes what the other sources contribute
Isolation == \A i \in 1..3 : lay[i].kind \in {"missing", "garbage"} =>
                Ids(Filtered(lay, cfg)) = Ids(Filtered([lay EXCEPT ![i] = [kind |-> "trunc", recs |-> lay[i].recs, keep |-> 0]], cfg))
\* the slice is taken AFTER the filter: output ids are a contiguous run of the filtered ids
SliceOfFiltered == LET f == Ids(Filtered(lay, cfg)) o == Ids(Slice(Filtered(lay, cfg), cfg.skip, cfg.cnt)) IN
                     \E a \in 0..Len(f) : o = SubSeq(f, a + 1, a + Len(o))
\* projection never changes which records come out
ProjectionKeepsRecords == Ids(Slice(Filtered(lay, cfg), cfg.skip, cfg.cnt)) = Ids(Slice(Filtered(lay, [cfg EXCEPT !.fields = <<>>, !.excl = <<>>]), cfg.skip, cfg.cnt))
\* splitting loses nothing and respects the limit
SplitOK == LET ps == Chunk(Pipeline(lay, cfg), cfg.split) IN Flat(ps) = Pipeline(lay, cfg) /\ (cfg.split > 0 => \A i \in DOMAIN ps : Len(ps[i]) <= cfg.split)
=============================================================================
