---------------------------- MODULE Record ----------------------------
(* Layer 2: records as ordered lists of (name, type, value) and the operations that compose them.
   Anchors: flow/record/base.py merge_record_descriptors, extend_record, iter_timestamped_records,
   GroupedRecord, Record._replace, Record.__eq__/__hash__, ignore_fields_for_comparison;
   flow/record/stream.py RecordFieldRewriter.

   A record here is a sequence of fields [n |-> name, t |-> type name, v |-> value id] (metadata fields are
   handled by the drivers).  Values are opaque ids; the only value the model constructs itself is the
   description of a timestamp, Desc(name). *)
EXTENDS Naturals, Sequences, FiniteSets, TLC

Names(r) == {r[i].n : i \in DOMAIN r}
Has(r, n) == \E i \in DOMAIN r : r[i].n = n
Get(r, n) == r[CHOOSE i \in DOMAIN r : r[i].n = n]
Desc(n) == "name:" \o n          \* the value of ts_description

\* ---------------- merge / extend (C15) ----------------
\* keeps every field of the first record in order, appends unseen fields of later records in order of first
\* appearance; value and type from the FIRST record that has the field -- from the LAST one with replace
RECURSIVE LastWith(_, _)
LastWith(rs, n) == IF Has(rs[Len(rs)], n) THEN Get(rs[Len(rs)], n) ELSE LastWith(SubSeq(rs, 1, Len(rs) - 1), n)
RECURSIVE FirstWith(_, _)
FirstWith(rs, n) == IF Has(Head(rs), n) THEN Get(Head(rs), n) ELSE FirstWith(Tail(rs), n)
RECURSIVE Order(_, _)
\* names in order of first appearance
Order(rs, acc) == IF rs = <<>> THEN acc
                  ELSE LET new == SelectSeq([i \in DOMAIN Head(rs) |-> Head(rs)[i].n], LAMBDA n : ~\E j \in DOMAIN acc : acc[j] = n)
                       IN Order(Tail(rs), acc \o new)
Merge(rs, replace) == LET ord == Order(rs, <<>>) IN
                      [i \in DOMAIN ord |-> IF replace THEN LastWith(rs, ord[i]) ELSE FirstWith(rs, ord[i])]

\* ---------------- per-timestamp expansion (C15) ----------------
\* one record per datetime field, in field order: ts = that field's value, ts_description = its name, followed by
\* every original field (a field that is itself named ts / ts_description is shadowed: first wins)
DtIdx(r) == SelectSeq([i \in DOMAIN r |-> i], LAMBDA i : r[i].t = "datetime")
TsRec(r, i) == <<[n |-> "ts", t |-> "datetime", v |-> r[i].v], [n |-> "ts_description", t |-> "string", v |-> Desc(r[i].n)]>>
TsExpand(r) == IF DtIdx(r) = <<>> THEN <<r>>
               ELSE [k \in DOMAIN DtIdx(r) |-> Merge(<<TsRec(r, DtIdx(r)[k]), r>>, FALSE)]

\* ---------------- replace-style copy and projection (C15) ----------------
ReplaceIn(r, ch) == [i \in DOMAIN r |-> IF r[i].n \in DOMAIN ch THEN [r[i] EXCEPT !.v = ch[r[i].n]] ELSE r[i]]
InSeq(x, q) == \E i \in DOMAIN q : q[i] = x
Project(r, fields, excl) ==
   IF fields = <<>> THEN SelectSeq(r, LAMBDA f : ~InSeq(f.n, excl))
   ELSE LET keep == SelectSeq(fields, LAMBDA n : Has(r, n) /\ ~InSeq(n, excl)) IN [i \in DOMAIN keep |-> Get(r, keep[i])]

\* ---------------- equality and hashing (C12) ----------------
\* two records are equal exactly when they have the same descriptor (name + ordered (type, name) list) and equal
\* values outside the ignored fields
DescOf(r) == [i \in DOMAIN r |-> [n |-> r[i].n, t |-> r[i].t]]
Visible(r, ign) == SelectSeq(r, LAMBDA f : f.n \notin ign)
Eq(na, a, nb, b, ign) == na = nb /\ DescOf(a) = DescOf(b) /\ Visible(a, ign) = Visible(b, ign)
\* the same with NESTED records: a value is [k |-> "id", id] (opaque), [k |-> "rec", na, fs] (a record held in a
\* `record` field) or [k |-> "list", items] (a `record[]` field); the ignored fields are ignored at every depth
RECURSIVE StripV(_, _), Strip(_, _)
StripV(v, ign) == CASE v.k = "rec"  -> [v EXCEPT !.fs = Strip(v.fs, ign)]
                    [] v.k = "list" -> [v EXCEPT !.items = [j \in DOMAIN v.items |-> StripV(v.items[j], ign)]]
                    [] OTHER -> v
Strip(fs, ign) == LET vis == Visible(fs, ign) IN [i \in DOMAIN vis |-> [vis[i] EXCEPT !.v = StripV(vis[i].v, ign)]]
EqN(na, a, nb, b, ign) == na = nb /\ DescOf(a) = DescOf(b) /\ Strip(a, ign) = Strip(b, ign)
=============================================================================
