---------------------------- MODULE Trace_Timestamps ----------------------------
(* Conformance of real timestamp handling (C13).  One case = (tzinfo kind, year class, input form, storage format):
   the instant and offset of the INPUT (computed with the standard library, fold-aware), of the field value, and of
   the value read back from the format; plus the sha256 of the bytes written under each display-timezone setting. *)
EXTENDS Naturals, Sequences, FiniteSets, TLC, Json, IOUtils
Cases == JsonDeserialize(IOEnv.TRACE_FILE)
VARIABLE cid
Init == cid \in 1..Len(Cases)
Next == UNCHANGED cid
Spec == Init /\ [][Next]_cid
C == Cases[cid]
IsRound == C.kind = "roundtrip"
Aware == IsRound => (C.stored_aware /\ C.out_aware)
InputInstant == IsRound => C.stored_instant = C.in_instant
InstantKept == IsRound => (~C.raised /\ C.out_instant = C.stored_instant)      \* storage keeps the instant of the field value
OffsetRule == IsRound => IF C.fmt = "avro" THEN C.out_offset = 0 ELSE C.out_offset = C.stored_offset
\* the display setting never changes what is written: the same bytes under every setting
DisplayOnlyShows == C.kind = "display" => \A i \in DOMAIN C.digests : C.digests[i] = C.digests[1]
=============================================================================
