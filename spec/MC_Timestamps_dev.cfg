SPECIFICATION Spec
CONSTANT Dev = {"DropsFold"}
INVARIANT Aware
INVARIANT InputInstant
INVARIANT InstantKept
INVARIANT OffsetRule
PROPERTY DisplayOnlyShows
CHECK_DEADLOCK FALSE
