SPECIFICATION Spec
CONSTANTS
  MaxLen = 5
  Dev = {"NoHeaderOnChange"}
INVARIANT RowPerRecord
INVARIANT HeaderPerRun
INVARIANT BlockNumbering
CHECK_DEADLOCK FALSE
