---------------------------- MODULE CodecAvro ----------------------------
(* Layer 3 (Avro part).  Anchors: flow/record/adapter/avro.py AVRO_TYPE_MAP, descriptor_to_schema,
   schema_to_descriptor, AvroWriter.write (first descriptor fixes the schema; "Mixed record types"), AvroReader.

   Every field type is either mapped to an Avro primitive or unmapped; a value of a mapped type is either inside
   what the Avro type can hold or outside.  The outcome of writing a record is one of
     "same"     read back with the same value
     "single"   floats: the value rounded to single precision
     "utc"      timestamps: the same instant to the microsecond, normalised to UTC
     "refused"  an error, and the record is NOT in the file
   and never anything else (C19: never written as a different value).
   Dev: "NameOnlyMixedTest" -- a second descriptor is only refused when its NAME differs;
        "StaleLastDescriptor" -- the mixed-type test is skipped for a record whose descriptor is the one seen last, and
        "seen last" is updated before the test raises: the first foreign record is refused, the following ones are not. *)
EXTENDS Naturals, Sequences, FiniteSets, TLC
CONSTANTS Dev
AvroKind(T) == CASE T \in {"varint", "filesize", "unix_file_mode"} -> "long"
                 [] T \in {"uint16", "uint32"} -> "int"
                 [] T = "float" -> "float" [] T = "boolean" -> "boolean" [] T = "datetime" -> "timestamp"
                 [] T \in {"string", "wstring", "uri"} -> "string" [] T = "bytes" -> "bytes"
                 [] T = "digest" -> "bytes-but-unwritable"
                 [] OTHER -> "unmapped"
Types == {"varint", "filesize", "unix_file_mode", "uint16", "uint32", "float", "boolean", "datetime", "string", "wstring", "uri", "bytes", "digest",
          "path", "net.ipaddress", "string[]", "command", "dynamic", "record", "stringlist", "net.tcp.Port"}
\* value classes relevant to representability
Classes == {"none", "fits", "beyond32", "beyond64", "nonutf8"}
Applicable(T, c) == CASE c \in {"none", "fits"} -> TRUE
                      [] c = "beyond32" -> AvroKind(T) \in {"int", "long"}
                      [] c = "beyond64" -> AvroKind(T) \in {"int", "long"}
                      [] c = "nonutf8" -> AvroKind(T) = "string"
Allowed(T, c) ==
   IF AvroKind(T) \in {"unmapped", "bytes-but-unwritable"} THEN {"refused"}
   ELSE CASE c = "none" -> {"same"}
          [] c = "fits" -> (CASE AvroKind(T) = "float" -> {"single"} [] AvroKind(T) = "timestamp" -> {"utc"} [] OTHER -> {"same"})
          [] c = "beyond32" -> IF AvroKind(T) = "int" THEN {"refused"} ELSE {"same"}
          [] c = "beyond64" -> {"refused"}
          [] c = "nonutf8" -> {"refused", "same"}                                 \* text Avro cannot hold: refused, or carried faithfully
\* a second record type in one file
\* nth: the foreign record is the nth CONSECUTIVE record of that other type offered to the writer
SecondDescriptor(sameName, n) == IF sameName /\ "NameOnlyMixedTest" \in Dev THEN "written-with-first-schema"
                                 ELSE IF n > 1 /\ "StaleLastDescriptor" \in Dev THEN "written-with-first-schema" ELSE "refused"
VARIABLES ty, cl, second, nth
vars == <<ty, cl, second, nth>>
Init == ty \in Types /\ cl \in {c \in Classes : Applicable(ty, c)} /\ second \in {"none", "same-name", "other-name"} /\ nth \in 1..3
Next == UNCHANGED vars
Spec == Init /\ [][Next]_vars
NeverDifferentValue == Allowed(ty, cl) \subseteq {"same", "single", "utc", "refused"} /\ Allowed(ty, cl) # {}
MixedRefused == second # "none" => SecondDescriptor(second = "same-name", nth) = "refused"
=============================================================================
