---------------------------- MODULE Trace_Json ----------------------------
(* Conformance of the JSON adapter with CodecJson (C14).  One case = one record with a field of type T (scalar or
   typed list) and a given value class, written with descriptors on/off and a given indentation: the documents found
   in the file by a plain JSON parser (kinds, key sets, the JSON shape of the field), whether each line is one
   standalone document, and what reading the file back gave. *)
EXTENDS CodecJson, Json, IOUtils
Cases == JsonDeserialize(IOEnv.TRACE_FILE)
VARIABLE cid
TInit == cid \in 1..Len(Cases) /\ ty = "string" /\ none = FALSE /\ lst = FALSE /\ descs = TRUE
TNext == UNCHANGED <<cid, ty, none, lst, descs>>
TSpec == TInit /\ [][TNext]_<<cid, ty, none, lst, descs>>
C == Cases[cid]
ToSet(q) == {q[i] : i \in DOMAIN q}
\* round trip with descriptors: identical type name, field list and values
RoundTripJson == C.descriptors => (~C.raised /\ C.identical)
\* the output is a sequence of standalone JSON documents, one per line unless indentation is requested
PlainJson == /\ C.all_docs_parse
             /\ (C.indent = 0 => C.one_doc_per_line)
             /\ C.doc_kinds = (IF C.descriptors THEN <<"recorddescriptor", "record">> ELSE <<"record">>)
\* keys are the record's fields (+ markers exactly when descriptors are enabled); the field has the modelled JSON shape
KeysAreFields == /\ ToSet(C.record_keys) = Keys({"f", "tail"}, C.descriptors)
                 /\ (C.islist => (IF C.isnone THEN C.shape = "array:"
                                  ELSE C.shape = "array:" \o Shape(C.T, FALSE) \/ (C.T = "boolean" /\ C.shape = "array:number")))   \* elements of boolean[] are written as 0 / 1
                 /\ (~C.islist => C.shape = Shape(C.T, C.isnone))
\* without descriptors the lines remain readable as records with the same scalar JSON values
PlainLinesReadable == ~C.descriptors => (~C.raised /\ C.scalars_equal)
\* ... typed line by line from the JSON value of each key
PlainTyped == (~C.descriptors /\ ~C.raised /\ C.plain_checked) => C.plain_type = PlainFieldType(C.plain_shape)
=============================================================================
