---------------------------- MODULE Names ----------------------------
EXTENDS Naturals, Sequences, FiniteSets, TLC, Json, IOUtils, SequencesExt
\* character classes: L letter, D digit, U underscore, S slash, N newline, P other ascii punctuation/space, X non-ascii letter, C control (not \n)
Classes == {"L", "D", "U", "S", "N", "P", "X", "C"}
RECURSIVE Strs(_)
Strs(n) == IF n = 0 THEN {<<>>} ELSE LET prev == Strs(n - 1) IN prev \cup {Append(s, c) : s \in {p \in prev : Len(p) = n - 1}, c \in Classes}
Word(c) == c \in {"L", "D", "U"}
\* ---- reference grammar (the property) ----
IsIdent(s) == Len(s) >= 1 /\ s[1] = "L" /\ \A i \in DOMAIN s : Word(s[i])                   \* ASCII identifier not starting with underscore/digit
RECURSIVE SplitOn(_, _)
SplitOn(s, sep) == IF ~\E i \in DOMAIN s : s[i] = sep THEN <<s>>
                   ELSE LET i == CHOOSE j \in DOMAIN s : s[j] = sep /\ \A k \in 1..(j - 1) : s[k] # sep
                        IN <<SubSeq(s, 1, i - 1)>> \o SplitOn(SubSeq(s, i + 1, Len(s)), sep)
RefTypeName(s) == s # <<>> /\ \A i \in DOMAIN SplitOn(s, "S") : IsIdent(SplitOn(s, "S")[i])
RefFieldName(s) == IsIdent(s)
\* ---- implementation recognisers: Python re.match with ^...$ where $ also matches before ONE trailing newline ----
StripDollar(s) == IF Len(s) >= 1 /\ s[Len(s)] = "N" THEN {s, SubSeq(s, 1, Len(s) - 1)} ELSE {s}     \* candidate "ends" for $
ReField(s) == \E t \in StripDollar(s) :                                  \* ^_?[a-zA-Z][a-zA-Z0-9_]*$
                 LET u == IF Len(t) >= 1 /\ t[1] = "U" THEN SubSeq(t, 2, Len(t)) ELSE t
                 IN Len(u) >= 1 /\ u[1] = "L" /\ \A i \in DOMAIN u : Word(u[i])
ImplFieldName(s) == ~(Len(s) >= 1 /\ s[1] = "U") /\ ReField(s)            \* is_valid_field_name: startswith("_") -> False, then regex
ImplTypeName(s) == s # <<>> /\ \E t \in StripDollar(s) : t # <<>> /\ \A i \in DOMAIN SplitOn(t, "S") : IsIdent(SplitOn(t, "S")[i])
\* downstream: a trailing newline that slipped through is rejected by the compiler (SyntaxError) before anything runs
HasNewline(s) == \E i \in DOMAIN s : s[i] = "N"
AcceptedField(s) == ImplFieldName(s) /\ ~HasNewline(s)
AcceptedType(s) == ImplTypeName(s) /\ ~HasNewline(s)
U6 == Strs(5)
\* TLC-checked lemmas on the model
ASSUME \A s \in U6 : AcceptedField(s) => RefFieldName(s)
ASSUME \A s \in U6 : AcceptedType(s) => RefTypeName(s)
ASSUME \A s \in U6 : RefFieldName(s) => ImplFieldName(s)              \* no valid name is lost by the regex (keywords aside)
ASSUME {s \in U6 : ImplFieldName(s) /\ ~RefFieldName(s)} = {s \in U6 : Len(s) >= 2 /\ s[Len(s)] = "N" /\ RefFieldName(SubSeq(s, 1, Len(s) - 1))}
ASSUME PrintT(<<"strings", Cardinality(U6)>>)
Cases == {[s |-> s, field |-> AcceptedField(s), type |-> AcceptedType(s), slipped |-> (ImplFieldName(s) /\ HasNewline(s))] : s \in Strs(4)}
ASSUME ndJsonSerialize(IOEnv.OUT_FILE, SetToSeq(Cases))
VARIABLE dummy
Init == dummy = 0
Next == UNCHANGED dummy
=============================================================================

