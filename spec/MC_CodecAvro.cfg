SPECIFICATION Spec
CONSTANT Dev = {}
INVARIANT NeverDifferentValue
INVARIANT MixedRefused
CHECK_DEADLOCK FALSE
