SPECIFICATION Spec
CONSTANT Dev = {"NameOnlyMixedTest"}
INVARIANT NeverDifferentValue
INVARIANT MixedRefused
CHECK_DEADLOCK FALSE
