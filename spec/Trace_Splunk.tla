---------------------------- MODULE Trace_Splunk ----------------------------
(* Trace validation for Splunk (transport part).  One trace = one call history on a real SplunkWriter whose
   transport is a recording stand-in (a socket object / an HTTP client that notes every body it is given and
   answers 200, or an error when told to).  After every call the transmissions the peer has received so far are
   logged as sequences of record ids (parsed from the bytes by the driver).
   Mode "contract": only the call history is taken from the model (nw, st); the observation is adopted and the
   delivery obligations are evaluated on it (verdict).  Mode "design": Splunk's actions must reproduce the
   transmissions exactly, body boundaries included (drift).                                                   *)
EXTENDS Splunk, Json, IOUtils, TLCExt
CONSTANT Mode
Traces == JsonDeserialize(IOEnv.TRACE_FILE)
VARIABLES tid, l, obs, failures
tvars == <<vars, tid, l, obs, failures>>
Ev == Traces[tid][l]
TInit == /\ tid \in 1..Len(Traces) /\ l = 2 /\ obs = <<>> /\ failures = 0
         /\ proto = Traces[tid][1].proto /\ st = "open" /\ nw = 0 /\ buffer = <<>> /\ sent = <<>> /\ dropped = <<>>
         /\ raisedW = FALSE /\ nops = 0
On == Mode = "contract"
StepC == /\ nw' = IF Ev.op = "write" THEN nw + 1 ELSE nw
         /\ st' = IF Ev.op \in {"close", "exit"} THEN "closed" ELSE st
         /\ obs' = Ev.sent /\ failures' = failures + (IF Ev.failed THEN 1 ELSE 0)
         /\ UNCHANGED <<proto, buffer, sent, dropped, raisedW, nops>>
\* design: the collector's answer is the one the stand-in was told to give
StepD == /\ CASE Ev.op = "write" -> Write [] Ev.op = "flush" -> Flush [] Ev.op = "close" -> Close
                 [] Ev.op = "exit" -> Close                    \* with-exit = flush(); close(), and close() flushes
         /\ sent' = Ev.sent
         /\ (dropped' # dropped) = Ev.failed
         /\ obs' = Ev.sent /\ failures' = failures + (IF Ev.failed THEN 1 ELSE 0)
\* (written over neighbouring elements only: TLC overflows its stack on the quadratic formulation over 45 transmissions)
AllO == UNION {SeqToSet(obs[a]) : a \in DOMAIN obs}
CConservation == On => /\ \A a \in DOMAIN obs : /\ \A i \in 1..(Len(obs[a]) - 1) : obs[a][i] < obs[a][i + 1]
                                                  /\ (a > 1 /\ obs[a] # <<>> /\ obs[a - 1] # <<>>) => obs[a - 1][Len(obs[a - 1])] < obs[a][1]   \* strictly increasing: no duplicate, no reordering
                       /\ AllO \subseteq 1..nw                                              \* nothing invented
                       /\ \A i \in DOMAIN obs : obs[i] # <<>>                               \* no empty transmission
\* with the order above: every record, exactly once, in the order written
CDelivered == (On /\ st = "closed" /\ failures = 0) => AllO = 1..nw
AllOK == CConservation /\ CDelivered
TNext == /\ l <= Len(Traces[tid]) /\ AllOK
         /\ IF On THEN StepC ELSE StepD
         /\ l' = l + 1 /\ UNCHANGED tid
TSpec == TInit /\ [][TNext]_tvars
NotStuck == (~On /\ l <= Len(Traces[tid])) => ENABLED TNext
=============================================================================
