SPECIFICATION TSpec
CONSTANT Dev = {}
INVARIANT RoundTripC01
CHECK_DEADLOCK FALSE
