SPECIFICATION Spec
CONSTANTS
  MaxLen = 4
  Dev = {"AdapterIgnoresSelector"}
INVARIANT OutIsFilter
CHECK_DEADLOCK FALSE
