---------------------------- MODULE Trace_Names ----------------------------
(* Conformance of the real descriptor validation with Descriptor (C06).  One case = a class-string, the
   position it was offered in (field name / type name), the delivery path (constructor, binary descriptor frame,
   JSON descriptor line, Avro schema doc), one concretisation of it, and what happened. *)
EXTENDS Descriptor, Json, IOUtils
Cases == JsonDeserialize(IOEnv.TRACE_FILE)
VARIABLE cid
Init == cid \in 1..Len(Cases)
Next == UNCHANGED cid
Spec == Init /\ [][Next]_cid
C == Cases[cid]
\* verdict: accepted ONLY IF grammatical; an accepted definition yields exactly the declared fields followed by the
\* reserved ones, a correct version stamp, and generated source of the expected shape; nothing was executed
Plain == C.pos \in {"field", "type"}
\* a definition whose strings are another cut of an EARLIER, valid definition's characters (same identifier): it is
\* judged on its own merits -- accepted only if every field name is grammatical and every type whitelisted, and then
\* with exactly the fields it declares
Resplit == C.pos = "resplit" =>
             /\ (C.accepted => (C.types_ok /\ \A i \in DOMAIN C.names : RefFieldName(C.names[i])))
             /\ (C.accepted => C.fields_exact)
             /\ ~C.tripwire
Contract == Plain =>
            /\ (C.accepted => IF C.pos = "field" THEN RefFieldName(C.s) ELSE RefTypeName(C.s))
            /\ (C.accepted => (C.fields_exact /\ C.version_ok /\ C.source_shape_ok))
            /\ ~C.tripwire
\* drift: grammatical names (that are not keywords / reserved) are accepted
Design == (Plain /\ (IF C.pos = "field" THEN RefFieldName(C.s) ELSE RefTypeName(C.s)) /\ ~C.special) => C.accepted
=============================================================================
