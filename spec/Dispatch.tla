---------------------------- MODULE Dispatch ----------------------------
(* Layer 7 (writer side): which adapter and which compression codec a URL handed to RecordWriter selects.
   Anchor: flow/record/base.py RecordAdapter (ext_to_adapter, "://" test, urlparse, scheme "+" sub-adapter, query
   arguments), open_path (codec by the LAST extension), the adapters' constructors.

   A URL is  [scheme "://"] stem ext1 ext2 ["?" query]  with
     scheme  "none" or an adapter name
     ext1    a container-like extension (or none), ext2 a codec extension (or none)
   Rules (as documented and as built):
     adapter = the scheme when one is given, else the table entry of the LAST extension, else the record stream
     codec   = by the LAST extension of the path, for the adapters that open their output through open_path
               (stream, jsonfile, avro, line, text); the csv writer opens the file itself and never compresses
     file    = the path without scheme and query
   C11 (writer side): the file is compressed according to the path's extension into something a standard decompressor
   accepts, and holds the container the name / scheme announces. *)
EXTENDS Naturals, Sequences, FiniteSets, TLC
CONSTANT Dev
Schemes == {"none", "stream", "jsonfile", "csvfile", "avro", "line", "text"}
Ext1 == {"", ".records", ".json", ".jsonl", ".csv", ".avro", ".txt", ".rec"}
Ext2 == {"", ".gz", ".bz2", ".lz4", ".zst", ".zstd"}
Queries == {"none", "plain"}                  \* "plain": a query argument the adapter accepts (it must not end up in the file name)
LastExt(e1, e2) == IF e2 # "" THEN e2 ELSE e1
ExtAdapter(x) == CASE x = ".avro" -> "avro" [] x \in {".json", ".jsonl"} -> "jsonfile" [] x = ".csv" -> "csvfile" [] OTHER -> "stream"
\* Dev "FirstExtension": the adapter is chosen by the first (container) extension even when a codec extension follows.
\* As built (named deviation, always on): the extension table is consulted on the RAW url, so a query string without a
\* scheme hides the extension ("out.csv?x=1" is written as a record stream into out.csv).  Query arguments need a scheme.
AdapterQ(s, e1, e2, qq) == IF s # "none" THEN s
                           ELSE IF qq # "none" THEN "stream"
                           ELSE IF "FirstExtension" \in Dev /\ e1 # "" THEN ExtAdapter(e1) ELSE ExtAdapter(LastExt(e1, e2))
Adapter(s, e1, e2) == AdapterQ(s, e1, e2, "none")
CodecOfExt(x) == CASE x = ".gz" -> "gzip" [] x = ".bz2" -> "bz2" [] x = ".lz4" -> "lz4" [] x \in {".zst", ".zstd"} -> "zstd" [] OTHER -> "none"
UsesOpenPath(a) == a \in {"stream", "jsonfile", "avro", "line", "text"}
Codec(s, e1, e2) == IF UsesOpenPath(Adapter(s, e1, e2)) THEN CodecOfExt(LastExt(e1, e2)) ELSE "none"
\* compressed JSON lines are not supported: the JSON writer hands text to the (binary) compressor and every write raises
Supported(a, c) == ~(a = "jsonfile" /\ c # "none")
ContainerOf(a) == CASE a = "stream" -> "stream" [] a = "jsonfile" -> "json" [] a = "csvfile" -> "csv" [] a = "avro" -> "avro" [] a = "line" -> "line" [] a = "text" -> "text"
\* clobber = FALSE: the writer must refuse an output file that already exists and leave it untouched; on a path that does
\* not exist yet it behaves exactly like the default
VARIABLES s, e1, e2, q, clobber, exists
vars == <<s, e1, e2, q, clobber, exists>>
Init == s \in Schemes /\ e1 \in Ext1 /\ e2 \in Ext2 /\ q \in Queries /\ clobber \in BOOLEAN /\ exists \in BOOLEAN
\* As built only the record-stream adapter honours clobber = FALSE; every other writer swallows the argument and overwrites
\* (an observation outside the listed properties, written down here as what the code does)
Refuses == ~clobber /\ exists /\ AdapterQ(s, e1, e2, q) = "stream"
Next == UNCHANGED vars
Spec == Init /\ [][Next]_vars
\* C11, writer side: when the name alone decides (no scheme), a codec extension compresses and the container is the one
\* the remaining name announces -- for the containers the property names as compressible (record stream; Avro and JSON
\* need the scheme because only the last extension selects the adapter)
CompressedByExtension == (s = "none" /\ e2 # "") => (Adapter(s, e1, e2) = "stream" /\ Codec(s, e1, e2) = CodecOfExt(e2))
SchemeWins == s # "none" => Adapter(s, e1, e2) = s
=============================================================================
