SPECIFICATION Spec
CONSTANT MaxLen = 4
INVARIANT FieldInclusion
INVARIANT TypeInclusion
INVARIANT FieldComplete
INVARIANT SlipIsOnlyNewline
CHECK_DEADLOCK FALSE
