---------------------------- MODULE Timestamps ----------------------------
(* Layer 3 (timestamp part): what happens to a timestamp on the way into a field, into each storage format and back,
   and what the display-timezone setting may touch.
   Anchors: flow/record/fieldtypes/__init__.py datetime.__new__ / __str__, DISPLAY_TZINFO, flow_record_tz;
   packer.py pack_obj/unpack_obj (7-tuple when UTC else ISO text); jsonpacker.py (isoformat);
   adapter/sqlite.py (isoformat, TIMESTAMPTZ); adapter/avro.py (timestamp-micros, UTC).

   A timestamp is abstracted to the KIND of its tzinfo; offsets are symbolic.  For a zone's ambiguous wall time the
   two folds have different offsets ("dst" for fold 0, "std" for fold 1): the instant is (wall, offset), so losing
   the fold changes the instant.
   Dev: "DropsFold" -- converting a datetime OBJECT into the field type does not carry `fold` over. *)
EXTENDS Naturals, Sequences, FiniteSets, TLC
CONSTANTS Dev
Kinds == {"naive", "utc", "fixed", "subminute", "zone", "fold0", "fold1", "gap"}
Forms == {"object", "isotext", "epoch"}
Formats == {"binary", "json", "sqlite", "avro"}
Displays == {"UTC", "NONE", "zoneA", "zoneB"}
\* the UTC offset the input really has
TrueOffset(k) == CASE k \in {"naive", "utc"} -> "0" [] k = "fixed" -> "fixed" [] k = "subminute" -> "sub"
                   [] k \in {"zone", "fold0"} -> "dst" [] k \in {"fold1", "gap"} -> "std"
\* the field value after input conversion: [off |-> symbolic offset, same |-> is it the input's instant?]
Stored(form, k) ==
   CASE form = "epoch" -> [off |-> "0", same |-> TRUE]                               \* a number is an instant, stored as UTC
     [] form = "isotext" -> [off |-> TrueOffset(k), same |-> TRUE]                  \* the text carries its numeric offset
     [] form = "object" -> IF k = "fold1" /\ "DropsFold" \in Dev
                           THEN [off |-> "dst", same |-> FALSE]                      \* fold lost: the other instant
                           ELSE [off |-> TrueOffset(k), same |-> TRUE]
\* what reading back from a format yields
Loaded(fmt, st) == IF fmt = "avro" THEN [off |-> "0", same |-> st.same] ELSE [off |-> st.off, same |-> st.same]
VARIABLES kind, form, fmt, display, stored
vars == <<kind, form, fmt, display, stored>>
Init == kind \in Kinds /\ form \in Forms /\ fmt \in Formats /\ display \in Displays /\ stored = Stored(form, kind)
\* changing the display time zone is the only action: it must not touch what is stored
SetDisplay(d) == display' = d /\ UNCHANGED <<kind, form, fmt, stored>>
Next == \E d \in Displays : SetDisplay(d)
Spec == Init /\ [][Next]_vars
\* ---------------- C13 ----------------
Aware == stored.off # "none"
InputInstant == stored.same                                         \* conversion on the way in keeps the instant
InstantKept == Loaded(fmt, stored).same
OffsetRule == IF fmt = "avro" THEN Loaded(fmt, stored).off = "0" ELSE Loaded(fmt, stored).off = stored.off
DisplayOnlyShows == [][stored' = stored]_vars
=============================================================================
