SPECIFICATION Spec
INVARIANT EqContract
INVARIANT ForeignContract
PROPERTY ScopeRestores
PROPERTY SetTakesEffect
CHECK_DEADLOCK FALSE
