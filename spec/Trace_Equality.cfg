SPECIFICATION Spec
INVARIANT EqContract
PROPERTY ScopeRestores
PROPERTY SetTakesEffect
CHECK_DEADLOCK FALSE
