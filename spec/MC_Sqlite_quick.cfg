SPECIFICATION Spec
CONSTANTS
  MaxOps = 5
  Batches = {1, 2, 3, 4}
  MaxSess = 2
  Descs <- McDescs
  Dev = {}
INVARIANT VisiblePrefix
INVARIANT AtBoundary
INVARIANT ClosedCommitted
INVARIANT OneColumnPerField
INVARIANT VisibleSchemaOK
PROPERTY VisChangesOnlyAtBoundary
PROPERTY ColumnsOnlyGrow
CHECK_DEADLOCK FALSE
