SPECIFICATION Spec
CONSTANT Dev = {}
INVARIANT RoundTrip
INVARIANT BinIsNotStr
CHECK_DEADLOCK FALSE
