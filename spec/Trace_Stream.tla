---------------------------- MODULE Trace_Stream ----------------------------
(* Trace validation for Stream (C03).  One JSON file holds many traces recorded from the real writers
   and readers; `tid` picks one, `l` is the position in it.

   Mode = "contract": the logged observation is adopted as the next state and the property invariants are
                      evaluated on the observed behaviour itself (this is the verdict).
   Mode = "design"  : Stream's own Write action is taken with the logged arguments and its emission must
                      equal the logged frames (exact step match; a mismatch is MODEL-DRIFT, not a verdict). *)
EXTENDS Stream, Json, IOUtils, TLCExt
CONSTANT Mode
Traces == JsonDeserialize(IOEnv.TRACE_FILE)
VARIABLES tid, l, rb      \* rb: writer -> what the real reader returned ("none" before it is read)
tvars == <<vars, tid, l, rb>>

Ev == Traces[tid][l]
ProjD(f) == IF f.k = "REC" THEN [k |-> "REC"] ELSE IF f.k = "DESC" THEN [k |-> "DESC", d |-> f.d] ELSE [k |-> f.k]
ProjSeq(s) == [i \in DOMAIN s |-> ProjD(s[i])]

TInit == Init /\ tid \in 1..Len(Traces) /\ l = 1 /\ rb = [w \in Writers |-> [how |-> "none", trees |-> <<>>]]

\* ----- contract mode: adopt what was observed -----
TWriteC == /\ Ev.op = "write"
           /\ out' = [out EXCEPT ![Ev.w] = @ \o Ev.frames]
           /\ hist' = [hist EXCEPT ![Ev.w] = Append(@, [v |-> Ev.v, ok |-> Ev.ok])]
           /\ UNCHANGED <<reg, hdr, rb>>
TReadC  == /\ Ev.op = "read"
           /\ rb' = [rb EXCEPT ![Ev.w] = [how |-> Ev.how, trees |-> Ev.trees]]
           /\ UNCHANGED vars
\* ----- design mode: the module's own action must explain the observation -----
TWriteD == /\ Ev.op = "write"
           /\ IF Ev.ok THEN Write(Ev.w, Ev.v) ELSE FailWrite(Ev.w, Ev.v)
           /\ ProjSeq(SubSeq(out'[Ev.w], Len(out[Ev.w]) + 1, Len(out'[Ev.w]))) = ProjSeq(Ev.frames)
           /\ UNCHANGED rb
TReadD  == /\ Ev.op = "read"
           /\ rb' = [rb EXCEPT ![Ev.w] = [how |-> Ev.how, trees |-> Ev.trees]]
           /\ UNCHANGED vars

\* ----- contract invariants on the OBSERVED frames -----
\* A REC frame carries `wire` (the identifiers found in the bytes by the independent decoder) and `v` (what
\* the driver handed to write()).  The reader model resolves the wire identifiers through ITS registry.
RECURSIVE WireOK(_, _, _)
WireOK(r, wire, v) ==
   /\ Len(wire.kids) = Len(v.kids)
   /\ IF v.kind = "rec" THEN wire.id \in Keys /\ r[wire.id] = v.d ELSE wire.id = "grp"
   /\ \A i \in DOMAIN v.kids : WireOK(r, wire.kids[i], v.kids[i])
RECURSIVE ObsReadOK(_, _)
ObsReadOK(r, fs) == IF fs = <<>> THEN TRUE
                    ELSE LET f == Head(fs) IN
                         CASE f.k = "HDR"  -> ObsReadOK(r, Tail(fs))
                           [] f.k = "DESC" -> f.d \in Descs /\ ObsReadOK([r EXCEPT ![Ident(f.d)] = f.d, ![Name(f.d)] = f.d], Tail(fs))
                           [] f.k = "REC"  -> WireOK(r, f.wire, f.v) /\ ObsReadOK(r, Tail(fs))
                           [] OTHER -> FALSE
ObsDefBeforeUse == Mode = "contract" => \A w \in Writers : ObsReadOK(EmptyReg, out[w])
ObsHeaderFirst  == Mode = "contract" => HeaderFirst
ObsRecPerWrite  == Mode = "contract" =>
                     \A w \in Writers : LET rf == SelectSeq(out[w], LAMBDA f : f.k = "REC") IN
                        /\ Len(rf) = Len(OkHist(w))
                        /\ \A i \in DOMAIN rf : rf[i].v = OkHist(w)[i].v
\* what the real reader returned: one record per record written, each carrying (recursively) the
\* descriptor it was created with; iteration ends normally
RECURSIVE DescTree(_)
DescTree(v) == [d |-> v.d, kids |-> [i \in DOMAIN v.kids |-> DescTree(v.kids[i])]]
ObsReadBack == Mode = "contract" =>
                 \A w \in Writers : rb[w].how # "none" =>
                    /\ rb[w].how = "end"
                    /\ rb[w].trees = [i \in DOMAIN OkHist(w) |-> DescTree(OkHist(w)[i].v)]
ObsAllOK == ObsDefBeforeUse /\ ObsHeaderFirst /\ ObsRecPerWrite /\ ObsReadBack

TNext == /\ l <= Len(Traces[tid])
         /\ ObsAllOK            \* latch: a trace stops at its first violating state (one counter-example per trace)
         /\ IF Mode = "contract" THEN TWriteC \/ TReadC ELSE TWriteD \/ TReadD
         /\ l' = l + 1 /\ UNCHANGED tid
TSpec == TInit /\ [][TNext]_tvars

\* design mode acceptance
NotStuck == (Mode = "design" /\ l <= Len(Traces[tid])) => ENABLED TNext

=============================================================================
