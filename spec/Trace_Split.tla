---------------------------- MODULE Trace_Split ----------------------------
(* Conformance of the real split:// writer with Split (C17).  One case = (limit, suffix length, N records,
   closing mode) on some target, and what was found on disk afterwards: the part files in suffix order with
   the record ids each holds (read by the library's reader, each part on its own), the length of each
   numeric suffix, and the ids read from the raw-byte concatenation of the parts.                       *)
EXTENDS Naturals, Sequences, FiniteSets, TLC, Json, IOUtils
Cases == JsonDeserialize(IOEnv.TRACE_FILE)
S == INSTANCE Split WITH MaxN <- 0, Limits <- {}, Dev <- {}, limit <- 0, written <- 0, fileCount <- 0, parts <- <<>>, open <- FALSE, n <- 0
VARIABLE cid
Init == cid \in 1..Len(Cases)
Next == UNCHANGED cid
Spec == Init /\ [][Next]_cid
C == Cases[cid]
Ids(k) == [i \in 1..k |-> i]
Contract == /\ C.raised = FALSE
            /\ C.all_readable                                              \* every part is readable on its own
            /\ \A i \in DOMAIN C.parts : Len(C.parts[i]) <= C.limit        \* at most the limit
            /\ S!Flat(C.parts) = Ids(C.n)                                  \* record-wise concatenation
            /\ (C.rawcat_checked => C.rawcat = Ids(C.n))                   \* raw-byte concatenation
            /\ \A i \in DOMAIN C.suffix : C.suffix[i] >= C.sl               \* suffix length
            /\ C.indep = Ids(C.n)                                          \* the independent readers agree
Design == C.all_readable => C.parts = S!Chunk(Ids(C.n), C.limit)
=============================================================================
