SPECIFICATION Spec
CONSTANTS
  MaxOps = 4
  Batches = {1, 2, 3, 4}
  Dev = {"NoColumnEvolution"}
INVARIANT VisiblePrefix
INVARIANT AtBoundary
INVARIANT ClosedCommitted
INVARIANT OneColumnPerField
INVARIANT VisibleSchemaOK
PROPERTY VisChangesOnlyAtBoundary
CHECK_DEADLOCK FALSE
