---------------------------- MODULE MC_Stream ----------------------------
(* Exhaustive configuration of Stream: all write histories up to MaxOps over the descriptor universe,
   on several writers open at the same time. *)
EXTENDS Stream
CONSTANT AllowSelfColliding
MCRecs == IF AllowSelfColliding THEN Recs ELSE {v \in Recs : ~SelfColliding(v)}
MCFail == IF AllowSelfColliding THEN FailRecs ELSE {v \in FailRecs : ~SelfColliding(v)}
MCNext == (\E w \in Writers, v \in MCRecs : Write(w, v)) \/ (\E w \in Writers, v \in MCFail : FailWrite(w, v))
MCSpec == Init /\ [][MCNext]_vars
\* the history variable is what makes states distinct; keep it (PerStream needs it) but bound by MaxOps
=============================================================================
