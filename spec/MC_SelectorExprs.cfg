SPECIFICATION Spec
INVARIANT Typed
INVARIANT ChainIsConjunction
INVARIANT DeMorgan
INVARIANT NotInIsNegation
CHECK_DEADLOCK FALSE
