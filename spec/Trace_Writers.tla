---------------------------- MODULE Trace_Writers ----------------------------
(* Trace validation for Writers (C17, close part).  One trace = one call history on one real writer
   (RecordWriter(url) of some adapter kind).  After every call that closes, the output is read with the
   library's reader AND with an independent reader of that container format; both results are logged.  *)
EXTENDS Writers, Json, IOUtils, TLCExt
CONSTANT Mode
Traces == JsonDeserialize(IOEnv.TRACE_FILE)
VARIABLES tid, l, obs
tvars == <<vars, tid, l, obs>>
Ev == Traces[tid][l]
NoObs == [observed |-> FALSE]
TInit == /\ tid \in 1..Len(Traces) /\ l = 2 /\ obs = NoObs
         /\ kind = Traces[tid][1].kind /\ st = "open" /\ written = <<>> /\ appBuf = <<>> /\ file = <<>>
         /\ hdr = FALSE /\ raised = FALSE /\ nops = 0
\* contract mode: bookkeeping from the call history, observation adopted
\* a write that raises has not accepted the record; only close / with-exit are required never to raise
StepC == /\ written' = IF Ev.op = "write" /\ ~Ev.raised THEN Append(written, Len(written) + 1) ELSE written
         /\ st' = IF Ev.op \in {"close", "exit"} THEN "closed" ELSE st
         /\ raised' = (raised \/ (Ev.raised /\ Ev.op \in {"close", "exit"}))
         /\ obs' = Ev.after
         /\ UNCHANGED <<kind, appBuf, file, hdr, nops>>
\* design mode: the module's own action must explain the observation
StepD == /\ CASE Ev.op = "write" -> (IF Ev.raised THEN (RefusedWrite \/ FailedWrite) ELSE Write)
                 [] Ev.op = "flush" -> Flush /\ ~Ev.raised [] Ev.op = "close" -> Close /\ ~Ev.raised [] Ev.op = "exit" -> Exit /\ ~Ev.raised
         /\ (Ev.after.observed => /\ Ev.after.indep_ok = (NeedsHeader(kind) => hdr')
                                   /\ (Ev.after.indep_ok => Ev.after.indep = file'))
         /\ obs' = Ev.after
On == Mode = "contract"
CDurable == (On /\ st = "closed") =>
              /\ obs.observed
              /\ obs.indep_ok /\ obs.indep = written
              /\ (obs.lib_checked => (obs.lib_ok /\ obs.lib = written))
CNoRaise == On => ~raised
AllOK == CDurable /\ CNoRaise
TNext == /\ l <= Len(Traces[tid]) /\ AllOK
         /\ IF On THEN StepC ELSE StepD
         /\ l' = l + 1 /\ UNCHANGED tid
TSpec == TInit /\ [][TNext]_tvars
NotStuck == (~On /\ l <= Len(Traces[tid])) => ENABLED TNext
=============================================================================
