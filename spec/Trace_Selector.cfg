SPECIFICATION Spec
INVARIANT RefOK
INVARIANT EngI
INVARIANT EngC
INVARIANT Refuse
CHECK_DEADLOCK FALSE
