---------------------------- MODULE Trace_Compose ----------------------------
(* Conformance of record composition with Record (C15).  One case = an operation on real records built from
   generated descriptors and what it returned, projected to ordered [name, type, value id] lists. *)
EXTENDS Record, Json, IOUtils
Cases == JsonDeserialize(IOEnv.TRACE_FILE)
VARIABLE cid
Init == cid \in 1..Len(Cases)
Next == UNCHANGED cid
Spec == Init /\ [][Next]_cid
C == Cases[cid]
Expected == CASE C.op \in {"extend", "merge", "group"} -> <<Merge(C.recs, C.replace)>>
              [] C.op = "ts" -> TsExpand(C.recs[1])
              [] C.op = "replace" -> <<ReplaceIn(C.recs[1], C.changes)>>
              [] C.op = "project" -> <<Project(C.recs[1], C.fields, C.excl)>>
Contract == /\ ~C.raised
            /\ C.res = Expected
            /\ C.originals_unchanged
            /\ C.name_ok
=============================================================================
