---------------------------- MODULE MC_Selector ----------------------------
(* Model-level checks of the reference semantics itself (no implementation involved): the C08 rule holds for
   every operator, operand kind and record of a small universe, in every boolean context; the evaluator is
   total and typed; chains equal the conjunction of their links. *)
EXTENDS Selector
a == 97  A == 65  b == 98
Recs == { [n |-> I(1), s |-> S(<<A, b>>), l |-> Li(<<S(<<a>>), S(<<b>>)>>), z |-> Nn, t |-> Bv(TRUE)],
          [n |-> I(0), s |-> S(<<>>),     l |-> Li(<<>>),                 z |-> Nn, t |-> Bv(FALSE)] }
Cn(v) == [k |-> "const", v |-> v]
Fd(f) == [k |-> "field", f |-> f]
Others == {Cn(I(1)), Cn(S(<<a>>)), Cn(Nn), Cn(Bv(TRUE)), Fd("n"), Fd("s"), Fd("l"), Fd("z"), Fd("m2"),
           [k |-> "list", es |-> <<Cn(I(1)), Cn(S(<<a>>))>>], [k |-> "tuple", es |-> <<Cn(I(1))>>]}
CmpOps == {"Eq", "NotEq", "Lt", "LtE", "Gt", "GtE", "In", "NotIn"}
VARIABLES op, other, left, rec
vars == <<op, other, left, rec>>
Init == op \in CmpOps /\ other \in Others /\ left \in BOOLEAN /\ rec \in Recs
Next == UNCHANGED vars
Spec == Init /\ [][Next]_vars
Base == IF left THEN [k |-> "cmp", op |-> op, a |-> Fd("m"), b |-> other] ELSE [k |-> "cmp", op |-> op, a |-> other, b |-> Fd("m")]
MissingCompareFalse == /\ Ev(Base, rec) = Bv(FALSE)
                       /\ Truth(Ev([k |-> "not", a |-> Base], rec)) = Bv(TRUE)
                       /\ Truth(Ev([k |-> "bool", op |-> "And", a |-> Base, b |-> Cn(Bv(TRUE))], rec)) = Bv(FALSE)
                       /\ Truth(Ev([k |-> "bool", op |-> "Or", a |-> Base, b |-> Cn(Bv(TRUE))], rec)) = Bv(TRUE)
Typed == Truth(Ev(Base, rec)).t \in {"bool", "err", "unspec"}
ChainIsConjunction ==
   LET ch == [k |-> "chain", op |-> op, op2 |-> "Lt", a |-> Cn(I(0)), b |-> other, c |-> Cn(I(3))]
       p == Ev([k |-> "cmp", op |-> op, a |-> Cn(I(0)), b |-> other], rec)
       q == Ev([k |-> "cmp", op |-> "Lt", a |-> other, b |-> Cn(I(3))], rec)
   IN (p.t = "bool" /\ q.t = "bool") => Ev(ch, rec) = Bv(p.v /\ q.v)
=============================================================================
