SPECIFICATION MCSpec
CONSTANTS
  Writers = {"w1", "w2"}
  MaxOps = 1
  Dev = {}
  Packer = "msgpack"
  AllowSelfColliding = TRUE
INVARIANT DefBeforeUse
INVARIANT HeaderFirst
INVARIANT RecPerWrite
INVARIANT PerStream
CHECK_DEADLOCK FALSE
