---------------------------- MODULE Trace_Policy ----------------------------
(* Conformance of the interpreted selector's call policy with Policy (C09).  One case = a call-target shape,
   whether it sits inside a generator expression whose variable is bound to a callable canary, the syntactic
   context it is nested in, and what happened when the real Selector evaluated it on a record holding
   instrumented canary objects: refused (any exception) or ran, which canary methods were invoked, whether the
   record changed.
     Contract (verdict): every shape the intended policy refuses is refused, and NOTHING of the canary is ever
                         invoked and the record never changes -- whatever the outcome.
     Design (drift):     shapes the policy allows do run.                                              *)
EXTENDS Policy, Json, IOUtils
Cases == JsonDeserialize(IOEnv.TRACE_FILE)
VARIABLE cid
TInit == cid \in 1..Len(Cases) /\ t = Cases[cid].t /\ g = Cases[cid].g /\ ctx = Cases[cid].ctx
TNext == UNCHANGED <<t, g, ctx, cid>>
TSpec == TInit /\ [][TNext]_<<t, g, ctx, cid>>
C == Cases[cid]
Contract == /\ C.obs.invoked = <<>>
            /\ ~C.obs.changed
            /\ (Outcome(t, g) = "refused" => C.obs.refused)
Design == (t.call /\ Outcome(t, g) # "refused" /\ ctx \in {"bare", "genelt", "not", "boolop", "gencond", "listelt"}) => ~C.obs.refused
=============================================================================
