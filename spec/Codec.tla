---------------------------- MODULE Codec ----------------------------
(* Layer 3: the encoding case analysis of the binary record-stream format, per field type.
   Anchors: flow/record/packer.py RecordPacker.pack_obj / unpack_obj (ext type 14, sub-types 0x1 record,
   0x2 descriptor, 0x10 datetime, 0x11 big integer, 0x12 grouped record), msgpack (use_bin_type, surrogateescape);
   flow/record/fieldtypes/*: _pack / _unpack of every field type; generated Record._unpack (defaults).

   Values are ABSTRACT CLASSES chosen from the encoding's own case analysis (one class per branch and per
   boundary); what is on the wire is a TOKEN-FAMILY TREE: the msgpack families NIL BOOL INT FLOAT STR BIN, arrays,
   maps, and the extension value EXT(sub-type, payload).  Widths inside a family (fixstr/str8/..., uint8/...) are
   not part of the frozen format: any valid width is the same family.
     Enc(T, c)   the token-family tree a value of class c in a field of type T is written as      (C02)
     Dec(T, w)   the class the reader produces from tree w in a field of type T
     RoundTrip   Dec(T, Enc(T, c)) = Norm(T, c)                                                   (C01)
   Norm is the identity except where the property says so: unset typed lists and digests read back as the
   type's empty default.
   Dev: "FamilyFromMagnitude" (IPv6 below 2^32 packed as an integer), "BinAsStr" (use_bin_type off). *)
EXTENDS Naturals, Sequences, FiniteSets, TLC
CONSTANTS Dev

\* ---------------- token families ----------------
Nil == [f |-> "NIL"]   Bool == [f |-> "BOOL"]   Int == [f |-> "INT"]   Flt == [f |-> "FLOAT"]
Str == [f |-> "STR"]   Bin == IF "BinAsStr" \in Dev THEN [f |-> "STR"] ELSE [f |-> "BIN"]
Arr(items) == [f |-> "ARR", items |-> items]
Map == [f |-> "MAP"]
Ext(sub, payload) == [f |-> "EXT", sub |-> sub, payload |-> payload]
Rep(x, n) == [i \in 1..n |-> x]

\* ---------------- field types and their value classes ----------------
IntTypes == {"varint", "filesize", "unix_file_mode", "uint16", "uint32", "net.tcp.Port", "net.udp.Port", "net.ipv4.Address"}
TextTypes == {"string", "wstring", "uri", "net.ipnetwork", "net.IPNetwork"}
ScalarTypes == IntTypes \cup TextTypes \cup {"bytes", "boolean", "float", "datetime", "path", "command", "digest", "net.ipaddress", "net.IPAddress",
                                              "stringlist", "dictlist", "dynamic"}
Classes(T) ==
  CASE T \in IntTypes -> {"none", "native", "big"}                 \* native: -2^63 .. 2^64-1 ; big: beyond (ext 0x11)
    [] T \in TextTypes -> {"none", "text"}
    [] T = "bytes" -> {"none", "bytes"}
    [] T = "boolean" -> {"none", "bool"}
    [] T = "float" -> {"none", "float"}
    [] T = "datetime" -> {"none", "utc", "offset"}                 \* utc: tzinfo is UTC (7 integers) ; offset: anything else (ISO text)
    [] T = "path" -> {"none", "posix", "windows"}
    [] T = "command" -> {"none", "posix", "windows"}
    [] T = "digest" -> {"none", "md5", "sha", "all"}
    [] T \in {"net.ipaddress", "net.IPAddress"} -> {"none", "v4", "v6small", "v6mid", "v6big"}      \* v6 below 2^32 / below 2^64 / above
    [] T = "stringlist" -> {"none", "empty", "texts"}
    [] T = "dictlist" -> {"none", "empty", "dicts"}
    [] T = "dynamic" -> {"none", "text", "native", "big", "bytes", "bool", "utc", "texts"}

\* ---------------- Enc ----------------
Enc(T, c) ==
  IF c = "none" /\ T = "digest" THEN Arr(<<Nil, Nil, Nil>>)       \* an unset digest IS the empty default: three absent hashes
  ELSE IF c = "none" THEN Nil
  ELSE CASE T \in IntTypes \/ (T = "dynamic" /\ c \in {"native", "big"}) ->
              IF c = "native" THEN Int ELSE Ext(17, Arr(<<Bool, Bin>>))              \* 0x11: [negative?, magnitude bytes]
         [] T \in TextTypes \/ (T = "dynamic" /\ c = "text") -> Str
         [] T = "bytes" \/ (T = "dynamic" /\ c = "bytes") -> Bin
         [] T = "boolean" \/ (T = "dynamic" /\ c = "bool") -> Bool
         [] T = "float" -> Flt
         [] T = "datetime" \/ (T = "dynamic" /\ c = "utc") ->
              IF c = "utc" THEN Ext(16, Arr(Rep(Int, 7))) ELSE Ext(16, Arr(<<Str>>))  \* 0x10
         [] T = "path" -> Arr(<<Str, Int>>)                                         \* [text, flavour]
         [] T = "command" -> Arr(<<Arr(<<Str, Arr(<<Str>>)>>), Int>>)               \* [[executable, [args]], flavour]  (one argument in the samples)
         [] T = "digest" -> Arr(<<IF c \in {"md5", "all"} THEN Bin ELSE Nil, IF c \in {"sha", "all"} THEN Bin ELSE Nil, IF c \in {"sha", "all"} THEN Bin ELSE Nil>>)
         [] T \in {"net.ipaddress", "net.IPAddress"} ->
              IF c = "v6small" /\ "FamilyFromMagnitude" \notin Dev THEN Str        \* text form: as an integer it could not be told from IPv4
              ELSE IF c \in {"v4", "v6small", "v6mid"} THEN Int
              ELSE Ext(17, Arr(<<Bool, Bin>>))                                     \* an IPv6 address above 2^64 is a big integer
         [] T = "stringlist" \/ (T = "dynamic" /\ c = "texts") -> IF c = "empty" THEN Arr(<<>>) ELSE Arr(<<Str, Str>>)
         [] T = "dictlist" -> IF c = "empty" THEN Arr(<<>>) ELSE Arr(<<Map>>)
         [] OTHER -> [f |-> "?"]                                                    \* a class the format has no encoding for

\* ---------------- Dec: the reader's branch logic ----------------
Dec(T, w) ==
  IF w.f = "NIL" THEN "none"
  ELSE CASE T \in IntTypes -> IF w.f = "INT" THEN "native" ELSE IF w.f = "EXT" /\ w.sub = 17 THEN "big" ELSE "?"
         [] T \in TextTypes -> IF w.f = "STR" THEN "text" ELSE "?"
         [] T = "bytes" -> IF w.f \in {"BIN", "STR"} THEN "bytes" ELSE "?"
         [] T = "boolean" -> IF w.f = "BOOL" THEN "bool" ELSE "?"
         [] T = "float" -> IF w.f = "FLOAT" THEN "float" ELSE "?"
         [] T = "datetime" -> IF w.f = "EXT" /\ w.sub = 16 THEN (IF Len(w.payload.items) = 7 THEN "utc" ELSE "offset") ELSE "?"
         [] T = "path" -> IF w.f = "ARR" THEN "by-flavour-flag" ELSE "?"
         [] T = "command" -> IF w.f = "ARR" THEN "by-flavour-flag" ELSE "?"
         [] T = "digest" -> IF w.f = "ARR" /\ Len(w.items) = 3 THEN
                               (IF w.items[1].f # "NIL" /\ w.items[2].f # "NIL" THEN "all" ELSE IF w.items[1].f # "NIL" THEN "md5" ELSE IF w.items[2].f # "NIL" THEN "sha" ELSE "none")
                            ELSE "?"
         [] T \in {"net.ipaddress", "net.IPAddress"} ->
              IF w.f = "STR" THEN "by-text" ELSE IF w.f = "INT" THEN "v4-if-below-2^32-else-v6" ELSE IF w.f = "EXT" THEN "v6big" ELSE "?"
         [] T = "stringlist" -> IF w.f = "ARR" THEN (IF w.items = <<>> THEN "empty" ELSE "texts") ELSE "?"
         [] T = "dictlist" -> IF w.f = "ARR" THEN (IF w.items = <<>> THEN "empty" ELSE "dicts") ELSE "?"
         [] T = "dynamic" -> CASE w.f = "STR" -> "text" [] w.f = "INT" -> "native" [] w.f = "BIN" -> "bytes" [] w.f = "BOOL" -> "bool"
                               [] w.f = "EXT" /\ w.sub = 17 -> "big" [] w.f = "EXT" /\ w.sub = 16 -> "utc" [] w.f = "ARR" -> "texts" [] OTHER -> "?"
\* classes whose identity the reader recovers from data carried inside the value (flavour flag, text form, magnitude)
Resolve(T, c, d) ==
  CASE d = "by-flavour-flag" -> c                                   \* the flag on the wire is the class
    [] d = "by-text" -> c                                           \* the text form names the family
    [] d = "v4-if-below-2^32-else-v6" -> IF c = "v6small" THEN "v4" ELSE c      \* an IPv6 address below 2^32 sent as an integer comes back as IPv4
    [] OTHER -> d
Norm(T, c) == c
RoundTripOK(T, c) == Resolve(T, c, Dec(T, Enc(T, c))) = Norm(T, c)

\* ---------------- the record frame (C02) ----------------
\* EXT(1, [[name, hash], [field values ..., _source, _classification, _generated, _version]])
RecordFrame(valueTrees) == Ext(1, Arr(<<Arr(<<Str, Int>>), Arr(valueTrees)>>))
ReservedOK(vals) == LET n == Len(vals) IN
   /\ n >= 4
   /\ vals[n - 3].f \in {"STR", "NIL"} /\ vals[n - 2].f \in {"STR", "NIL"}      \* _source, _classification
   /\ vals[n - 1].f = "EXT" /\ vals[n - 1].sub = 16                             \* _generated
   /\ vals[n].f = "INT"                                                        \* _version is LAST
IsRecordFrame(w) == /\ w.f = "EXT" /\ w.sub = 1 /\ w.payload.f = "ARR" /\ Len(w.payload.items) = 2
                    /\ w.payload.items[1] = Arr(<<Str, Int>>)
                    /\ w.payload.items[2].f = "ARR" /\ ReservedOK(w.payload.items[2].items)
IsDescriptorFrame(w) == w.f = "EXT" /\ w.sub = 2 /\ w.payload.f = "ARR" /\ Len(w.payload.items) = 2 /\ w.payload.items[1].f = "STR"
                        /\ w.payload.items[2].f = "ARR" /\ \A i \in DOMAIN w.payload.items[2].items : w.payload.items[2].items[i] = Arr(<<Str, Str>>)
IsHeaderFrame(w) == w.f = "BIN"

\* Conformance of an observed tree with the encoding: exact for fixed shapes, a pattern where the length varies
\* (command arguments, text lists, dictionaries lists)
AllOf(items, fam) == \A i \in DOMAIN items : items[i].f = fam
Conforms(T, c, w) ==
  CASE T = "command" /\ c # "none" ->
          /\ w.f = "ARR" /\ Len(w.items) = 2 /\ w.items[2] = Int
          /\ \/ w.items[1] = Nil                                   \* a command without an executable: nil, then the flavour
             \/ /\ w.items[1].f = "ARR" /\ Len(w.items[1].items) = 2 /\ w.items[1].items[1] = Str
                /\ w.items[1].items[2].f = "ARR" /\ AllOf(w.items[1].items[2].items, "STR")
    [] (T = "stringlist" \/ T = "dynamic") /\ c = "texts" -> w.f = "ARR" /\ w.items # <<>> /\ AllOf(w.items, "STR")
    [] T = "dictlist" /\ c = "dicts" -> w.f = "ARR" /\ w.items # <<>> /\ AllOf(w.items, "MAP")
    [] T = "digest" /\ c = "none" -> w = Nil \/ w = Arr(<<Nil, Nil, Nil>>)     \* unset: nil, or the empty default
    [] OTHER -> w = Enc(T, c)
\* an unset typed list is nil or the empty list (the generated class for keyword field names keeps None)
ConformsList(T, cs, w) == \/ (cs = <<>> /\ w = Nil)
                          \/ (w.f = "ARR" /\ Len(w.items) = Len(cs) /\ \A i \in DOMAIN cs : Conforms(T, cs[i], w.items[i]))
\* typed list form T[]: an array of element encodings; an unset list is the empty list
EncList(T, cs) == Arr([i \in DOMAIN cs |-> Enc(T, cs[i])])
\* grouped record: EXT(0x12, [name, [[identifier, values], ...]])
IsGroupedFrame(w) == /\ w.f = "EXT" /\ w.sub = 18 /\ w.payload.f = "ARR" /\ Len(w.payload.items) = 2 /\ w.payload.items[1].f = "STR"
                     /\ w.payload.items[2].f = "ARR"
                     /\ \A i \in DOMAIN w.payload.items[2].items :
                           LET m == w.payload.items[2].items[i] IN m.f = "ARR" /\ Len(m.items) = 2 /\ m.items[1] = Arr(<<Str, Int>>) /\ m.items[2].f = "ARR" /\ ReservedOK(m.items[2].items)
FrameOK(w) == IsRecordFrame(w) \/ IsDescriptorFrame(w) \/ IsGroupedFrame(w)
\* Stream ::= Header Frame*
StreamOK(ws) == ws # <<>> /\ IsHeaderFrame(ws[1]) /\ \A i \in 2..Len(ws) : FrameOK(ws[i]) \/ IsHeaderFrame(ws[i])

\* ---------------- model-level exploration ----------------
VARIABLES ty, cl
vars == <<ty, cl>>
Init == ty \in ScalarTypes /\ cl \in Classes(ty)
Next == UNCHANGED vars
Spec == Init /\ [][Next]_vars
RoundTrip == RoundTripOK(ty, cl)
\* bytes travel in the bin family and text in the str family: the two are never confused on the wire
BinIsNotStr == (ty = "bytes" /\ cl # "none") => Enc(ty, cl).f = "BIN"
=============================================================================
