---------------------------- MODULE Sources ----------------------------
(* Layer 7 (several sources): readers that are open at the same time are independent.
   Anchor: flow/record/base.py open_path / open_stream (one decompressor per source), RecordAdapter;
   flow/record/stream.py RecordStreamReader (one packer / descriptor registry per reader); record_stream.

   Each reader has its own source of N records, is opened, read record by record and closed; the steps of different
   readers interleave freely (a merge of two sources, `readers = [RecordReader(p) for p in paths]`).
   Dev: "SharedContext" -- all readers of one codec share ONE decoding context, and opening a reader resets it: a
        reader that was already open then decodes garbage. *)
EXTENDS Naturals, Sequences, FiniteSets, TLC
CONSTANTS Readers, N, Dev
VARIABLES st, pos, out, owner
vars == <<st, pos, out, owner>>
Init == st = [r \in Readers |-> "new"] /\ pos = [r \in Readers |-> 0] /\ out = [r \in Readers |-> <<>>] /\ owner = "none"
Open(r)  == st[r] = "new" /\ st' = [st EXCEPT ![r] = "open"] /\ owner' = r /\ UNCHANGED <<pos, out>>
Read(r)  == /\ st[r] = "open" /\ pos[r] < N
            /\ pos' = [pos EXCEPT ![r] = @ + 1]
            /\ out' = [out EXCEPT ![r] = Append(@, IF "SharedContext" \in Dev /\ owner # r THEN [src |-> "garbage", i |-> 0] ELSE [src |-> r, i |-> pos[r] + 1])]
            /\ UNCHANGED <<st, owner>>
Close(r) == st[r] = "open" /\ st' = [st EXCEPT ![r] = "closed"] /\ UNCHANGED <<pos, out, owner>>
Next == \E r \in Readers : Open(r) \/ Read(r) \/ Close(r)
Spec == Init /\ [][Next]_vars
\* what a reader has yielded is exactly the beginning of ITS source, whatever the other readers did meanwhile
Independent == \A r \in Readers : out[r] = [i \in 1..pos[r] |-> [src |-> r, i |-> i]]
=============================================================================
