SPECIFICATION Spec
CONSTANTS
  Paths = {"p", "q"}
  MaxOps = 5
  MaxClock = 2
  Dev = {"SkipEmptyRotation"}
INVARIANT NoLoss
INVARIANT InRightFile
INVARIANT OrderKept
INVARIANT NeverOverwrites
CHECK_DEADLOCK FALSE
