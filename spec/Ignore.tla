---------------------------- MODULE Ignore ----------------------------
(* Layer 2: the ignored-fields configuration used by record equality and hashing, with its scoped override.
   Anchor: flow/record/base.py IGNORE_FIELDS_FOR_COMPARISON, set_ignored_fields_for_comparison,
   ignore_fields_for_comparison (context manager).
   Dev: "NoFinally" -- the scope is not undone when it ends with an error;
        "ExceptionOnly" -- it is undone for ordinary exceptions but not for the other ways a block can be left
        (KeyboardInterrupt, SystemExit, a cancelled task, a generator that is closed: BaseException). *)
EXTENDS Naturals, Sequences, FiniteSets, TLC
CONSTANTS FieldSets, MaxDepth, MaxOps, Dev
VARIABLES ignored, stack, nops
vars == <<ignored, stack, nops>>
Init == ignored \in FieldSets /\ stack = <<>> /\ nops = 0
Tick == nops < MaxOps /\ nops' = nops + 1
Set(S)   == Tick /\ ignored' = S /\ UNCHANGED stack
\* (a scope object may be created long before it is entered: what it will restore is the configuration in force when it
\*  is ENTERED -- creating the object is not a step of this machine)
Enter(S) == Tick /\ Len(stack) < MaxDepth /\ stack' = Append(stack, ignored) /\ ignored' = S
ExitOk   == Tick /\ stack # <<>> /\ ignored' = stack[Len(stack)] /\ stack' = SubSeq(stack, 1, Len(stack) - 1)
ExitErr  == Tick /\ stack # <<>> /\ stack' = SubSeq(stack, 1, Len(stack) - 1)
            /\ ignored' = IF "NoFinally" \in Dev THEN ignored ELSE stack[Len(stack)]
\* the block is left by something that is not an ordinary exception
ExitBase == Tick /\ stack # <<>> /\ stack' = SubSeq(stack, 1, Len(stack) - 1)
            /\ ignored' = IF "NoFinally" \in Dev \/ "ExceptionOnly" \in Dev THEN ignored ELSE stack[Len(stack)]
Next == (\E S \in FieldSets : Set(S) \/ Enter(S)) \/ ExitOk \/ ExitErr \/ ExitBase
Spec == Init /\ [][Next]_vars
\* a scoped override is undone when the scope ends, also when it ends with an error
ScopeRestores == [][(Len(stack') < Len(stack)) => ignored' = stack[Len(stack)]]_vars
=============================================================================
