---------------------------- MODULE Rd ----------------------------
EXTENDS Naturals, Sequences, FiniteSets, TLC, Json, IOUtils, SequencesExt
\* ---- records: id is unique and is the value of field n ----
FieldsOf(d) == IF d = "A" THEN <<"s", "n", "ts">> ELSE <<"n", "other">>
HasDt(d) == d = "A"
SVal(id) == IF id % 2 = 1 THEN "a" ELSE "b"          \* value of A.s
OVal(id) == IF id % 3 = 0 THEN "y" ELSE "x"          \* value of B.other
Rec(id, d) == [id |-> id, d |-> d]
\* ---- selectors (meaning over a record; missing field => comparison false) ----
Sels == {"none", "n_gt_2", "other_y", "s_b", "n_ge_other"}     \* last one: r.n >= 2 and r.other == 'y'
Match(sel, r) == CASE sel = "none" -> TRUE
                   [] sel = "n_gt_2" -> r.id > 2
                   [] sel = "other_y" -> r.d = "B" /\ OVal(r.id) = "y"
                   [] sel = "s_b" -> r.d = "A" /\ SVal(r.id) = "b"
                   [] sel = "n_ge_other" -> r.id >= 2 /\ r.d = "B" /\ OVal(r.id) = "y"
\* ---- sources ----
Readable(src) == CASE src.kind = "good" -> src.recs
                   [] src.kind = "trunc" -> SubSeq(src.recs, 1, src.keep)
                   [] OTHER -> <<>>
RECURSIVE Concat(_)
Concat(ss) == IF ss = <<>> THEN <<>> ELSE Readable(Head(ss)) \o Concat(Tail(ss))
\* ---- pipeline ----
Slice(q, skip, cnt) == LET a == IF skip >= Len(q) THEN <<>> ELSE SubSeq(q, skip + 1, Len(q))
                       IN IF cnt = 0 \/ cnt >= Len(a) THEN a ELSE SubSeq(a, 1, cnt)
InSeq(x, q) == \E i \in DOMAIN q : q[i] = x
Project(fs, fields, excl) ==
   IF fields = <<>> THEN SelectSeq(fs, LAMBDA f : ~InSeq(f, excl))
   ELSE SelectSeq(fields, LAMBDA f : InSeq(f, fs) /\ ~InSeq(f, excl))
OutRec(r, cfg) == [id |-> r.id, d |-> r.d, fields |-> Project(FieldsOf(r.d), cfg.fields, cfg.excl),
                   src |-> IF cfg.override THEN "OVR" ELSE "orig"]
Pipeline(srcs, cfg) ==
   LET filtered == SelectSeq(Concat(srcs), LAMBDA r : Match(cfg.sel, r))
       sliced == Slice(filtered, cfg.skip, cfg.cnt)
   IN [i \in DOMAIN sliced |-> OutRec(sliced[i], cfg)]
RECURSIVE Chunk(_, _)
Chunk(q, k) == IF k = 0 THEN <<q>> ELSE IF Len(q) < k THEN <<q>>      \* as-built: a trailing (possibly empty) part always exists
               ELSE <<SubSeq(q, 1, k)>> \o Chunk(SubSeq(q, k + 1, Len(q)), k)
\* ---- enumerated universe ----
R1 == <<Rec(1, "A"), Rec(2, "B"), Rec(3, "A")>>
R2 == <<Rec(4, "B"), Rec(5, "A"), Rec(6, "B")>>
R3 == <<Rec(7, "A")>>
SrcChoices(rs) == {[kind |-> "good", recs |-> rs, keep |-> Len(rs)], [kind |-> "missing", recs |-> rs, keep |-> 0],
                   [kind |-> "garbage", recs |-> rs, keep |-> 0]} \cup {[kind |-> "trunc", recs |-> rs, keep |-> k] : k \in 0..(Len(rs) - 1)}
Layouts == {<<a, b, c>> : a \in SrcChoices(R1), b \in SrcChoices(R2), c \in SrcChoices(R3)}
Cfgs == [skip : 0..2, cnt : {0, 1, 3}, sel : Sels, fields : {<<>>, <<"n">>, <<"other", "n", "bogus">>}, excl : {<<>>, <<"s">>}, override : BOOLEAN, split : {0, 2}]
\* pseudo-random but deterministic thinning so the prototype stays small: keep a case iff a hash-like mix hits
Keep(l, c) == TRUE
Cases == {[srcs |-> l, cfg |-> c, out |-> Pipeline(l, c), parts |-> Chunk(Pipeline(l, c), c.split)] : l \in Layouts, c \in Cfgs}
\* algebraic sanity lemmas on the model itself
ASSUME \A l \in Layouts : Pipeline(l, [skip |-> 0, cnt |-> 0, sel |-> "none", fields |-> <<>>, excl |-> <<>>, override |-> FALSE, split |-> 0])
                             = [i \in DOMAIN Concat(l) |-> OutRec(Concat(l)[i], [fields |-> <<>>, excl |-> <<>>, override |-> FALSE])]
ASSUME \A c \in Cfgs, l \in Layouts : c.cnt > 0 => Len(Pipeline(l, c)) <= c.cnt
ASSUME PrintT(<<"ncases", Cardinality(Layouts) * Cardinality(Cfgs)>>)
ASSUME ndJsonSerialize(IOEnv.OUT_FILE, SetToSeq(Cases))
VARIABLE dummy
Init == dummy = 0
Next == UNCHANGED dummy
=============================================================================

