SPECIFICATION MCSpec
CONSTANTS
  Writers = {"w1"}
  MaxOps = 3
  Dev = {}
  Packer = "msgpack"
  AllowSelfColliding = FALSE
INVARIANT DefBeforeUse
INVARIANT HeaderFirst
INVARIANT RecPerWrite
INVARIANT PerStream
CHECK_DEADLOCK FALSE
