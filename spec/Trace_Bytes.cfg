SPECIFICATION Spec
INVARIANT Contract
INVARIANT Design
INVARIANT DesignCalls
CHECK_DEADLOCK FALSE
