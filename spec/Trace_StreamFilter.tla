---------------------------- MODULE Trace_StreamFilter ----------------------------
(* Conformance of FILTERING A STREAM with the reference semantics (C08, stream half; also used by C10).
   The file holds several record streams (each a sequence of environments field -> tagged value, in stream order)
   and one case per (selector expression, stream, channel): the ids the channel yielded and how iteration ended.
   Channels: the binary stream reader with the selector as text / as a compiled selector object, the JSON reader on a
   file with descriptors, the JSON reader on PLAIN json lines (records are typed by inference, per line), and rdump
   (compiled and -n) writing a new stream.
   TLC evaluates Ev on every record of the stream; where every record is defined, the output must be exactly the
   records whose truth value is TRUE, in order, and iteration must end normally: a comparison on a field the record
   lacks is false, never an error, and never makes the rest of the source disappear.                               *)
EXTENDS Selector, Json, IOUtils
Data == JsonDeserialize(IOEnv.TRACE_FILE)
Cases == Data.cases
VARIABLE cid
Init == cid \in 1..Len(Cases)
Next == UNCHANGED cid
Spec == Init /\ [][Next]_cid
C == Cases[cid]
Envs == Data.streams[C.stream]
M(i) == Truth(Ev(C.e, Envs[i]))
AllDefined == \A i \in DOMAIN Envs : M(i).t = "bool"
Expected == SelectSeq([i \in DOMAIN Envs |-> i], LAMBDA i : M(i).v)
\* the engine's own answers on the records of the stream, asked directly (no reader involved): where THEY already deviate
\* from the reference semantics the defect is the engine's (judged per record by Trace_Selector) and not the reader's
EngineOK == C.has_direct => \A i \in DOMAIN Envs : C.direct[i].k = "ok" /\ C.direct[i].v = M(i).v
FilterOK == (AllDefined /\ EngineOK) => (C.how = "end" /\ C.out = Expected)
\* non-vacuity (the driver requires this to be VIOLATED somewhere)
NoneDefined == ~AllDefined
=============================================================================
