SPECIFICATION TSpec
CONSTANTS
  Protos = {"tcp", "http"}
  Limit = 20
  MaxOps = 100000
  MayFail = TRUE
  Dev = {}
  Mode = "contract"
INVARIANT NotStuck
INVARIANT CConservation
INVARIANT CDelivered
CHECK_DEADLOCK FALSE
