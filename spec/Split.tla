---------------------------- MODULE Split ----------------------------
(* Layer 5: the split writer.  Anchor: flow/record/adapter/split.py SplitWriter.{__init__,_next_path,write,
   flush,close}.  Parts are filled greedily; when a part reaches the limit it is flushed and closed and the
   NEXT part is opened eagerly, so a trailing (possibly empty) part always exists.
   Dev: "GtInsteadOfGe" (rotate when written > limit), "IndexOffByOne" (sensitivity only).            *)
EXTENDS Naturals, Sequences, FiniteSets, TLC
CONSTANTS MaxN, Limits, Dev
VARIABLES limit, written, fileCount, parts, open, n
vars == <<limit, written, fileCount, parts, open, n>>
\* parts: sequence of sequences of record ids; the last one is the part being written (its file exists)
Init == limit \in Limits /\ written = 0 /\ fileCount = 1 /\ parts = << <<>> >> /\ open = TRUE /\ n = 0
Full(w) == IF "GtInsteadOfGe" \in Dev THEN w > limit ELSE w >= limit
Write == /\ open /\ n < MaxN
         /\ n' = n + 1
         /\ LET p1 == [parts EXCEPT ![Len(parts)] = Append(@, n + 1)] IN
            IF Full(written + 1)
            THEN /\ parts' = Append(p1, <<>>) /\ written' = 0 /\ fileCount' = fileCount + 1
            ELSE /\ parts' = p1 /\ written' = written + 1 /\ UNCHANGED fileCount
         /\ UNCHANGED <<limit, open>>
Close == open /\ open' = FALSE /\ UNCHANGED <<limit, written, fileCount, parts, n>>
Next == Write \/ Close
Spec == Init /\ [][Next]_vars
RECURSIVE Flat(_)
Flat(ps) == IF ps = <<>> THEN <<>> ELSE Head(ps) \o Flat(Tail(ps))
\* ---------------- C17 (split part) ----------------
PartBound == \A i \in DOMAIN parts : Len(parts[i]) <= limit
PartsConcat == Flat(parts) = [i \in 1..n |-> i]
Counters == fileCount = Len(parts) /\ written = Len(parts[Len(parts)])
\* the greedy design as a function of (n, limit), used by trace validation in design mode
RECURSIVE Chunk(_, _)
Chunk(q, k) == IF Len(q) < k THEN <<q>> ELSE <<SubSeq(q, 1, k)>> \o Chunk(SubSeq(q, k + 1, Len(q)), k)
DesignParts == parts = Chunk([i \in 1..n |-> i], limit)
=============================================================================
