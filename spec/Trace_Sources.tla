---------------------------- MODULE Trace_Sources ----------------------------
(* Trace validation for Sources (C11): interleaved open / read / close steps of several real readers (one per
   source file, every codec and way of naming the source); each read logs the record it returned.  The observation
   is adopted and Independent is evaluated after every step. *)
EXTENDS Sources, Json, IOUtils
Traces == JsonDeserialize(IOEnv.TRACE_FILE)
VARIABLES tid, l, failed
tvars == <<vars, tid, l, failed>>
Ev == Traces[tid][l]
TInit == Init /\ tid \in 1..Len(Traces) /\ l = 1 /\ failed = FALSE
TStep == /\ l <= Len(Traces[tid]) /\ ~failed
         /\ CASE Ev.op = "open"  -> Open(Ev.r) /\ failed' = Ev.raised
              [] Ev.op = "close" -> Close(Ev.r) /\ failed' = Ev.raised
              [] OTHER -> /\ st[Ev.r] = "open" /\ pos[Ev.r] < N
                          /\ pos' = [pos EXCEPT ![Ev.r] = @ + 1]
                          /\ out' = [out EXCEPT ![Ev.r] = Append(@, [src |-> Ev.src, i |-> Ev.i])]
                          /\ failed' = Ev.raised /\ UNCHANGED <<st, owner>>
         /\ l' = l + 1 /\ UNCHANGED tid
TSpec == TInit /\ [][TStep]_tvars
NoFailure == ~failed
=============================================================================
