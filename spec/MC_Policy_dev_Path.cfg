SPECIFICATION Spec
CONSTANT Dev = {"PathFromLastAttr"}
INVARIANT OnlyWhitelistedInvoked
CHECK_DEADLOCK FALSE
