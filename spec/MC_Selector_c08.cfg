SPECIFICATION Spec
INVARIANT MissingCompareFalse
INVARIANT Typed
INVARIANT ChainIsConjunction
CHECK_DEADLOCK FALSE
