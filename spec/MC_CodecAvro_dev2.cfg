SPECIFICATION Spec
CONSTANT Dev = {"StaleLastDescriptor"}
INVARIANT NeverDifferentValue
INVARIANT MixedRefused
CHECK_DEADLOCK FALSE
