SPECIFICATION Spec
CONSTANTS
  MaxLen = 4
  Dev = {"NamespaceNotReset"}
INVARIANT OutIsFilter
CHECK_DEADLOCK FALSE
