SPECIFICATION TSpec
CONSTANT Dev = {}
INVARIANT RoundTripJson
INVARIANT PlainJson
INVARIANT KeysAreFields
INVARIANT PlainLinesReadable
CHECK_DEADLOCK FALSE
