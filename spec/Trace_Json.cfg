SPECIFICATION TSpec
CONSTANT Dev = {}
INVARIANT RoundTripJson
INVARIANT PlainJson
INVARIANT KeysAreFields
INVARIANT PlainLinesReadable
INVARIANT PlainTyped
CHECK_DEADLOCK FALSE
