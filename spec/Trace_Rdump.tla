---------------------------- MODULE Trace_Rdump ----------------------------
(* Conformance of the real rdump with Rdump (C16).  One case = a source layout, an option combination, and
   what the real `rdump.main(argv)` wrote: for file output the parts in suffix order, each a sequence of
   [id, d, fields, src, cls, tsd]; for the stdout modes the same sequence with only what that mode shows. *)
EXTENDS Rdump, Json, IOUtils
Cases == JsonDeserialize(IOEnv.TRACE_FILE)
VARIABLE cid
Init == cid \in 1..Len(Cases)
Next == UNCHANGED cid
Spec == Init /\ [][Next]_cid
C == Cases[cid]
Exp == Pipeline(C.srcs, C.cfg)
\* what a rendering mode can show of a record: id only when field n survived projection
View(r, mode) == [id |-> IF InSeq("n", r.fields) THEN r.id ELSE 0,
                  fields |-> IF mode \in {"stream", "jsonlines", "wjson"} THEN r.fields ELSE <<>>,
                  src |-> IF mode \in {"stream"} THEN r.src ELSE "-",
                  cls |-> IF mode \in {"stream"} THEN r.cls ELSE "-",
                  tsd |-> IF mode \in {"stream", "jsonlines", "wjson"} THEN r.tsd ELSE "-"]
Views(q, mode) == [i \in DOMAIN q |-> View(q[i], mode)]
\* verdict: the concatenation of the parts is exactly the specified sequence; no part exceeds the limit
ContractList == C.mode = "list" =>
                  /\ ~C.raised
                  /\ C.listed = ListOut(C.srcs, C.cfg)
                  /\ C.processed = Len(Sliced(C.srcs, C.cfg))
Contract == C.mode # "list" =>
            /\ ~C.raised
            /\ [i \in DOMAIN Flat(C.parts) |-> LET p == Flat(C.parts)[i] IN [id |-> p.id, fields |-> p.fields, src |-> p.src, cls |-> p.cls, tsd |-> p.tsd]]
                 = Views(Exp, C.mode)
            /\ (C.cfg.split > 0 => \A i \in DOMAIN C.parts : Len(C.parts[i]) <= C.cfg.split)
\* drift: the exact part boundaries of the greedy split
Design == C.mode = "stream" => [i \in DOMAIN C.parts |-> Len(C.parts[i])] = [i \in DOMAIN Chunk(Exp, C.cfg.split) |-> Len(Chunk(Exp, C.cfg.split)[i])]
=============================================================================
