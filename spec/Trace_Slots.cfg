SPECIFICATION Spec
INVARIANT SlotsTyped
INVARIANT FailedAssignIsNoOp
INVARIANT Serialisable
PROPERTY MustReject
PROPERTY MustAccept
PROPERTY SourceUntouched
PROPERTY ConvertedAsDocumented
PROPERTY FreshStartsEmpty
CHECK_DEADLOCK FALSE
