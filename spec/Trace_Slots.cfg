SPECIFICATION Spec
INVARIANT SlotsTyped
INVARIANT FailedAssignIsNoOp
INVARIANT Serialisable
PROPERTY MustReject
PROPERTY MustAccept
CHECK_DEADLOCK FALSE
