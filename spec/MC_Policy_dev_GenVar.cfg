SPECIFICATION Spec
CONSTANT Dev = {"GenVarCallable"}
INVARIANT OnlyWhitelistedInvoked
CHECK_DEADLOCK FALSE
