---------------------------- MODULE Trace_Template ----------------------------
(* Trace validation for Template (C17, rotation part).  One trace = one history of write(path)/tick/close
   on a real PathTemplateWriter with a fake clock and pre-created files; after every call the directory is
   listed and every file decoded with the independent stream decoder: (base path, is-a-rotation, ids).   *)
EXTENDS Template, Json, IOUtils, TLCExt
CONSTANT Mode
Traces == JsonDeserialize(IOEnv.TRACE_FILE)
VARIABLES tid, l, obsfiles, raisedT
tvars == <<vars, tid, l, obsfiles, raisedT>>
Ev == Traces[tid][l]
PreOf(t) == {Traces[t][1].pre[i] : i \in DOMAIN Traces[t][1].pre}
PreEOf(t) == {Traces[t][1].preE[i] : i \in DOMAIN Traces[t][1].preE}
TInit == /\ tid \in 1..Len(Traces) /\ l = 2 /\ raisedT = FALSE
         /\ clock = 0 /\ pre = PreOf(tid) /\ preE = PreEOf(tid) /\ InitFiles
         /\ cur = None /\ nw = 0 /\ dest = <<>> /\ closed = FALSE
         /\ obsfiles = Traces[tid][1].files
StepC == /\ nw' = IF Ev.op = "write" THEN nw + 1 ELSE nw
         /\ dest' = IF Ev.op = "write" THEN Append(dest, Ev.p) ELSE dest
         /\ obsfiles' = Ev.files /\ raisedT' = (raisedT \/ Ev.raised)
         /\ UNCHANGED <<clock, exists, content, cur, pre, closed, preE, ino>>
ObsSet(fs) == {<<fs[i].b, fs[i].rot, fs[i].ids, fs[i].ino>> : i \in DOMAIN fs}
ModelSet(ex, co, io) == {<<Base(f), f[2] > 0, co[f], io[f]>> : f \in ex}
StepD == /\ CASE Ev.op = "write" -> Write(Ev.p) [] Ev.op = "tick" -> Tick [] Ev.op = "close" -> Close
         /\ ~Ev.raised
         /\ ObsSet(Ev.files) = ModelSet(exists', content', ino')
         /\ obsfiles' = Ev.files /\ UNCHANGED raisedT
On == Mode = "contract"
HoldersO(id) == {i \in DOMAIN obsfiles : id \in SeqToSet(obsfiles[i].ids)}
Expected == (1..nw) \cup {PreId(p) : p \in pre \ preE}
DestOf(id) == IF id > 100 THEN (CHOOSE p \in pre : PreId(p) = id) ELSE dest[id]
CNoLoss == On => \A id \in Expected : Cardinality(HoldersO(id)) = 1
CInRightFile == On => \A id \in Expected : \A i \in HoldersO(id) : obsfiles[i].b = DestOf(id)
CNoStrangers == On => \A i \in DOMAIN obsfiles : SeqToSet(obsfiles[i].ids) \subseteq Expected
CNoRaise == On => ~raisedT
\* every file that was there before the writer started (identified by its inode) is still there, under a name of its own
\* path, and holds nothing the writer wrote
CNeverOverwrites == On => \A p \in pre : \E i \in DOMAIN obsfiles : /\ obsfiles[i].ino = PreId(p) /\ obsfiles[i].b = p
                                                                    /\ \A k \in DOMAIN obsfiles[i].ids : obsfiles[i].ids[k] > 100
AllOK == CNoLoss /\ CInRightFile /\ CNoStrangers /\ CNoRaise /\ CNeverOverwrites
TNext == /\ l <= Len(Traces[tid]) /\ AllOK
         /\ IF On THEN StepC ELSE StepD
         /\ l' = l + 1 /\ UNCHANGED tid
TSpec == TInit /\ [][TNext]_tvars
NotStuck == (~On /\ l <= Len(Traces[tid])) => ENABLED TNext
=============================================================================
