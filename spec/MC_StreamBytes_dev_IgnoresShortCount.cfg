SPECIFICATION Spec
CONSTANTS
  MaxFrames = 4
  LenSize = 2
  BodySizes = {1, 2}
  HdrBody = 2
  DescIds = {1, 2}
  MaxTransient = 1
  Dev = {"IgnoresShortCount"}
INVARIANT IntactPrefix
INVARIANT CompleteReadsAll
INVARIANT TypeOK
CHECK_DEADLOCK FALSE
