SPECIFICATION TSpec
CONSTANT Dev = {}
INVARIANT Contract
CHECK_DEADLOCK FALSE
