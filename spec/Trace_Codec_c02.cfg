SPECIFICATION TSpec
CONSTANT Dev = {}
INVARIANT FormatC02
INVARIANT FrameShape
CHECK_DEADLOCK FALSE
