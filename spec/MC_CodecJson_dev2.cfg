SPECIFICATION Spec
CONSTANT Dev = {"BytesListNotDecoded"}
INVARIANT RoundTrip
CHECK_DEADLOCK FALSE
