---------------------------- MODULE Trace_Avro ----------------------------
(* Conformance of the Avro adapter with CodecAvro (C19).  One case = one write history on a real AvroWriter
   (a few good records around ONE probe record of type T / class c, or a probe of another descriptor) and what
   the library's reader and a standard Avro reader found in the file afterwards. *)
EXTENDS CodecAvro, Json, IOUtils
Cases == JsonDeserialize(IOEnv.TRACE_FILE)
VARIABLE cid
TInit == cid \in 1..Len(Cases) /\ ty = "varint" /\ cl = "none" /\ second = "none" /\ nth = 1
TNext == UNCHANGED <<cid, ty, cl, second, nth>>
TSpec == TInit /\ [][TNext]_<<cid, ty, cl, second, nth>>
C == Cases[cid]
Contract ==
   /\ C.outcome \in (IF C.probe = "value" THEN Allowed(C.T, C.c)
                      ELSE IF C.probe = "after-refused-first" THEN {"refused", "own-schema"}    \* nothing was written yet: refused as well, or written under their own schema
                      ELSE IF C.probe = "grouped" THEN {"refused", "same"}                \* a grouped record: refused, or all its fields with their values
                      ELSE IF C.probe = "fieldless" THEN {"same"}                         \* a type without own fields: every record (its reserved fields) comes back
                      ELSE IF C.probe = "stdout" THEN {"same"}                            \* the container written to standard output: one header, every record
                      ELSE {"refused"})                                                  \* never a different value
   /\ (C.outcome = "refused" => ~C.probe_in_file)                                       \* a refused record is not in the file
   /\ C.good_records_intact                                                             \* the records around it are all there, unchanged
   /\ C.std_reader_opens                                                                \* a standard Avro reader can open the container
   /\ (C.outcome # "refused" => C.descriptor_carried)                                   \* name and full field list come back
=============================================================================
