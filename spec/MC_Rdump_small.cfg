SPECIFICATION Spec
CONSTANT Small = TRUE
INVARIANT Identity
INVARIANT CountBound
INVARIANT Isolation
INVARIANT SliceOfFiltered
INVARIANT ProjectionKeepsRecords
INVARIANT SplitOK
CHECK_DEADLOCK FALSE
