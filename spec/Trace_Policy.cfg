SPECIFICATION TSpec
CONSTANT Dev = {}
INVARIANT Contract
INVARIANT Design
CHECK_DEADLOCK FALSE
