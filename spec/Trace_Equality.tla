---------------------------- MODULE Trace_Equality ----------------------------
(* Conformance of record equality / hashing and of the ignored-fields scope with Record and Ignore (C12).
   Two kinds of trace in one file:
     kind = "eq":    one pair of real records (a, b) projected to [name, type, value id] lists -- equal value
                     ids mean equal field values -- the ignored-field set in force, and what ==, !=, hash and
                     set/dict membership did;
     kind = "scope": a sequence of set / enter / exit-ok / exit-error operations on the ignored-fields
                     configuration with the configuration observed after each.                      *)
EXTENDS Record, Json, IOUtils
Traces == JsonDeserialize(IOEnv.TRACE_FILE)
VARIABLES tid, l, ignored, stack
vars == <<tid, l, ignored, stack>>
T == Traces[tid]
ToSet(q) == {q[i] : i \in DOMAIN q}
Init == tid \in 1..Len(Traces) /\ l = 1 /\ stack = <<>>
        /\ ignored = IF Traces[tid].kind = "scope" THEN ToSet(Traces[tid].init) ELSE {}
Ev == T.ops[l]
Step == /\ T.kind = "scope" /\ l <= Len(T.ops)
        /\ CASE Ev.op = "set"   -> stack' = stack
             [] Ev.op = "enter" -> stack' = Append(stack, ignored)
             [] OTHER           -> stack' = SubSeq(stack, 1, Len(stack) - 1)
        /\ ignored' = ToSet(Ev.after)            \* adopt the observation
        /\ l' = l + 1 /\ UNCHANGED tid
Spec == Init /\ [][Step]_vars
\* ---- scope contract (action property on the observed behaviour) ----
ScopeRestores == [][(Len(stack') < Len(stack)) => ignored' = stack[Len(stack)]]_vars
SetTakesEffect == [][(T.kind = "scope" /\ l <= Len(T.ops) /\ T.ops[l].op \in {"set", "enter"}) => ignored' = ToSet(T.ops[l].arg)]_vars
\* ---- equality contract ----
ExpectedEq == EqN(T.na, T.a, T.nb, T.b, ToSet(T.ign))
EqContract == T.kind = "eq" =>
   /\ ~T.raised                                             \* never raises, every record is hashable
   /\ T.eq_ab = ExpectedEq /\ T.eq_ba = ExpectedEq          \* equal exactly when ...; symmetric
   /\ T.ne_ab = ~ExpectedEq
   /\ T.eq_aa /\ T.eq_bb                                    \* reflexive
   /\ (ExpectedEq => T.hash_equal)                          \* equal records have equal hashes
   /\ (ExpectedEq => T.in_set)                              \* ... and find each other in sets / dicts
\* a record and something that is not a record: unequal both ways round, and asking is never an error
ForeignContract == T.kind = "foreign" => (~T.raised /\ ~T.eq_ab /\ ~T.eq_ba /\ T.ne_ab)
=============================================================================
