---------------------------- MODULE MC_Record ----------------------------
(* Model-level exploration of Record's composition operators: lemmas of C15 over field names
   {a, b, ts, ts_description} x types {datetime, string, varint} x lists of <= 3 records of <= 2 fields. *)
EXTENDS Record
FNames == {"a", "b", "ts", "ts_description"}
Types == {"datetime", "string", "varint"}
\* record k with ordered distinct names; value id encodes (record, field)
Fld(k, n, t) == [n |-> n, t |-> t, v |-> "r" \o ToString(k) \o "." \o n]
RecsOf(k) == {<<>>} \cup {<<Fld(k, n, t)>> : n \in FNames, t \in Types}
               \cup {<<Fld(k, n1, t1), Fld(k, n2, t2)>> : n1 \in FNames, n2 \in FNames \ {"b"}, t1 \in Types, t2 \in {"datetime", "string"}}
VARIABLES r1, r2, r3, rep
vars == <<r1, r2, r3, rep>>
Distinct(r) == \A i, j \in DOMAIN r : i # j => r[i].n # r[j].n
Init == /\ r1 \in {r \in RecsOf(1) : Distinct(r) /\ r # <<>>} /\ r2 \in {r \in RecsOf(2) : Distinct(r)}
        /\ r3 \in {<<>>, <<Fld(3, "a", "varint")>>, <<Fld(3, "ts", "datetime"), Fld(3, "b", "string")>>} /\ rep \in BOOLEAN
Next == UNCHANGED vars
Spec == Init /\ [][Next]_vars
RS == <<r1, r2, r3>>
M == Merge(RS, rep)
\* every field of the first record, in order, comes first
FirstKept == \A i \in DOMAIN r1 : M[i].n = r1[i].n /\ (~rep => M[i] = r1[i])
\* no field is lost, none is invented, none appears twice
NamesExact == Names(M) = Names(r1) \cup Names(r2) \cup Names(r3) /\ Distinct(M)
\* value and type come together from one record: the first (last with replace) that has the field
FromOneRecord == \A i \in DOMAIN M : \E k \in 1..3 : Has(RS[k], M[i].n) /\ Get(RS[k], M[i].n) = M[i]
                   /\ (IF rep THEN \A j \in (k + 1)..3 : ~Has(RS[j], M[i].n) ELSE \A j \in 1..(k - 1) : ~Has(RS[j], M[i].n))
\* timestamp expansion: one record per datetime field; ts = that field's value; original fields kept
TsOK == LET ex == TsExpand(r1) dts == DtIdx(r1) IN
          /\ Len(ex) = IF dts = <<>> THEN 1 ELSE Len(dts)
          /\ \A k \in DOMAIN dts : /\ Get(ex[k], "ts").v = r1[dts[k]].v
                                   /\ Get(ex[k], "ts_description").v = Desc(r1[dts[k]].n)
                                   /\ \A i \in DOMAIN r1 : r1[i].n \notin {"ts", "ts_description"} => Has(ex[k], r1[i].n) /\ Get(ex[k], r1[i].n) = r1[i]
=============================================================================
