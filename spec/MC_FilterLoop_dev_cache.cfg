SPECIFICATION Spec
CONSTANTS
  MaxLen = 4
  Dev = {"RejectCachePerType"}
INVARIANT OutIsFilter
CHECK_DEADLOCK FALSE
