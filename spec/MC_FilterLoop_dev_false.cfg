SPECIFICATION Spec
CONSTANTS
  MaxLen = 4
  Dev = {"SkipOnlyOnFalse"}
INVARIANT OutIsFilter
CHECK_DEADLOCK FALSE
