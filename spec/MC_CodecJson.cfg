SPECIFICATION Spec
CONSTANT Dev = {}
INVARIANT RoundTrip
CHECK_DEADLOCK FALSE
