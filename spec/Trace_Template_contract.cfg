SPECIFICATION TSpec
CONSTANTS
  Paths = {"p", "q"}
  MaxOps = 12
  MaxClock = 12
  Dev = {}
  Mode = "contract"
INVARIANT NotStuck
INVARIANT CNoLoss
INVARIANT CInRightFile
INVARIANT CNoStrangers
INVARIANT CNoRaise
INVARIANT CNeverOverwrites
CHECK_DEADLOCK FALSE
