---------------------------- MODULE TextWriters ----------------------------
(* Layer 5 (text-oriented writers).  Anchors: flow/record/adapter/csvfile.py CsvfileWriter.write (header row when the
   descriptor changes), adapter/line.py LineWriter.write (numbered blocks), adapter/text.py TextWriter.write
   (repr or format template), flow/record/base.py Record._asdict (field selection).

   A history is a sequence of records [d |-> descriptor id, id |-> record id]; Fields(d) is the descriptor's ordered
   field list INCLUDING the reserved fields; Select(d, opts) applies fields / exclude.
   CSV:  for every run of records of one descriptor a header row of the selected field names, then one row per record.
   line: one numbered block per record, one line per selected field, in order.
   text: one item per record.
   Dev: "NoHeaderOnChange" (header only before the first record), "CountFromZero". *)
EXTENDS Naturals, Sequences, FiniteSets, TLC
CONSTANTS MaxLen, Dev
Descs == {"A", "A2", "B"}                      \* A and A2 share a type name
Reserved == <<"_source", "_classification", "_generated", "_version">>
Fields(d) == (CASE d = "A" -> <<"n", "s">> [] d = "A2" -> <<"n", "x", "s">> [] d = "B" -> <<"n", "other">>) \o Reserved
InSeq(x, q) == \E i \in DOMAIN q : q[i] = x
Select(d, opts) == IF opts.fields # <<>> THEN SelectSeq(opts.fields, LAMBDA f : InSeq(f, Fields(d)) /\ ~InSeq(f, opts.excl))
                   ELSE SelectSeq(Fields(d), LAMBDA f : ~InSeq(f, opts.excl))
Hdr(d, opts) == [k |-> "HDR", cols |-> Select(d, opts)]
Row(r, opts) == [k |-> "ROW", id |-> r.id, n |-> Len(Select(r.d, opts))]
RECURSIVE CsvOut(_, _, _)
CsvOut(h, cur, opts) == IF h = <<>> THEN <<>>
                        ELSE LET r == Head(h)
                                 newhdr == IF "NoHeaderOnChange" \in Dev THEN cur = "none" ELSE cur # r.d
                             IN (IF newhdr THEN <<Hdr(r.d, opts)>> ELSE <<>>) \o <<Row(r, opts)>> \o CsvOut(Tail(h), r.d, opts)
LineOut(h, opts) == [i \in DOMAIN h |-> [k |-> "BLOCK", no |-> (IF "CountFromZero" \in Dev THEN i - 1 ELSE i), id |-> h[i].id, names |-> Select(h[i].d, opts)]]
TextOut(h) == [i \in DOMAIN h |-> [k |-> "TEXT", id |-> h[i].id]]
\* ---------------- model-level exploration: all descriptor sequences up to MaxLen ----------------
VARIABLES hist, opts
vars == <<hist, opts>>
Histories(n) == UNION {[1..k -> Descs] : k \in 0..n}
Opts == {[fields |-> <<>>, excl |-> <<>>], [fields |-> <<"s", "n">>, excl |-> <<>>], [fields |-> <<>>, excl |-> <<"_generated", "s">>], [fields |-> <<"other", "n", "bogus">>, excl |-> <<"s">>],
         [fields |-> <<"s", "n", "other">>, excl |-> <<"s", "bogus">>],            \* a requested field that is also excluded
         [fields |-> <<"other">>, excl |-> <<>>],
         [fields |-> <<"s", "n">>, excl |-> <<"n", "s", "other">>]}            \* every requested field is also excluded                                  \* a selection that leaves some record types without any field
Init == \E ds \in Histories(MaxLen) : hist = [i \in DOMAIN ds |-> [d |-> ds[i], id |-> i]] /\ opts \in Opts
Next == UNCHANGED vars
Spec == Init /\ [][Next]_vars
Out == CsvOut(hist, "none", opts)
Rows == SelectSeq(Out, LAMBDA x : x.k = "ROW")
\* one row per record, in order
RowPerRecord == [i \in DOMAIN Rows |-> Rows[i].id] = [i \in DOMAIN hist |-> hist[i].id]
\* a header row exactly in front of every run of records of one descriptor; its columns are that descriptor's selection
HeaderPerRun == \A i \in DOMAIN Out : Out[i].k = "ROW" =>
                   LET j == CHOOSE j \in 1..i : Out[j].k = "HDR" /\ \A m \in (j + 1)..i : Out[m].k = "ROW" IN
                   /\ Out[j].cols = Select(hist[Out[i].id].d, opts)
                   /\ \A m \in (j + 1)..i : hist[Out[m].id].d = hist[Out[i].id].d
BlockNumbering == \A i \in DOMAIN hist : LineOut(hist, opts)[i].no = i
=============================================================================
