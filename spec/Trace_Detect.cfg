SPECIFICATION Spec
INVARIANT Contract
INVARIANT Design
CHECK_DEADLOCK FALSE
