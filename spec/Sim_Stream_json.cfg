SPECIFICATION MCSpec
CONSTANTS
  Writers = {"w1", "w2"}
  MaxOps = 10
  Dev = {}
  Packer = "json"
  AllowSelfColliding = FALSE
INVARIANT DefBeforeUse
INVARIANT HeaderFirst
INVARIANT RecPerWrite
INVARIANT PerStream
CHECK_DEADLOCK FALSE
