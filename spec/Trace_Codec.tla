---------------------------- MODULE Trace_Codec ----------------------------
(* Conformance of the real binary codec with Codec (C01, C02).  Two kinds of case:
     kind = "value":  one field value of type T (scalar, or a typed list of element classes) written in a record
                      through the real writer; logged: the token-family tree found on the wire by the
                      independent tokenizer, the class of the value read back, whether the deep observation of the
                      record read back is identical to the one written, whether the independent reference decoder
                      recovers the same value, whether the identifier hash on the wire equals the recomputed one;
     kind = "stream": one generated record sequence (several descriptors, nested, grouped): the family tree of
                      every frame, counts, order and identity flags -- through the low-level and the path-based
                      writer/reader, and the reference-ENCODED variant read by the implementation.      *)
EXTENDS Codec, Json, IOUtils
Cases == JsonDeserialize(IOEnv.TRACE_FILE)
VARIABLE cid
TInit == cid \in 1..Len(Cases) /\ ty = "varint" /\ cl = "none"
TNext == UNCHANGED <<cid, ty, cl>>
TSpec == TInit /\ [][TNext]_<<cid, ty, cl>>
C == Cases[cid]
ExpTree == IF C.islist THEN EncList(C.T, C.cs) ELSE Enc(C.T, C.cs[1])
\* C01: identity of what is read back
RoundTripC01 == /\ C.kind = "value" => (C.identical /\ C.out = C.cs)
                /\ C.kind = "stream" => (C.n_read = C.n_written /\ C.order_ok /\ C.all_identical)
\* C02: the bytes are an instance of the frozen format, and the reference codec agrees in both directions
TreeOK == IF C.islist THEN ConformsList(C.T, C.cs, C.tree) ELSE Conforms(C.T, C.cs[1], C.tree)
FormatC02 == /\ (C.kind = "value" /\ C.modelled) => (TreeOK /\ C.frame_is_record /\ C.hash_ok /\ C.ref_decode_ok /\ C.impl_decodes_ref_ok)
             /\ C.kind = "stream" => (StreamOK(C.frames) /\ C.hash_ok /\ C.ref_decode_ok)
FrameShape == C.kind = "value" => IsRecordFrame(C.frame)
=============================================================================
