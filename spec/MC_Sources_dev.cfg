SPECIFICATION Spec
CONSTANTS
  Readers = {"a", "b", "c"}
  N = 3
  Dev = {"SharedContext"}
INVARIANT Independent
CHECK_DEADLOCK FALSE
