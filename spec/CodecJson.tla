---------------------------- MODULE CodecJson ----------------------------
(* Layer 3 (JSON part): the JSON-lines output format.  Anchors: flow/record/jsonpacker.py JsonRecordPacker.pack_obj /
   unpack_obj / pack / unpack; flow/record/adapter/jsonfile.py JsonfileWriter (descriptors on/off, indent),
   JsonfileReader (typed lines and the plain-lines fallback).

   Per supported field type and value class: the JSON shape written (null, string, number, bool, object with the
   three hash keys, array of element shapes; bytes travel as base64 TEXT) and the class read back.
   A file is a sequence of documents: with descriptors enabled every record document carries the markers _type and
   _recorddescriptor and is preceded (once per descriptor) by a descriptor document; with descriptors disabled
   there are no markers and no descriptor documents.
   Dev: "BytesNoneFails" (a bytes field that is None cannot be read), "BytesListNotDecoded" (bytes[] elements stay
        base64 text). *)
EXTENDS Naturals, Sequences, FiniteSets, TLC
CONSTANTS Dev
TextTypes == {"string", "wstring", "uri", "net.ipaddress", "net.ipnetwork", "net.IPAddress", "net.IPNetwork", "path", "datetime"}   \* written as JSON text
NumTypes == {"varint", "filesize", "unix_file_mode", "uint16", "uint32", "net.tcp.Port", "net.udp.Port", "float"}
Types == TextTypes \cup NumTypes \cup {"boolean", "bytes", "digest"}
Shape(T, isNone) == IF isNone /\ T # "digest" THEN "null"
                    ELSE CASE T \in TextTypes -> "string" [] T \in NumTypes -> "number" [] T = "boolean" -> "bool"
                           [] T = "bytes" -> "string"                 \* base64
                           [] T = "digest" -> "object"               \* an unset digest is the empty default: {"md5": null, ...}
\* does the reader turn the JSON value back into a value of the field type?
ReadsBack(T, isNone, islist) ==
   IF T = "bytes" /\ isNone /\ ~islist /\ "BytesNoneFails" \in Dev THEN FALSE
   ELSE IF T = "bytes" /\ islist /\ ~isNone /\ "BytesListNotDecoded" \in Dev THEN FALSE
   ELSE TRUE
VARIABLES ty, none, lst, descs
vars == <<ty, none, lst, descs>>
Init == ty \in Types /\ none \in BOOLEAN /\ lst \in BOOLEAN /\ descs \in BOOLEAN
Next == UNCHANGED vars
Spec == Init /\ [][Next]_vars
RoundTrip == descs => ReadsBack(ty, none, lst)
\* plain JSON lines (no descriptors): every line is typed on its own by the JSON value of each key -- text is a string
\* field, an integral number a varint, a number with a fraction a float, true / false a boolean; everything else (null,
\* arrays, objects) is read as a string field
PlainFieldType(shape) == CASE shape = "string" -> "string" [] shape = "int" -> "varint" [] shape = "float" -> "float" [] shape = "bool" -> "boolean" [] OTHER -> "string"
\* keys of a record document: the fields, the four reserved ones, and the two markers exactly when descriptors are on
Keys(fields, withDescs) == fields \cup {"_source", "_classification", "_generated", "_version"} \cup (IF withDescs THEN {"_type", "_recorddescriptor"} ELSE {})
=============================================================================
