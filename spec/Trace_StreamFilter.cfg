SPECIFICATION Spec
INVARIANT FilterOK
INVARIANT NoneDefined
CHECK_DEADLOCK FALSE
