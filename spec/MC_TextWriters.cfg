SPECIFICATION Spec
CONSTANTS
  MaxLen = 5
  Dev = {}
INVARIANT RowPerRecord
INVARIANT HeaderPerRun
INVARIANT BlockNumbering
CHECK_DEADLOCK FALSE
