---------------------------- MODULE FilterLoop ----------------------------
(* Layer 6: the per-reader filter loop and the selector object it re-uses for every record.
   Anchors: flow/record/stream.py RecordStreamReader.__iter__; adapter/{jsonfile,avro,csvfile,sqlite}.py
   __iter__; flow/record/selector.py Selector.match (cached RecordContextMatcher), RecordContextMatcher.matches
   (namespace rebuilt per record), CompiledSelector.match, make_selector.

   A source is a sequence of records; a record is (id, shape) where shape decides the meaning of each
   selector.  The reader takes records one at a time and yields those the selector matches.  The selector
   object carries state across records (the cached matcher and its namespace `ns`); the intended design
   rebuilds the namespace for every record so that the result is a function of (selector, record) only.

   Dev: "NamespaceNotReset" -- leftovers of the previous match (generator variables, the `fields` helper, the
        typed matcher) survive into the next one; "AdapterIgnoresSelector" -- a reader that yields everything;
        "SkipOnlyOnFalse" -- a reader that skips a record only when the result IS False (a selector may evaluate
        to any value: 0, "", None, [] are falsy without being False);
        "RejectCachePerType" -- the matcher remembers record TYPES on which the selector did not match and
        rejects later records of such a type unseen. *)
EXTENDS Naturals, Sequences, FiniteSets, TLC
CONSTANTS MaxLen, Dev

Shapes == {"a1", "a2", "b"}            \* two records of one type, one of another type (lacks a field)
TypeOf(sh) == IF sh = "b" THEN "B" ELSE "A"
\* a comparison; an any(...) generator; a typed matcher / fields() user; a bare value (r.s, r.n % 2, lower(r.s));
\* a comparison on a field one type lacks OR a helper that looks at values
Sels == {"plain", "gen", "typed", "value", "mixed"}
\* what the expression evaluates to: "T" / "F" (the booleans) or a "truthy" / "falsy" non-boolean value
Result(s, sh) == CASE s = "plain" -> IF sh \in {"a1"} THEN "T" ELSE "F"
                   [] s = "gen"   -> IF sh \in {"a1", "a2"} THEN "T" ELSE "F"
                   [] s = "typed" -> IF sh \in {"a2", "b"} THEN "T" ELSE "F"
                   [] s = "value" -> IF sh = "a1" THEN "truthy" ELSE "falsy"
                   [] s = "mixed" -> IF sh \in {"a2"} THEN "T" ELSE "F"
\* Python meaning of each selector on each shape: the truth value of the result
Meaning(s, sh) == Result(s, sh) \in {"T", "truthy"}
\* what the as-built matcher computes when its namespace still holds leftovers from a record of shape `prev`
Stale(s, sh, prev) == CASE s = "gen"   -> IF prev # "none" THEN "raise" ELSE IF Meaning(s, sh) THEN "yes" ELSE "no"   \* "overwrites existing variable"
                        [] s = "typed" -> IF prev # "none" THEN (IF Meaning(s, prev) THEN "yes" ELSE "no") ELSE IF Meaning(s, sh) THEN "yes" ELSE "no"
                        [] OTHER -> IF Meaning(s, sh) THEN "yes" ELSE "no"

VARIABLES src, sel, pos, out, prev, failed, rejected
vars == <<src, sel, pos, out, prev, failed, rejected>>
Seqs(n) == UNION {[1..k -> Shapes] : k \in 0..n}
Init == src \in Seqs(MaxLen) /\ sel \in Sels /\ pos = 0 /\ out = <<>> /\ prev = "none" /\ failed = FALSE /\ rejected = {}
Step == /\ pos < Len(src) /\ ~failed
        /\ LET sh == src[pos + 1]
               res == IF "AdapterIgnoresSelector" \in Dev THEN "yes"
                      ELSE IF "SkipOnlyOnFalse" \in Dev THEN (IF Result(sel, sh) = "F" THEN "no" ELSE "yes")
                      ELSE IF "RejectCachePerType" \in Dev /\ TypeOf(sh) \in rejected THEN "no"
                      ELSE IF "NamespaceNotReset" \in Dev THEN Stale(sel, sh, prev)
                      ELSE IF Meaning(sel, sh) THEN "yes" ELSE "no"
           IN /\ out' = IF res = "yes" THEN Append(out, pos + 1) ELSE out
              /\ failed' = (res = "raise")
              /\ prev' = sh
              /\ rejected' = IF res = "no" THEN rejected \cup {TypeOf(sh)} ELSE rejected
        /\ pos' = pos + 1 /\ UNCHANGED <<src, sel>>
Next == Step
Spec == Init /\ [][Next]_vars
\* ---------------- C10 ----------------
\* iterating with the selector yields exactly the records that iterating without it and testing afterwards keeps
Kept(n) == SelectSeq([i \in 1..n |-> i], LAMBDA i : Meaning(sel, src[i]))
OutIsFilter == ~failed /\ out = Kept(pos)
=============================================================================
