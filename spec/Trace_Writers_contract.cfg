SPECIFICATION TSpec
CONSTANTS
  Kinds = {"stream", "streamgz", "json", "avro", "sqlite", "csv", "line", "text"}
  MaxOps = 100000
  Dev = {}
  Mode = "contract"
INVARIANT NotStuck
INVARIANT CDurable
INVARIANT CNoRaise
CHECK_DEADLOCK FALSE
