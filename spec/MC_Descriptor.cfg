SPECIFICATION Spec
CONSTANT MaxLen = 5
INVARIANT FieldInclusion
INVARIANT TypeInclusion
INVARIANT FieldComplete
INVARIANT SlipIsOnlyNewline
CHECK_DEADLOCK FALSE
