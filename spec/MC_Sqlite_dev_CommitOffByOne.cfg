SPECIFICATION Spec
CONSTANTS
  MaxOps = 4
  Batches = {1, 2, 3, 4}
  MaxSess = 2
  Descs <- McDescs
  Dev = {"CommitOffByOne"}
INVARIANT VisiblePrefix
INVARIANT AtBoundary
INVARIANT ClosedCommitted
INVARIANT OneColumnPerField
INVARIANT VisibleSchemaOK
PROPERTY VisChangesOnlyAtBoundary
PROPERTY ColumnsOnlyGrow
CHECK_DEADLOCK FALSE
