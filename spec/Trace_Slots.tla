---------------------------- MODULE Trace_Slots ----------------------------
(* Conformance of real records with Slots (C05).  One trace = one history of construct / assign / replace-style
   copy operations on ONE field of a real record, each offering a candidate value whose acceptance class
   ("accept" / "reject" / "unspec") comes from the acceptance table; after each operation the driver logs
   whether it raised, whether the slot is unset / typed / foreign, and whether the record's deep observation
   changed.  At the end the record is serialised (binary and JSON) and decoded again. *)
EXTENDS Naturals, Sequences, FiniteSets, TLC, Json, IOUtils
Traces == JsonDeserialize(IOEnv.TRACE_FILE)
VARIABLES tid, l, slot, lastFailed, changed, fin
vars == <<tid, l, slot, lastFailed, changed, fin>>
T == Traces[tid]
NoFin == [done |-> FALSE]
Init == tid \in 1..Len(Traces) /\ l = 1 /\ slot = "unset" /\ lastFailed = FALSE /\ changed = FALSE /\ fin = NoFin
Ev == T.ops[l]
Step == /\ l <= Len(T.ops)
        /\ slot' = Ev.slot /\ lastFailed' = Ev.raised /\ changed' = Ev.changed
        /\ fin' = IF l = Len(T.ops) THEN T.fin ELSE fin
        /\ l' = l + 1 /\ UNCHANGED tid
Spec == Init /\ [][Step]_vars
\* the slot always holds None / the empty default or a value of the declared type
SlotsTyped == slot \in {"unset", "typed"}
\* a value the type cannot represent is rejected with an error ...
MustReject == [][(l <= Len(T.ops) /\ T.ops[l].must = "reject") => lastFailed']_vars
\* ... valid input is accepted ...
MustAccept == [][(l <= Len(T.ops) /\ T.ops[l].must = "accept") => ~lastFailed']_vars
\* ... and a rejected value leaves the record unchanged
FailedAssignIsNoOp == lastFailed => ~changed
\* a record built without a value for the field starts with the empty default, whatever was done to other records' defaults
FreshStartsEmpty == [][(l <= Len(T.ops) /\ T.ops[l].op = "fresh") => slot' = "unset"]_vars
\* input that is converted on the way in arrives as the documented value (UTF-8 text with surrogate escapes; the same wall
\* clock at UTC) -- whatever locale or time zone the process runs in
ConvertedAsDocumented == [][(l <= Len(T.ops) /\ T.ops[l].op = "convert") => T.ops[l].conv_ok]_vars
\* a value taken from another record's field is only READ: that record stays as it was, accepted or not
SourceUntouched == [][(l <= Len(T.ops) /\ T.ops[l].op = "assign_from") => ~T.ops[l].src_changed]_vars
\* a record that accepted all its assignments can always be serialised, and decodes to typed slots again
Serialisable == (fin.done /\ fin.all_accepted) => (fin.packed /\ fin.decoded_typed)
=============================================================================
