SPECIFICATION Spec
INVARIANT Contract
CHECK_DEADLOCK FALSE
