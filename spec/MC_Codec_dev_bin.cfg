SPECIFICATION Spec
CONSTANT Dev = {"BinAsStr"}
INVARIANT RoundTrip
INVARIANT BinIsNotStr
CHECK_DEADLOCK FALSE
