---------------------------- MODULE Trace_Detect ----------------------------
(* Conformance of the real RecordReader / RecordWriter with Detect (C11): one case per (codec, container, naming,
   how the file object delivers its bytes) with what happened: records read back identical / refused / something else;
   and, for written files, whether an independent standard decompressor accepted the file. *)
EXTENDS Naturals, Sequences, FiniteSets, TLC, Json, IOUtils
Cases == JsonDeserialize(IOEnv.TRACE_FILE)
VARIABLE cid
Init == cid \in 1..Len(Cases)
Next == UNCHANGED cid
Spec == Init /\ [][Next]_cid
C == Cases[cid]
D == INSTANCE Detect WITH Dev <- {}, codec <- C.codec, container <- C.container, naming <- C.naming, peeklen <- C.peeklen
Contract == /\ C.outcome = D!Promised
            /\ C.outcome # "wrong-records"
            /\ (C.written => C.std_decompress_ok)         \* a standard decompressor of that format accepts the file
\* as built: a file object whose first peek is shorter than the codec magic goes unrecognised
Design == C.outcome = D!Outcome
=============================================================================
