SPECIFICATION Spec
CONSTANTS
  MaxOps = 4
  Dev = {"SharedDefault"}
INVARIANT SlotsTyped
INVARIANT FailedAssignIsNoOp
INVARIANT FreshStartsEmpty
CHECK_DEADLOCK FALSE
