---------------------------- MODULE StreamBytes ----------------------------
(* Layer 4 (byte part): framing of a record stream on disk, write faults, truncation, and the reader's
   micro-steps.  Anchors: flow/record/stream.py RecordStreamWriter.{write,writeheader},
   RecordStreamReader.{readheader,read,__iter__}.

   A frame is a length part (LenSize abstract bytes; 4 in reality) followed by a body.  The writer hands
   each part to fp.write in its own call; a call either completes, or puts j < size bytes on disk and the
   writer is dead from then on (failing / short write, crash).  Hence the disk always holds a PREFIX of the
   byte stream of the frames begun so far, and every prefix is reachable -- cutting a finished file at byte
   n is the same disk state.

   The reader is modelled twice:
     Contract  what C04 pins: the records yielded are exactly the REC frames entirely on disk (in order,
               unmodified -- identity is checked on the real bytes by the conformance driver), and a stream
               that stops exactly at a frame boundary after the header ends cleanly.  Where the property is
               silent (inside the header, inside a length, inside a body) "end" and "raise" are both allowed.
     Design    what RecordStreamReader does today: short header -> raise; fewer than LenSize length bytes ->
               end; short body -> raise (msgpack cannot unpack a truncated value).
   TLC proves Design => Contract for every reachable disk.  Dev switches exist for sensitivity runs only.

   Transient failures: a write call may also fail BEFORE any byte reaches the disk (EINTR, a full disk that is
   freed again ...) while the application catches the error and carries on.  When that call is the length part
   of a frame, the whole frame is absent from the disk and the stream stays well formed (action Transient; the
   frame is kept in `layout` with lost = TRUE).  A lost DESCRIPTOR frame is never re-sent -- the packer has
   already registered it -- so later records of that type are complete on disk but cannot be decoded; a lost
   header makes nothing readable.  Frames carry the descriptor ids they define (DESC) or need (REC):
   the contract then says such a record is never yielded (it would be decoded with some OTHER descriptor =
   an altered record) and the reader raises instead of ending silently.

   Short writes while the writer lives on: a raw file object may accept only j < size bytes of a call and say so.  The
   writer hands the rest over in further calls until the part is complete (one Begin / Body step here covers all of
   them).  Dev "IgnoresShortCount" (as built before the repair): the count is ignored and the writer goes on with the
   next part, leaving a HOLE -- every later frame is misaligned and the reader decodes whatever bytes happen to
   line up (`holes`; DesignRead then says "garbage"). *)

EXTENDS Naturals, Sequences, FiniteSets, TLC

CONSTANTS MaxFrames, LenSize, BodySizes, HdrBody, Dev, DescIds, MaxTransient

Kinds == {"DESC", "REC"}

VARIABLES layout,   \* frames whose write has begun, in order: [k |-> kind, len |-> body size, ids |-> descriptor ids defined / needed, lost |-> BOOLEAN]
          disk,     \* number of bytes on disk
          pc,       \* "idle" | "len"  (length part of the last frame written, body still to come)
          dead,     \* a write call failed: the writer never writes again
          holes     \* a short count was ignored: the bytes on disk are no longer a prefix of the frame sequence
vars == <<layout, disk, pc, dead, holes>>

Init == layout = <<>> /\ disk = 0 /\ pc = "idle" /\ dead = FALSE /\ holes = FALSE

\* descriptor ids whose DESC frame has been begun (whether or not it reached the disk): the packer considers them sent
Sent == UNION {layout[i].ids : i \in {j \in DOMAIN layout : layout[j].k = "DESC"}}
NLost == Cardinality({i \in DOMAIN layout : layout[i].lost})
\* which frames the writer may begin next: the header first; a descriptor at most once; a record only after the
\* descriptors it needs have been sent (C03)
MayBegin(k, ids) == /\ (layout = <<>>) = (k = "HDR")
                    /\ k = "HDR" => ids = {}
                    /\ k = "DESC" => Cardinality(ids) = 1 /\ ids \cap Sent = {}
                    /\ k = "REC" => ids # {} /\ ids \subseteq Sent

\* the first frame of a stream is always the header (writeheader() runs before anything else is written)
Begin(k, n, ids) ==
               /\ pc = "idle" /\ ~dead /\ Len(layout) < MaxFrames + 1
               /\ MayBegin(k, ids)
               /\ layout' = Append(layout, [k |-> k, len |-> n, ids |-> ids, lost |-> FALSE, hole |-> FALSE])
               /\ \/ disk' = disk + LenSize /\ pc' = "len" /\ UNCHANGED <<dead, holes>>          \* fp.write(length) ok (possibly in several short calls)
                  \/ \E j \in 0..(LenSize - 1) : disk' = disk + j /\ dead' = TRUE /\ UNCHANGED <<pc, holes>>   \* fails after j bytes
                  \/ "IgnoresShortCount" \in Dev /\ \E j \in 0..(LenSize - 1) : disk' = disk + j /\ pc' = "len" /\ holes' = TRUE /\ UNCHANGED dead
Body ==        /\ pc = "len" /\ ~dead
               /\ LET n == layout[Len(layout)].len IN
                  \/ disk' = disk + n /\ pc' = "idle" /\ UNCHANGED <<dead, holes>>               \* fp.write(body) ok (possibly in several short calls)
                  \/ \E j \in 0..(n - 1) : disk' = disk + j /\ dead' = TRUE /\ UNCHANGED <<pc, holes>>
                  \/ "IgnoresShortCount" \in Dev /\ \E j \in 0..(n - 1) : disk' = disk + j /\ pc' = "idle" /\ holes' = TRUE /\ UNCHANGED dead
               /\ UNCHANGED layout
\* fp.write(length) raises with nothing written and the application carries on: the frame is simply absent
Transient(k, n, ids) ==
               /\ pc = "idle" /\ ~dead /\ Len(layout) < MaxFrames + 1 /\ NLost < MaxTransient
               /\ MayBegin(k, ids)
               /\ layout' = Append(layout, [k |-> k, len |-> n, ids |-> ids, lost |-> TRUE, hole |-> FALSE])
               /\ UNCHANGED <<disk, pc, dead, holes>>
\* fp.write(body) raises with nothing written and the application carries on: the length part is on disk, its body is
\* not, and whatever is written later follows the dangling length -- nothing behind this point can be read
TransientBody ==
               /\ pc = "len" /\ ~dead /\ NLost + Cardinality({i \in DOMAIN layout : layout[i].hole}) < MaxTransient
               /\ layout' = [layout EXCEPT ![Len(layout)].hole = TRUE]
               /\ pc' = "idle" /\ UNCHANGED <<disk, dead, holes>>
Next == \/ \E n \in BodySizes, ids \in SUBSET DescIds : Begin("DESC", n, ids) \/ Begin("REC", n, ids) \/ Transient("DESC", n, ids) \/ Transient("REC", n, ids)
        \/ Begin("HDR", HdrBody, {}) \/ Transient("HDR", HdrBody, {})
        \/ Body \/ TransientBody
Spec == Init /\ [][Next]_vars

\* ---------------- what is entirely on disk ----------------
HdrLenOf(lay) == LenSize + lay[1].len        \* the header is the first frame
RECURSIVE Walk(_, _, _, _, _)
\* -> [y |-> number of complete, decodable REC frames in front of the first undecodable one,
\*     boundary |-> disk ends exactly at a frame boundary,
\*     blocked |-> a complete REC frame is on disk whose descriptor never reached the disk]
Walk(lay, i, pos, cut, defs) ==
   IF i > Len(lay) THEN [y |-> 0, boundary |-> (pos = cut), blocked |-> FALSE]
   ELSE IF lay[i].lost THEN Walk(lay, i + 1, pos, cut, defs)
   ELSE IF lay[i].hole THEN [y |-> 0, boundary |-> FALSE, blocked |-> (cut > pos + LenSize)]      \* a dangling length: nothing behind it is readable
   ELSE LET end == pos + LenSize + lay[i].len IN
        IF end <= cut
        THEN IF lay[i].k = "REC" /\ ~(lay[i].ids \subseteq defs)
             THEN [y |-> 0, boundary |-> FALSE, blocked |-> TRUE]
             ELSE LET r == Walk(lay, i + 1, end, cut, IF lay[i].k = "DESC" THEN defs \cup lay[i].ids ELSE defs)
                  IN [y |-> r.y + (IF lay[i].k = "REC" THEN 1 ELSE 0), boundary |-> r.boundary, blocked |-> r.blocked]
        ELSE [y |-> 0, boundary |-> (pos = cut), blocked |-> FALSE]
\* complete REC frames on disk when the header is missing (nothing can be read: the reader must not end silently)
RECURSIVE AnyRec(_, _, _, _)
AnyRec(lay, i, pos, cut) == IF i > Len(lay) THEN FALSE
                            ELSE IF lay[i].lost THEN AnyRec(lay, i + 1, pos, cut)
                            ELSE IF lay[i].hole THEN FALSE
                            ELSE LET end == pos + LenSize + lay[i].len IN
                                 end <= cut /\ (lay[i].k = "REC" \/ AnyRec(lay, i + 1, end, cut))
Expected(lay, cut) == IF lay = <<>> THEN [y |-> 0, boundary |-> FALSE, blocked |-> FALSE]
                      ELSE IF lay[1].lost THEN [y |-> 0, boundary |-> FALSE, blocked |-> AnyRec(lay, 2, 0, cut)]
                      ELSE IF lay[1].hole THEN [y |-> 0, boundary |-> FALSE, blocked |-> (cut > LenSize)]
                      ELSE IF cut < HdrLenOf(lay) THEN [y |-> 0, boundary |-> FALSE, blocked |-> FALSE]
                      ELSE Walk(lay, 2, HdrLenOf(lay), cut, {})

\* ---------------- the reader as built ----------------
RECURSIVE DWalk(_, _, _, _, _)
\* -> [y |-> records yielded, how |-> "end" | "raise"]
DWalk(lay, i, pos, cut, defs) ==
   IF i <= Len(lay) /\ lay[i].lost THEN DWalk(lay, i + 1, pos, cut, defs)
   ELSE IF cut - pos < LenSize
   THEN [y |-> 0, how |-> IF "ShortLenRaises" \in Dev /\ cut > pos THEN "raise" ELSE IF "BoundaryRaises" \in Dev THEN "raise" ELSE "end"]
   ELSE IF i > Len(lay) THEN [y |-> 0, how |-> "end"]       \* unreachable: bytes always belong to a begun frame
   ELSE IF lay[i].hole THEN [y |-> 0, how |-> "raise"]      \* the bytes behind a dangling length are not one msgpack value (or too few)
   ELSE IF pos + LenSize + lay[i].len > cut
        THEN (IF "TolerantBody" \in Dev /\ lay[i].k = "REC" THEN [y |-> 1, how |-> "end"] ELSE [y |-> 0, how |-> "raise"])
        ELSE IF lay[i].k = "REC" /\ ~(lay[i].ids \subseteq defs) /\ "LostDescTolerated" \notin Dev
             THEN [y |-> 0, how |-> "raise"]                 \* RecordDescriptorNotFound
        ELSE LET nd == IF lay[i].k = "DESC" THEN defs \cup lay[i].ids ELSE defs
                 r == DWalk(lay, i + 1, pos + LenSize + lay[i].len, cut, nd)
             IN IF "SkipAfterDesc" \in Dev /\ lay[i].k = "DESC" /\ i < Len(lay) /\ ~lay[i + 1].lost /\ ~lay[i + 1].hole /\ pos + LenSize + lay[i].len + LenSize + lay[i + 1].len <= cut
                THEN DWalk(lay, i + 2, pos + LenSize + lay[i].len + LenSize + lay[i + 1].len, cut, nd)
                ELSE [y |-> r.y + (IF lay[i].k = "REC" THEN 1 ELSE 0), how |-> r.how]
DesignRead(lay, cut) == IF lay = <<>> \/ lay[1].lost \/ lay[1].hole \/ cut < HdrLenOf(lay) THEN [y |-> 0, how |-> "raise"] ELSE DWalk(lay, 2, HdrLenOf(lay), cut, {})

\* ---------------- C04 ----------------
ContractOK(lay, cut, y, how) == LET e == Expected(lay, cut) IN
                                  /\ y = e.y
                                  /\ how \in {"end", "raise"}
                                  /\ ((e.boundary /\ ~e.blocked) => how = "end")
                                  /\ (e.blocked => how = "raise")
IntactPrefix == LET r == IF holes THEN [y |-> 0, how |-> "garbage"] ELSE DesignRead(layout, disk) IN ContractOK(layout, disk, r.y, r.how)
\* a writer that was never interrupted leaves a stream that reads completely and cleanly
NHole == Cardinality({i \in DOMAIN layout : layout[i].hole})
CompleteReadsAll == (pc = "idle" /\ ~dead /\ ~holes /\ layout # <<>> /\ NLost = 0 /\ NHole = 0) =>
                      LET r == DesignRead(layout, disk) IN
                        r.how = "end" /\ r.y = Cardinality({i \in DOMAIN layout : layout[i].k = "REC"})
TypeOK == disk \in Nat /\ pc \in {"idle", "len"} /\ dead \in BOOLEAN /\ holes \in BOOLEAN
=============================================================================
