---------------------------- MODULE StreamBytes ----------------------------
(* Layer 4 (byte part): framing of a record stream on disk, write faults, truncation, and the reader's
   micro-steps.  Anchors: flow/record/stream.py RecordStreamWriter.{write,writeheader},
   RecordStreamReader.{readheader,read,__iter__}.

   A frame is a length part (LenSize abstract bytes; 4 in reality) followed by a body.  The writer hands
   each part to fp.write in its own call; a call either completes, or puts j < size bytes on disk and the
   writer is dead from then on (failing / short write, crash).  Hence the disk always holds a PREFIX of the
   byte stream of the frames begun so far, and every prefix is reachable -- cutting a finished file at byte
   n is the same disk state.

   The reader is modelled twice:
     Contract  what C04 pins: the records yielded are exactly the REC frames entirely on disk (in order,
               unmodified -- identity is checked on the real bytes by the conformance driver), and a stream
               that stops exactly at a frame boundary after the header ends cleanly.  Where the property is
               silent (inside the header, inside a length, inside a body) "end" and "raise" are both allowed.
     Design    what RecordStreamReader does today: short header -> raise; fewer than LenSize length bytes ->
               end; short body -> raise (msgpack cannot unpack a truncated value).
   TLC proves Design => Contract for every reachable disk.  Dev switches exist for sensitivity runs only. *)
EXTENDS Naturals, Sequences, FiniteSets, TLC

CONSTANTS MaxFrames, LenSize, BodySizes, HdrBody, Dev

Kinds == {"DESC", "REC"}

VARIABLES layout,   \* frames whose write has begun, in order: [k |-> kind, len |-> body size]
          disk,     \* number of bytes on disk
          pc,       \* "idle" | "len"  (length part of the last frame written, body still to come)
          dead      \* a write call failed: the writer never writes again
vars == <<layout, disk, pc, dead>>

Init == layout = <<>> /\ disk = 0 /\ pc = "idle" /\ dead = FALSE

\* the first frame of a stream is always the header (writeheader() runs before anything else is written)
Begin(k, n) == /\ pc = "idle" /\ ~dead /\ Len(layout) < MaxFrames + 1
               /\ (layout = <<>>) = (k = "HDR")
               /\ layout' = Append(layout, [k |-> k, len |-> n])
               /\ \/ disk' = disk + LenSize /\ pc' = "len" /\ UNCHANGED dead          \* fp.write(length) ok
                  \/ \E j \in 0..(LenSize - 1) : disk' = disk + j /\ dead' = TRUE /\ UNCHANGED pc   \* fails after j bytes
Body ==        /\ pc = "len" /\ ~dead
               /\ LET n == layout[Len(layout)].len IN
                  \/ disk' = disk + n /\ pc' = "idle" /\ UNCHANGED dead               \* fp.write(body) ok
                  \/ \E j \in 0..(n - 1) : disk' = disk + j /\ dead' = TRUE /\ UNCHANGED pc
               /\ UNCHANGED layout
Next == (\E n \in BodySizes : Begin("DESC", n) \/ Begin("REC", n)) \/ Begin("HDR", HdrBody) \/ Body
Spec == Init /\ [][Next]_vars

\* ---------------- what is entirely on disk ----------------
HdrLenOf(lay) == LenSize + lay[1].len        \* the header is the first frame
RECURSIVE Walk(_, _, _, _)
\* -> [y |-> number of complete REC frames, boundary |-> disk ends exactly at a frame boundary]
Walk(lay, i, pos, cut) ==
   IF i > Len(lay) THEN [y |-> 0, boundary |-> (pos = cut)]
   ELSE LET end == pos + LenSize + lay[i].len IN
        IF end <= cut
        THEN LET r == Walk(lay, i + 1, end, cut) IN [y |-> r.y + (IF lay[i].k = "REC" THEN 1 ELSE 0), boundary |-> r.boundary]
        ELSE [y |-> 0, boundary |-> (pos = cut)]
Expected(lay, cut) == IF lay = <<>> \/ cut < HdrLenOf(lay) THEN [y |-> 0, boundary |-> FALSE] ELSE Walk(lay, 2, HdrLenOf(lay), cut)

\* ---------------- the reader as built ----------------
RECURSIVE DWalk(_, _, _, _)
\* -> [y |-> records yielded, how |-> "end" | "raise"]
DWalk(lay, i, pos, cut) ==
   IF cut - pos < LenSize
   THEN [y |-> 0, how |-> IF "ShortLenRaises" \in Dev /\ cut > pos THEN "raise" ELSE IF "BoundaryRaises" \in Dev THEN "raise" ELSE "end"]
   ELSE IF i > Len(lay) THEN [y |-> 0, how |-> "end"]       \* unreachable: bytes always belong to a begun frame
   ELSE IF pos + LenSize + lay[i].len > cut
        THEN (IF "TolerantBody" \in Dev /\ lay[i].k = "REC" THEN [y |-> 1, how |-> "end"] ELSE [y |-> 0, how |-> "raise"])
        ELSE LET r == DWalk(lay, i + 1, pos + LenSize + lay[i].len, cut)
             IN IF "SkipAfterDesc" \in Dev /\ lay[i].k = "DESC" /\ i < Len(lay) /\ pos + LenSize + lay[i].len + LenSize + lay[i + 1].len <= cut
                THEN DWalk(lay, i + 2, pos + LenSize + lay[i].len + LenSize + lay[i + 1].len, cut)
                ELSE [y |-> r.y + (IF lay[i].k = "REC" THEN 1 ELSE 0), how |-> r.how]
DesignRead(lay, cut) == IF lay = <<>> \/ cut < HdrLenOf(lay) THEN [y |-> 0, how |-> "raise"] ELSE DWalk(lay, 2, HdrLenOf(lay), cut)

\* ---------------- C04 ----------------
ContractOK(lay, cut, y, how) == LET e == Expected(lay, cut) IN
                                  /\ y = e.y
                                  /\ how \in {"end", "raise"}
                                  /\ (e.boundary => how = "end")
IntactPrefix == LET r == DesignRead(layout, disk) IN ContractOK(layout, disk, r.y, r.how)
\* a writer that was never interrupted leaves a stream that reads completely and cleanly
CompleteReadsAll == (pc = "idle" /\ ~dead /\ layout # <<>>) =>
                      LET r == DesignRead(layout, disk) IN
                        r.how = "end" /\ r.y = Cardinality({i \in DOMAIN layout : layout[i].k = "REC"})
TypeOK == disk \in Nat /\ pc \in {"idle", "len"} /\ dead \in BOOLEAN
=============================================================================
