---------------------------- MODULE MC_SelectorExprs ----------------------------
(* Model-level exploration of the reference semantics over a bounded expression universe (comparisons, chains,
   boolean operators, arithmetic, helper calls, any/all generators with conditions; depth <= 2):
   the evaluator is total and typed on every (expression, record); chains equal the conjunction of their
   links; De Morgan holds on defined operands.  No implementation is involved here. *)
EXTENDS Selector
a == 97  A == 65  b == 98
Strs == {<<>>, <<a>>, <<A>>, <<a, b>>, <<b>>}
Recs == { [n |-> I(1), s |-> S(<<A, b>>), l |-> Li(<<S(<<a>>), S(<<b>>)>>), z |-> Nn, t |-> Bv(TRUE)],
          [n |-> I(0), s |-> S(<<>>),     l |-> Li(<<>>),                 z |-> Nn, t |-> Bv(FALSE)],
          [n |-> I(100), s |-> S(<<a>>),  l |-> Li(<<S(<<A, b>>)>>),      z |-> Nn, t |-> Bv(TRUE)] }
Cn(v) == [k |-> "const", v |-> v]
Fd(f) == [k |-> "field", f |-> f]
Consts == {Cn(I(0)), Cn(I(1)), Cn(I(2)), Cn(I(3)), Cn(S(<<>>)), Cn(S(<<a>>)), Cn(S(<<b>>)), Cn(S(<<A, b>>)), Cn(Nn), Cn(Bv(TRUE)), Cn(Bv(FALSE))}
Fields == {Fd("n"), Fd("s"), Fd("l"), Fd("z"), Fd("t")}
Atoms == Consts \cup Fields
Lists == {[k |-> "list", es |-> <<x>>] : x \in {Cn(I(1)), Cn(S(<<a>>)), Fd("n"), Fd("s")}} \cup {[k |-> "list", es |-> <<x, y>>] : x \in {Cn(I(1)), Cn(S(<<a>>))}, y \in {Cn(I(100)), Cn(S(<<A, b>>)), Fd("s")}}
CmpOps == {"Eq", "NotEq", "Lt", "LtE", "Gt", "GtE", "In", "NotIn"}
BinOps == {"Add", "Mult", "Mod", "Div", "BitAnd", "BitOr"}
A1 == Atoms \cup Lists
Cmps == {[k |-> "cmp", op |-> o, a |-> x, b |-> y] : o \in CmpOps, x \in Atoms, y \in A1}
Bins == {[k |-> "bin", op |-> o, a |-> x, b |-> y] : o \in BinOps, x \in Atoms, y \in Atoms}
Calls == {[k |-> "call", f |-> f, a |-> x] : f \in {"lower", "upper", "str"}, x \in Atoms}
Chains == {[k |-> "chain", op |-> o, op2 |-> o2, a |-> x, b |-> y, c |-> z] : o \in {"Lt", "LtE", "Eq"}, o2 \in {"Lt", "GtE", "NotEq"}, x \in {Cn(I(0)), Cn(I(1)), Fd("n")}, y \in {Fd("n"), Cn(I(2)), Fd("s")}, z \in {Cn(I(3)), Fd("n"), Cn(S(<<b>>))}}
V == [k |-> "var"]
Gens == {[k |-> "gen", q |-> q, it |-> it, elt |-> [k |-> "cmp", op |-> o, a |-> V, b |-> y], hasif |-> h, cond |-> [k |-> "cmp", op |-> o2, a |-> V, b |-> y2]] :
           q \in {"any", "all"}, it \in {Fd("l"), Fd("s"), Fd("n"), Fd("z")} \cup Lists, o \in {"Eq", "Lt", "In"}, y \in {Cn(S(<<a>>)), Cn(I(1)), Fd("s")},
           h \in BOOLEAN, o2 \in {"NotEq"}, y2 \in {Cn(S(<<a>>)), Cn(I(1))}}
L2cmp == {[k |-> "cmp", op |-> o, a |-> x, b |-> y] : o \in {"Eq", "Lt"}, x \in {z \in Bins : z.a \in Fields /\ z.b \in Consts} \cup Calls, y \in {Cn(I(2)), Fd("s")}}
Bools == {[k |-> "bool", op |-> o, a |-> x, b |-> y] : o \in {"And", "Or"}, x \in {c \in Cmps : c.op \in {"Eq", "Lt"} /\ c.a \in Fields /\ c.b \in Consts}, y \in Atoms \cup {c \in Cmps : c.op \in {"In", "GtE"} /\ c.a \in Fields /\ c.b \in Fields}}
Nots == {[k |-> "not", a |-> x] : x \in Atoms \cup {c \in Cmps : c.b \in Fields}}
Exprs == Cmps \cup Bins \cup Calls \cup Chains \cup Gens \cup L2cmp \cup Nots \cup Bools

VARIABLES e, rec
vars == <<e, rec>>
Init == e \in Exprs /\ rec \in Recs
Next == UNCHANGED vars
Spec == Init /\ [][Next]_vars
Typed == Truth(Ev(e, rec)).t \in {"bool", "err", "unspec"}
ChainIsConjunction == e.k = "chain" =>
   LET p == Ev([k |-> "cmp", op |-> e.op, a |-> e.a, b |-> e.b], rec)
       q == Ev([k |-> "cmp", op |-> e.op2, a |-> e.b, b |-> e.c], rec)
   IN (p.t = "bool" /\ q.t = "bool") => Ev(e, rec) = Bv(p.v /\ q.v)
DeMorgan == e.k = "bool" =>
   LET x == Truth(Ev(e, rec))
       na == [k |-> "not", a |-> e.a]  nb == [k |-> "not", a |-> e.b]
       dual == [k |-> "not", a |-> [k |-> "bool", op |-> (IF e.op = "And" THEN "Or" ELSE "And"), a |-> na, b |-> nb]]
   IN x.t = "bool" => Truth(Ev(dual, rec)) = x
NotInIsNegation == (e.k = "cmp" /\ e.op = "In") =>
   LET x == Ev(e, rec) y == Ev([e EXCEPT !.op = "NotIn"], rec) IN
   (x.t = "bool" /\ ~(Ev(e.a, rec).t = "missing" \/ Ev(e.b, rec).t = "missing")) => y = Bv(~x.v)
=============================================================================
