---------------------------- MODULE Stream ----------------------------
(* Layer 4 (registry part): the record packer's descriptor registry and the order in which frames are
   emitted on a record stream -- binary (msgpack) and JSON-lines -- by any number of writers.

   Anchors: flow/record/packer.py RecordPacker.{register,pack_obj,unpack_obj}, flow/record/jsonpacker.py
   JsonRecordPacker.{register,pack_obj,unpack_obj}, flow/record/stream.py RecordStreamWriter.{write,
   on_new_descriptor,writeheader}, RecordStreamReader.__iter__, adapter/jsonfile.py.

   One action per public call: Write(w, v).  Descriptor frames are emitted re-entrantly from inside pack()
   and therefore land in `out` BEFORE the record frame that needs them; the model emits them in exactly the
   order the code meets them (own descriptor, or for a grouped record all member descriptors first; then
   nested record values depth-first in field order).

   Dev (deviation switches; {} = the intended design, which is also what the code does after the fix):
     "GuardByIdentifier"  the writer asks "is this *identifier* known" instead of "is this *descriptor* known"
                          (the JSON reader's register() has the same early return)
     "SharedRegistry"     all writers share one registry (sensitivity only)
     "NoBareNameKey"      register() does not overwrite the bare-name key (sensitivity only)
*)
EXTENDS Naturals, Sequences, FiniteSets, TLC

CONSTANTS Writers, MaxOps, Dev, Packer        \* Packer \in {"msgpack", "json"}

\* ---------------- descriptor universe (model ids) ----------------
\* A, A2 share a NAME; A, Acol share an IDENTIFIER (name + 32-bit hash); H holds nested records;
\* Z has NO fields (a marker record); U has A's fields and a name that differs from A's only in "/" vs "_"
\* (the record CLASS name of both is the same -- descriptors are told apart by name + fields, never by class name).
\* Dd declares one field name twice (the library accepts that; the definition sent must still be the declared one)
Descs == {"A", "A2", "Acol", "B", "H", "Z", "U", "Dd"}
Ident(d) == CASE d = "A" -> "iA" [] d = "Acol" -> "iA" [] d = "A2" -> "iA2" [] d = "B" -> "iB" [] d = "H" -> "iH" [] d = "Z" -> "iZ" [] d = "U" -> "iU" [] d = "Dd" -> "iD"
Name(d)  == CASE d \in {"A", "A2", "Acol"} -> "nA" [] d = "B" -> "nB" [] d = "H" -> "nH" [] d = "Z" -> "nZ" [] d = "U" -> "nU" [] d = "Dd" -> "nD"
Keys == {Ident(d) : d \in Descs} \cup {Name(d) : d \in Descs}
None == "none"

\* ---------------- record values ----------------
\* plain leaf, holder (only H holds: field r = first kid, field rl = remaining kids), grouped with members
\* `bad` marks a record one of whose OWN values cannot be packed (e.g. text with a lone surrogate): write() raises
\* while packing it -- after the descriptors met so far have already been emitted.
Leaf(d) == [kind |-> "rec", d |-> d, kids |-> <<>>, bad |-> FALSE]
BadLeaf(d) == [kind |-> "rec", d |-> d, kids |-> <<>>, bad |-> TRUE]
Hold(ks) == [kind |-> "rec", d |-> "H", kids |-> ks, bad |-> FALSE]
CoreLeaves == {Leaf(d) : d \in {"A", "A2", "Acol", "B"}}
Leaves == {Leaf(d) : d \in Descs \ {"H"}}
\* binary packer: text with a lone surrogate (A, Acol, B have text fields); JSON packer: an integer too long to be
\* converted to decimal text (A2 has the integer field) -- json.dumps raises after the descriptors met so far went out
BadLeaves == IF Packer = "json" THEN {BadLeaf("A2")} ELSE {BadLeaf(d) : d \in {"A", "Acol", "B"}}
Holders == {Hold(ks) : ks \in {<<>>} \cup {<<a>> : a \in Leaves} \cup {<<a, b>> : a \in CoreLeaves, b \in CoreLeaves}
                                  \cup {<<Leaf("U"), Leaf("A")>>, <<Leaf("A"), Leaf("U")>>, <<Leaf("Z"), Leaf("Z")>>, <<Leaf("Z"), Leaf("B")>>}}
Plain == Leaves \cup Holders
Groups == {[kind |-> "grp", d |-> "G", kids |-> <<a, b>>, bad |-> FALSE] :
              a \in Leaves, b \in {Leaf("B"), Leaf("A2"), Hold(<<Leaf("A2")>>)}}
Recs == IF Packer = "json" THEN Plain ELSE Plain \cup Groups
\* values whose write fails part-way
FailRecs == IF FALSE THEN {}
            ELSE BadLeaves \cup {Hold(<<x>>) : x \in BadLeaves}
                           \cup {Hold(<<a, x>>) : a \in CoreLeaves, x \in BadLeaves} \cup {Hold(<<x, a>>) : a \in CoreLeaves, x \in BadLeaves}

\* descriptors a value needs, as a set
RECURSIVE Needs(_)
Needs(v) == (IF v.kind = "rec" THEN {v.d} ELSE {}) \cup UNION {Needs(v.kids[i]) : i \in DOMAIN v.kids}
\* "no single value needs two different descriptors with one identifier" (frozen-format limit, see DESIGN)
SelfColliding(v) == \E a, b \in Needs(v) : a # b /\ Ident(a) = Ident(b)

VARIABLES reg,    \* writer -> (key -> descriptor | None)      RecordPacker.descriptors
          out,    \* writer -> sequence of frames               bytes handed to fp.write, frame by frame
          hdr,    \* writer -> BOOLEAN                          RecordStreamWriter.header_written
          hist    \* writer -> sequence of values written       (history variable)
vars == <<reg, out, hdr, hist>>

RegOf(w) == IF "SharedRegistry" \in Dev THEN CHOOSE x \in Writers : TRUE ELSE w

Known(r, d) == IF "GuardByIdentifier" \in Dev THEN r[Ident(d)] # None ELSE r[Ident(d)] = d
Register(r, d) == IF "NoBareNameKey" \in Dev /\ r[Name(d)] # None
                  THEN [r EXCEPT ![Ident(d)] = d]
                  ELSE [r EXCEPT ![Ident(d)] = d, ![Name(d)] = d]

\* Emit descriptors needed by value v in the code's traversal order; returns <<registry', frames>>
RECURSIVE EmitRec(_, _), EmitKids(_, _)
EmitKids(r, ks) == IF ks = <<>> THEN <<r, <<>>>>
                   ELSE LET a == EmitRec(r, Head(ks))
                            b == EmitKids(a[1], Tail(ks))
                        IN <<b[1], a[2] \o b[2]>>
EmitRec(r, v) ==
   IF v.kind = "rec" THEN
      LET r1 == IF Known(r, v.d) THEN r ELSE Register(r, v.d)
          f1 == IF Known(r, v.d) THEN <<>> ELSE <<[k |-> "DESC", d |-> v.d]>>
          rest == EmitKids(r1, v.kids)
      IN <<rest[1], f1 \o rest[2]>>
   ELSE \* grouped: a first loop over the member descriptors, then the members' nested values
      LET RECURSIVE Loop(_, _)
          Loop(rr, ms) == IF ms = <<>> THEN <<rr, <<>>>>
                          ELSE LET d == Head(ms).d
                                   r1 == IF Known(rr, d) THEN rr ELSE Register(rr, d)
                                   f1 == IF Known(rr, d) THEN <<>> ELSE <<[k |-> "DESC", d |-> d]>>
                                   t == Loop(r1, Tail(ms))
                               IN <<t[1], f1 \o t[2]>>
          a == Loop(r, v.kids)
          RECURSIVE Inner(_, _)
          Inner(rr, ms) == IF ms = <<>> THEN <<rr, <<>>>>
                           ELSE LET x == EmitKids(rr, Head(ms).kids)
                                    t == Inner(x[1], Tail(ms))
                                IN <<t[1], x[2] \o t[2]>>
          b == Inner(a[1], v.kids)
      IN <<b[1], a[2] \o b[2]>>

\* the same traversal, stopping at the first record whose own values cannot be packed: <<registry', frames, stopped>>
RECURSIVE EmitS(_, _), EmitKidsS(_, _)
EmitKidsS(r, ks) == IF ks = <<>> THEN [r |-> r, f |-> <<>>, stop |-> FALSE]
                    ELSE LET a == EmitS(r, Head(ks)) IN
                         IF a.stop THEN a
                         ELSE LET b == EmitKidsS(a.r, Tail(ks)) IN [r |-> b.r, f |-> a.f \o b.f, stop |-> b.stop]
EmitS(r, v) == LET r1 == IF Known(r, v.d) THEN r ELSE Register(r, v.d)
                   f1 == IF Known(r, v.d) THEN <<>> ELSE <<[k |-> "DESC", d |-> v.d]>>
               IN IF v.bad THEN [r |-> r1, f |-> f1, stop |-> TRUE]
                  ELSE LET rest == EmitKidsS(r1, v.kids) IN [r |-> rest.r, f |-> f1 \o rest.f, stop |-> rest.stop]

Init == /\ reg = [w \in Writers |-> [k \in Keys |-> None]]
        /\ out = [w \in Writers |-> <<>>]
        /\ hdr = [w \in Writers |-> FALSE]
        /\ hist = [w \in Writers |-> <<>>]

NOps == LET RECURSIVE Sum(_)
            Sum(S) == IF S = {} THEN 0 ELSE LET x == CHOOSE y \in S : TRUE IN Len(hist[x]) + Sum(S \ {x})
        IN Sum(Writers)

Write(w, v) == /\ NOps < MaxOps
               /\ LET e == EmitRec(reg[RegOf(w)], v)
                      h == IF hdr[w] \/ Packer = "json" THEN <<>> ELSE <<[k |-> "HDR"]>>
                  IN /\ reg' = [reg EXCEPT ![RegOf(w)] = e[1]]
                     /\ out' = [out EXCEPT ![w] = @ \o h \o e[2] \o <<[k |-> "REC", v |-> v]>>]
               /\ hdr' = [hdr EXCEPT ![w] = TRUE]
               /\ hist' = [hist EXCEPT ![w] = Append(@, [v |-> v, ok |-> TRUE])]

\* a write that raises while packing: the header and the descriptors met before the failure are already in the
\* stream (and in the registry); no record frame follows
FailWrite(w, v) == /\ NOps < MaxOps
                   /\ LET e == EmitS(reg[RegOf(w)], v)
                          h == IF hdr[w] \/ Packer = "json" THEN <<>> ELSE <<[k |-> "HDR"]>>
                      IN /\ e.stop
                         /\ reg' = [reg EXCEPT ![RegOf(w)] = e.r]
                         /\ out' = [out EXCEPT ![w] = @ \o h \o e.f]
                   /\ hdr' = [hdr EXCEPT ![w] = TRUE]
                   /\ hist' = [hist EXCEPT ![w] = Append(@, [v |-> v, ok |-> FALSE])]

Next == (\E w \in Writers, v \in Recs : Write(w, v)) \/ (\E w \in Writers, v \in FailRecs : FailWrite(w, v))
Spec == Init /\ [][Next]_vars

\* ---------------- reader model and the property ----------------
\* The reader replays the frames of ONE stream with its own registry: DESC overwrites the identifier and
\* bare-name keys; a REC resolves every identifier it carries through the registry.
ReaderRegister(r, d) == IF "GuardByIdentifier" \in Dev /\ Packer = "json" /\ r[Ident(d)] # None THEN r
                        ELSE [r EXCEPT ![Ident(d)] = d, ![Name(d)] = d]
RECURSIVE NeedOK(_, _)
NeedOK(r, v) == IF v.kind = "rec" THEN r[Ident(v.d)] = v.d /\ \A i \in DOMAIN v.kids : NeedOK(r, v.kids[i])
                ELSE \A i \in DOMAIN v.kids : NeedOK(r, v.kids[i])
RECURSIVE ReadOK(_, _)
ReadOK(r, fs) == IF fs = <<>> THEN TRUE
                 ELSE LET f == Head(fs) IN
                      CASE f.k = "HDR" -> ReadOK(r, Tail(fs))
                        [] f.k = "DESC" -> ReadOK(ReaderRegister(r, f.d), Tail(fs))
                        [] f.k = "REC" -> NeedOK(r, f.v) /\ ReadOK(r, Tail(fs))
EmptyReg == [k \in Keys |-> None]

\* C03: every definition precedes its first use in the SAME stream, and at each record frame the latest
\* definition under each identifier the record needs is exactly the descriptor it was created with.
DefBeforeUse == \A w \in Writers : ReadOK(EmptyReg, out[w])
\* the magic header is the first frame of a binary stream
HeaderFirst == \A w \in Writers : (Packer = "msgpack" /\ out[w] # <<>>) => out[w][1].k = "HDR"
\* one REC frame per record written, in order, carrying that record
RecFrames(w) == SelectSeq(out[w], LAMBDA f : f.k = "REC")
OkHist(w) == SelectSeq(hist[w], LAMBDA h : h.ok)
RecPerWrite == \A w \in Writers : /\ Len(RecFrames(w)) = Len(OkHist(w))
                                  /\ \A i \in DOMAIN OkHist(w) : RecFrames(w)[i].v = OkHist(w)[i].v
\* independence per stream: a writer's output is a function of its own history only
RECURSIVE ExpectedOut(_, _, _)
ExpectedOut(r, h, first) ==
   IF h = <<>> THEN <<>>
   ELSE LET hd == IF first /\ Packer = "msgpack" THEN <<[k |-> "HDR"]>> ELSE <<>> IN
        IF Head(h).ok
        THEN LET e == EmitRec(r, Head(h).v) IN hd \o e[2] \o <<[k |-> "REC", v |-> Head(h).v]>> \o ExpectedOut(e[1], Tail(h), FALSE)
        ELSE LET e == EmitS(r, Head(h).v) IN hd \o e.f \o ExpectedOut(e.r, Tail(h), FALSE)
PerStream == \A w \in Writers : out[w] = ExpectedOut(EmptyReg, hist[w], TRUE)

\* state constraint used by the exhaustive configuration: values that need two descriptors with one
\* identifier inside ONE frame cannot be told apart by any emission order (known residual finding)
NoSelfColliding == \A w \in Writers : \A i \in DOMAIN hist[w] : ~SelfColliding(hist[w][i].v)
=============================================================================
