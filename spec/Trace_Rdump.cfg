SPECIFICATION Spec
INVARIANT Contract
INVARIANT ContractList
INVARIANT Design
CHECK_DEADLOCK FALSE
