SPECIFICATION Spec
CONSTANTS
  FieldSets = {{}, {"a"}, {"a", "b"}}
  MaxDepth = 3
  MaxOps = 6
  Dev = {"ExceptionOnly"}
PROPERTY ScopeRestores
CHECK_DEADLOCK FALSE
