SPECIFICATION Spec
CONSTANTS
  MaxOps = 4
  Dev = {"StoreBeforeConvert"}
INVARIANT SlotsTyped
INVARIANT FailedAssignIsNoOp
CHECK_DEADLOCK FALSE
