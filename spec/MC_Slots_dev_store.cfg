SPECIFICATION Spec
CONSTANTS
  MaxOps = 4
  Dev = {"StoreBeforeConvert"}
INVARIANT SlotsTyped
INVARIANT FailedAssignIsNoOp
INVARIANT FreshStartsEmpty
CHECK_DEADLOCK FALSE
