SPECIFICATION Spec
INVARIANT FirstKept
INVARIANT NamesExact
INVARIANT FromOneRecord
INVARIANT TsOK
CHECK_DEADLOCK FALSE
