SPECIFICATION Spec
CONSTANTS
  Kinds = {"stream", "streamgz", "json", "avro", "sqlite", "csv", "line", "text"}
  MaxOps = 12
  Dev = {}
INVARIANT ClosedMeansDurable
INVARIANT EmptyIsValid
INVARIANT ClosingNeverRaises
CHECK_DEADLOCK FALSE
