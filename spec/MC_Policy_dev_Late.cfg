SPECIFICATION Spec
CONSTANT Dev = {"ResolveAfterArgs"}
INVARIANT OnlyWhitelistedInvoked
CHECK_DEADLOCK FALSE
