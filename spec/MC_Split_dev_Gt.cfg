SPECIFICATION Spec
CONSTANTS
  MaxN = 9
  Limits = {1, 2, 3, 4}
  Dev = {"GtInsteadOfGe"}
INVARIANT PartBound
CHECK_DEADLOCK FALSE
