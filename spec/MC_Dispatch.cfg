SPECIFICATION Spec
CONSTANT Dev = {}
INVARIANT CompressedByExtension
INVARIANT SchemeWins
CHECK_DEADLOCK FALSE
