SPECIFICATION Spec
CONSTANT Dev = {"BytesNoneFails"}
INVARIANT RoundTrip
CHECK_DEADLOCK FALSE
