SPECIFICATION TSpec
CONSTANTS
  Readers = {"a", "b"}
  N = 3
  Dev = {}
INVARIANT Independent
INVARIANT NoFailure
CHECK_DEADLOCK FALSE
