SPECIFICATION TSpec
CONSTANTS
  Writers = {"w1", "w2"}
  MaxOps = 1000
  Dev = {}
  Packer = "msgpack"
  Mode = "design"
INVARIANT NotStuck
INVARIANT ObsDefBeforeUse
INVARIANT ObsHeaderFirst
INVARIANT ObsRecPerWrite
INVARIANT ObsReadBack
CHECK_DEADLOCK FALSE
