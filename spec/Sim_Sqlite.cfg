SPECIFICATION Spec
CONSTANTS
  MaxOps = 16
  Batches = {1, 2, 3, 4, 5, 7}
  MaxSess = 4
  Dev = {}
INVARIANT VisiblePrefix
INVARIANT AtBoundary
INVARIANT ClosedCommitted
INVARIANT OneColumnPerField
INVARIANT VisibleSchemaOK
PROPERTY VisChangesOnlyAtBoundary
CHECK_DEADLOCK FALSE
