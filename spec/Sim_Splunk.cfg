SPECIFICATION Spec
CONSTANTS
  Protos = {"tcp", "http"}
  Limit = 4
  MaxOps = 14
  MayFail = TRUE
  Dev = {}
INVARIANT Conservation
INVARIANT Delivered
INVARIANT BodyBound
INVARIANT EscapeInjective
INVARIANT EscapedSafe
PROPERTY FlushEmpties
CHECK_DEADLOCK FALSE
