#!/venv/bin/python
"""Regenerates the seed table (and its counts) of DESIGN.md section 16 from seeded/*/meta.json."""
import glob, json, os, re

V = "/verif"
rows, n_yes, n_after, n_no, rounds = [], 0, 0, 0, set()
for d in sorted(glob.glob(os.path.join(V, "seeded", "*"))):
    m = json.load(open(os.path.join(d, "meta.json")))
    name = os.path.basename(d)
    rounds.add(re.sub(r"^C\d+([a-z])_\d+$", r"\1", name))
    det = m["verif"]["detected"]
    n_yes += det == "yes"
    n_after += det == "after-strengthening"
    n_no += det == "no"
    clean = lambda s: " ".join(str(s).replace("|", "/").split())
    extra = ""
    if m["verif"].get("obsolete"):
        extra = " -- NOW OBSOLETE: " + clean(m["verif"]["obsolete"])[:200]
    elif m["verif"].get("rebased"):
        extra = " (re-based onto a later repository fix)"
    rows.append(f"| {name} | {m['property']} | {clean(m.get('summary', ''))[:240]} | {det} | {clean(m['verif']['ran'])[:330]}{extra} |")
total = len(rows)
intro = f"""Sub-agents were given only the text of one property and a scratch worktree, and asked for changes that keep the pinned
suite green, break the property, and need something specific to manifest (from the second round on they were also told
what the earlier rounds had produced, and asked for something else). All {total} were confirmed (demo fails with / passes
without the change; pinned tests as green as on the unchanged tree) with `bin/seedtest` and are kept under seeded/.
{n_yes} were caught by the check as it stood; {n_after} were missed at first, and each miss led to a permanent extension of
the specification and / or the driver (column "detected" says `after-strengthening` and the note says what was added).
Recurring lessons, now built into every driver: descriptors that share a type name (or differ only in `/` vs `_`, or have
no fields), process-global or object-level caches keyed too coarsely, operations that fail in the middle of a history
while the application carries on, falsy / boundary / non-boolean values, state observed under one configuration and used
under another, definitions that are another cut of the same characters, forms outside a grammar nested under its
connectives; from rounds four to six: the process's own circumstances (locale, time zone, `python -O`, a closed standard
output, a FIFO instead of a file), two objects of one kind alive at the same time (writers, readers, selectors -- and one
selector entered twice), the death of the writer and a commit that cannot be made, tables of fixed capacity met by more
types than they hold, values that are already instances of a field type (and so skip conversion), names that collide
with the library's own attributes, methods or parameters (`record`, `name`, `keys`, `self`, `rowid`).
Six seeds are filed under the property whose check catches them rather than the one they were written for (C07e_3 -> C09,
C03f_1 -> C01, C03f_2 -> C04, and earlier ones noted in the table); two became meaningless through later repository
fixes (marked NOW OBSOLETE) and a few were re-based onto such fixes.
{{missed}}

| seed | property | change | detected | what was run / what had to be added |
|---|---|---|---|---|
"""
missed = "" if not n_no else (f"{n_no} seeds of the last (short) round are recorded as `no`: the check as it stands does NOT catch them, the session ended before the "
    "driver could be extended, and the note says which scenario is missing -- they are the first work items of a next session.")
intro = intro.replace("{missed}", missed)
p = os.path.join(V, "DESIGN.md")
s = open(p).read()
a = s.index("## 16. Seeded changes")
a = s.index("\n", a) + 1
b = s.index("In addition the test-surviving single-line mutations")
s = s[:a] + "\n" + intro + "\n".join(rows) + "\n\n" + s[b:]
open(p, "w").write(s)
print(f"{total} seeds: {n_yes} caught at once, {n_after} after strengthening")
