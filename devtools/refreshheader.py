#!/venv/bin/python
"""Refreshes the counts in the status paragraph at the top of DESIGN.md."""
import glob, json, re, subprocess
V = "/verif"
f = json.load(open(f"{V}/known_findings.json"))["findings"]
fixed = sum(1 for e in f if e["status"] == "fixed")
opened = sum(1 for e in f if e["status"] == "open")
nfix = len([l for l in subprocess.check_output(["git", "-C", "/repo", "log", "--format=%s"]).decode().splitlines() if l.startswith("fix:")])
seeds = len(glob.glob(f"{V}/seeded/*/meta.json"))
p = f"{V}/DESIGN.md"
s = open(p).read()
new = (f"{nfix} `fix:` commits repair {fixed} recorded defects of flow.record, {opened} findings stay open (known_findings.json), {seeds} seeded changes produced by\n"
       "independent sub-agents in six rounds are kept under seeded/ with what detects them.")
s, n = re.subn(r"\d+ genuine defects of flow\.record were\nrepaired \(`fix:` commits\), \d+ are recorded as open findings \(known_findings\.json\), \d+ seeded changes produced by\nindependent sub-agents are kept under seeded/ with what detects them\.|\d+ `fix:` commits repair \d+ recorded defects of flow\.record, \d+ findings stay open \(known_findings\.json\), \d+ seeded changes produced by\nindependent sub-agents in six rounds are kept under seeded/ with what detects them\.", new, s)
assert n == 1, n
open(p, "w").write(s)
print(nfix, fixed, opened, seeds)
