#!/venv/bin/python
"""Development aid: re-runs the test-surviving single-line mutations of DESIGN.md Appendix C (and the two negative
controls) against the checks of the properties they break.  Output: devtools/appendix_c_result.json"""
import json, os, subprocess, sys
M = [
 ("ext-type", "flow/record/packer.py", "RECORD_PACK_EXT_TYPE = 0xE", "RECORD_PACK_EXT_TYPE = 0xF", ["C02"], True),
 ("use-bin-type", "flow/record/packer.py", "msgpack.packb, use_bin_type=True,", "msgpack.packb, use_bin_type=False,", ["C02", "C01"], True),
 ("sqlite-close-no-flush", "flow/record/adapter/sqlite.py", "            self.flush()\n            self.con.close()", "            self.con.close()", ["C18", "C17"], True),
 ("field-regex-space", "flow/record/base.py", 'RE_VALID_FIELD_NAME = re.compile(r"^_?[a-zA-Z][a-zA-Z0-9_]*$")', 'RE_VALID_FIELD_NAME = re.compile(r"^_?[a-zA-Z][a-zA-Z0-9_é]*$")', ["C06"], True),
 ("type-regex-colon", "flow/record/base.py", '(/[a-zA-Z][a-zA-Z0-9_]*)*$")', '(/[a-zA-Z][a-zA-Z0-9_:]*)*$")', ["C06"], False),   # the compiler rejects every such name before anything runs: the property still holds
 ("whitelist-skip-dotted", "flow/record/base.py", '    if clspath not in WHITELIST:', '    if "." not in clspath and clspath not in WHITELIST:', ["C06"], True),
 ("boolean-accepts-2", "flow/record/fieldtypes/__init__.py", "        if value < 0 or value > 1:\n            raise ValueError(\"Value not a valid boolean value\")", "        if value < 0 or value > 2:\n            raise ValueError(\"Value not a valid boolean value\")", ["C05"], True),
 ("bare-name-not-overwritten", "flow/record/packer.py", "        self.descriptors[desc.name] = desc\n\n        if notify", "        self.descriptors.setdefault(desc.name, desc)\n\n        if notify", ["C02"], True),
 ("reader-break-on-header", "flow/record/stream.py", "                if obj == RECORDSTREAM_MAGIC:\n                    continue", "                if obj == RECORDSTREAM_MAGIC:\n                    break", ["C17"], True),
 ("sentinel-gt-true", "flow/record/selector.py", "    def __gt__(a, b):\n        return False", "    def __gt__(a, b):\n        return True", ["C08"], True),
 ("namespace-kept", "flow/record/selector.py", '        self.data = {\n            "None": None,', '        self.data = self.data or {\n            "None": None,', ["C10"], True),
 ("avro-reader-ignores-selector", "flow/record/adapter/avro.py", "            if not self.selector or self.selector.match(rec):\n                yield rec", "            yield rec", ["C10"], True),
 ("json-bytes-rstrip-nul", "flow/record/jsonpacker.py", "            return base64.b64encode(obj).decode()", "            return base64.b64encode(obj.rstrip(b'\\x00')).decode()", ["C14"], True),
 ("record-stream-break", "flow/record/stream.py", 'skipping to next reader", reader, src, aRepr.repr(e))\n            continue', 'skipping to next reader", reader, src, aRepr.repr(e))\n            break', ["C16"], True),
 ("avro-mixed-by-name", "flow/record/adapter/avro.py", "        if self.desc != r._desc:", "        if self.desc.name != r._desc.name:", ["C19"], True),
 ("csv-no-header-on-change", "flow/record/adapter/csvfile.py", "        if not self.desc or self.desc != r._desc:", "        if not self.desc:", ["C20"], True),
 ("digest-sha1-upper", "flow/record/fieldtypes/__init__.py", "            b2a_hex(data[1]).decode() if data[1] else None,", "            b2a_hex(data[1]).decode().upper() if data[1] else None,", ["C01"], True),
 ("command-args-truncated", "flow/record/fieldtypes/__init__.py", "            return ((_exec, self.args), command_type)", "            return ((_exec, self.args[:1]), command_type)", ["C01"], True),
 ("NEG-except-exception", "flow/record/stream.py", "        except EOFError:\n            pass", "        except Exception:\n            pass", ["C04"], False),
 ("NEG-short-len-raises", "flow/record/stream.py", "        if len(d) != 4:\n            raise EOFError()", "        if len(d) == 0:\n            raise EOFError()", ["C04"], False),
]
out = []
for name, f, old, new, props, should in M:
    for p in props:
        r = subprocess.run(["/verif/bin/withedit", f, old, new, "--", "/verif/bin/check", p, "--tier", "quick"], cwd="/verif", stdout=subprocess.PIPE, stderr=subprocess.STDOUT, text=True)
        viol = sum(1 for l in r.stdout.splitlines() if l.startswith("VIOLATION"))
        ok = (r.returncode == 1 and viol > 0) if should else (r.returncode == 0 and viol == 0)
        out.append({"mutation": name, "property": p, "expected": "violation" if should else "silent", "exit": r.returncode, "violation_lines": viol, "as_expected": ok})
        print(out[-1], flush=True)
json.dump(out, open("/verif/devtools/appendix_c_result.json", "w"), indent=1)
print("ALL AS EXPECTED" if all(o["as_expected"] for o in out) else "MISMATCHES: " + str([o for o in out if not o["as_expected"]]))
