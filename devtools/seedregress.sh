#!/bin/sh
# usage: devtools/seedregress.sh [pattern]   -- re-runs every kept seed (seeded/<pattern>) against its property's check:
# pinned tests as green as the baseline, demo fails with / passes without, check exits 1.  Output: one line per seed.
cd /verif
for d in seeded/${1:-*}; do
  p=$(/venv/bin/python -c "import json,sys; print(json.load(open('$d/meta.json'))['property'])")
  bin/seedtest "$d" "$p" | head -1
done
