#!/bin/sh
# usage: devtools/runall.sh [quick|thorough]  -- runs every check on /repo one after the other (refreshes evidence/)
cd /verif
for i in 01 02 03 04 05 06 07 08 09 10 11 12 13 14 15 16 17 18 19 20; do
  s=$(date +%s); bin/check C$i --tier ${1:-quick} > /tmp/runall_C$i.log 2>&1; rc=$?
  echo "C$i rc=$rc $(( $(date +%s) - s ))s $(tail -1 /tmp/runall_C$i.log | cut -c1-160)"
done
