#!/venv/bin/python
"""usage: devtools/mkseedprompts.py <round letter>  -- writes /tmp/agent_prompt_<ID><round>.txt for every property from
devtools/seed_agent_prompt_template.txt, listing the seeds of earlier rounds kept under seeded/ (summary only)."""
import glob, json, os, sys
rnd = sys.argv[1]
N = int(sys.argv[2]) if len(sys.argv) > 2 else 3
tpl = open("/verif/devtools/seed_agent_prompt_template.txt").read()
for line in open("/verif/properties.jsonl"):
    p = json.loads(line)
    pid = p["id"]
    tag = pid + rnd
    wt = f"/tmp/seed_{tag}"
    prop = (f"{pid}: {p['title']}\n\nStatement: {p['statement']}\n\nQuantified over: {p['quantifier']['text']}\n\nCode anchors: " + ", ".join(p["anchors"]["files"]))
    txt = tpl.format(WT=wt, PROP=prop, N=N, TAG=tag, PID=pid)
    earlier = []
    for d in sorted(glob.glob(f"/verif/seeded/{pid}[a-z]_*")):
        m = json.load(open(os.path.join(d, "meta.json")))
        earlier.append("- " + " ".join(str(m.get("summary", "")).split())[:330])
    if earlier:
        txt += ("\n\nADDITIONAL NOTE: earlier rounds already produced the following seeded changes for this property, so produce DIFFERENT ones (other code sites, other mechanisms, "
                "other sub-clauses of the property; also think about less obvious entry points, option combinations, the interaction of two features, state carried between calls, "
                "concurrently open objects, environment settings, error paths, and values at the edge of what a type can hold):\n" + "\n".join(earlier) + "\n")
    open(f"/tmp/agent_prompt_{tag}.txt", "w").write(txt)
    print(tag, len(txt))
