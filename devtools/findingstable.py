#!/venv/bin/python
"""Regenerates the findings table of DESIGN.md section 14 from known_findings.json."""
import json
V = "/verif"
rows = []
for e in json.load(open(f"{V}/known_findings.json"))["findings"]:
    rec = " ".join(e["record"].replace("|", "/").split())
    rows.append(f"| {e['id']} | {e['property']} | {e['status']} | {rec[:420]} |")
p = f"{V}/DESIGN.md"
s = open(p).read()
a = s.index("| entry | property | status | what |")
b = s.index("Two repairs could **not** be made")
s = s[:a] + "| entry | property | status | what |\n|---|---|---|---|\n" + "\n".join(rows) + "\n\n" + s[b:]
open(p, "w").write(s)
print(len(rows), "findings")
