#!/venv/bin/python
"""Regenerates the per-property status table of DESIGN.md section 13 from evidence/*.json (run all quick checks first)."""
import glob, json, os
V = "/verif"
rows = []
for f in sorted(glob.glob(f"{V}/evidence/C*.json")):
    e = json.load(open(f))
    cov = e["coverage"]
    runs = cov.get("tlc_runs", [])
    design = [r for r in runs if not r["module"].startswith("Trace_") and r["violations"] == 0]
    sens = [r for r in runs if not r["module"].startswith("Trace_") and r["violations"] > 0]
    trace = [r for r in runs if r["module"].startswith("Trace_")]
    mods = []
    for r in runs:
        if r["module"] not in mods:
            mods.append(r["module"])
    dtxt = "; ".join(f"{r['module']}: {r['distinct']} states" for r in design[:6]) + (f"; {len(sens)} deviation run(s) violate as required" if sens else "")
    ttxt = f"{cov.get('traces_validated_against_impl', 0)} traces / cases, {cov.get('events_validated', 0)} events, {sum(r['distinct'] for r in trace)} TLC states over the observations"
    rows.append(f"| {e['property_id']} | {', '.join(mods)} | {dtxt} | {ttxt} | {e['tier']} | {round(e['wall_s'])} s | {e['violations']} / {sum(cov.get('known_findings_seen', {}).values())} |")
p = f"{V}/DESIGN.md"
s = open(p).read()
a = s.index("| id | specification modules |")
b = s.index("`thorough` raises every bound")
hdr = "| id | specification modules | TLC on the model | conformance validated by TLC | tier | wall | violations / known |\n|---|---|---|---|---|---|---|\n"
s = s[:a] + hdr + "\n".join(rows) + "\n\n" + s[b:]
open(p, "w").write(s)
print(len(rows), "rows")
