"""Check context: accumulates TLC results, conformance counts, violations; writes evidence; decides exit code."""
import json, os, random, hashlib, sys
from . import common, tlc, findings
from .common import MachineryError


class Ctx:
    def __init__(self, prop, tier, level="model_checking"):
        self.prop, self.tier, self.level = prop, tier, level
        self.seed = common.seed()
        self.rnd = random.Random(f"{prop}-{self.seed}")
        self.timer = common.Timer()
        self.states = 0
        self.transitions = 0
        self.tlc_runs = []
        self.traces = 0  # traces / cases of the implementation validated by TLC against the specification
        self.events = 0
        self.evaluations = 0
        self.distinct = set()
        self.samples = []
        self.violations = []
        self.notes = []
        self.assumptions = []
        self.extra = {}
        self.exhaustive = None

    # ---- TLC ----
    def tlc(self, module, cfg, what, expect_violation=None, **kw):
        """Run TLC; record counts. `what` is a label for the evidence file."""
        r = tlc.run(module, cfg, **kw)
        self.states += r.distinct
        self.transitions += max(r.transitions, r.generated and 1)
        print(f"  tlc {module}/{cfg}: {r.distinct} states, {len(r.violations)} violation(s), {r.wall_s}s  [{what}]", flush=True)
        self.tlc_runs.append({"what": what, "module": module, "cfg": cfg, "generated": r.generated, "distinct": r.distinct,
                              "depth": r.depth, "violations": len(r.violations), "wall_s": r.wall_s,
                              "actions": {k: v[1] for k, v in r.actions.items()} or None})
        return r

    def design(self, module, cfg, what, actions=(), **kw):
        """Exhaustive run of a design model: the property invariants must hold (else the machinery is wrong)."""
        r = self.tlc(module, cfg, what, coverage=bool(actions), **kw)
        if r.violations:
            raise MachineryError(f"design model {module}/{cfg} violates {r.violations[0]['inv']}: {r.violations[0]['state']}")
        if actions:
            tlc.require_actions(r, actions, module)
        return r

    def sensitivity(self, module, cfg, what, inv, **kw):
        """A model with a deviation switch on must violate `inv` (shows the invariant is not vacuous)."""
        r = self.tlc(module, cfg, what, cont=False, **kw)
        if not any(v["inv"] == inv for v in r.violations):
            raise MachineryError(f"sensitivity: {module}/{cfg} was expected to violate {inv} and did not")
        return r

    # ---- conformance bookkeeping ----
    def count(self, n_traces, n_events=0):
        self.traces += n_traces
        self.events += n_events

    def case(self, distinct_key=None):
        self.evaluations += 1
        if distinct_key is not None:
            self.distinct.add(distinct_key)

    def sample(self, x, limit=6):
        if len(self.samples) < limit:
            self.samples.append(x)

    def violation(self, key, detail=None):
        """key: flat dict identifying the failing input / call site / history (used for known-finding matching)."""
        self.violations.append({"key": key, "detail": detail or {}})

    def note(self, s):
        self.notes.append(s)
        print("NOTE:", s)

    # ---- finish ----
    def finish(self):
        known, unknown, entries = findings.classify(self.prop, self.violations)
        for eid, vs in sorted(known.items()):
            e = entries[eid]
            print(f"KNOWN-FINDING: property={self.prop} {e['record']} [{len(vs)} case(s); e.g. {json.dumps(vs[0]['key'], sort_keys=True)[:300]}]")
        # runs against another tree than /repo (development: seeded changes, mutations) keep their replay and evidence
        # files apart, so that evidence/ always describes /repo itself
        alt = os.path.realpath(common.REPO) != "/repo"
        outroot = os.path.join(common.VERIF, ".scratch", "other_tree") if alt else common.VERIF
        rdir = os.path.join(outroot, "replay", self.prop)
        if os.path.isdir(rdir):
            for f in os.listdir(rdir):  # replay files always describe the latest run only
                os.remove(os.path.join(rdir, f))
        seen = set()
        n_unknown = 0
        for v in unknown:
            blob = json.dumps(v, sort_keys=True, default=str)
            h = hashlib.sha1(json.dumps(v["key"], sort_keys=True, default=str).encode()).hexdigest()[:12]
            if h in seen:
                continue
            seen.add(h)
            n_unknown += 1
            if n_unknown <= 25:
                os.makedirs(rdir, exist_ok=True)
                path = os.path.join(rdir, f"{h}.json")
                with open(path, "w") as f:
                    f.write(json.dumps({"property": self.prop, "seed": self.seed, "tier": self.tier, **v}, indent=1, sort_keys=True, default=str))
                print(f"VIOLATION property={self.prop} replay={path}")
                if n_unknown <= 5:
                    print("  " + blob[:400])
        if n_unknown > 25:
            print(f"  ... and {n_unknown - 25} more distinct violations")
            import collections
            grp = collections.Counter(json.dumps({k: v["key"].get(k) for k in ("check", "how", "kind", "part", "engine", "op", "other") if k in v["key"]}, sort_keys=True) for v in unknown)
            for g, n in grp.most_common(12):
                print(f"  summary: {n} x {g}")
        cov = {
            "states": self.states, "transitions": self.transitions,
            "traces_validated_against_impl": self.traces, "events_validated": self.events,
            "evaluations": max(self.evaluations, self.traces), "distinct_nontrivial": len(self.distinct) if self.distinct else self.traces,
            "samples": self.samples or [{"note": "no sample recorded"}],
            "tlc_runs": self.tlc_runs,
            "known_findings_seen": {k: len(v) for k, v in known.items()},
            "trusted_base": ["TLC 1.8 (tla2tools.jar)", "vf/refcodec.py, vf/observe.py (observation layer)", "CPython standard library"],
        }
        if self.exhaustive is not None:
            cov["exhaustive"] = self.exhaustive
        cov.update(self.extra)
        ev = {"property_id": self.prop, "tier": self.tier, "seed": self.seed, "level": self.level, "coverage": cov,
              "assumptions": self.assumptions, "wall_s": self.timer.s(), "violations": n_unknown, "notes": self.notes}
        os.makedirs(os.path.join(outroot, "evidence"), exist_ok=True)
        with open(os.path.join(outroot, "evidence", f"{self.prop}.json"), "w") as f:
            json.dump(ev, f, indent=1, sort_keys=True, default=str)
        print(f"{self.prop} {self.tier}: states={self.states} traces={self.traces} events={self.events} cases={self.evaluations} "
              f"violations={n_unknown} known={sum(len(v) for v in known.values())} wall={self.timer.s()}s")
        return common.EXIT_VIOLATION if n_unknown else common.EXIT_OK
