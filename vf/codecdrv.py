"""Driver shared by C01 and C02: writes values of every field type / class through the real binary writers, observes
the wire with the independent tokenizer, reads back, and builds the cases spec/Trace_Codec.tla validates."""
import datetime as dt
import io, json, os, pathlib

from . import gen, observe, refcodec as rc

INT_TYPES = {"varint", "filesize", "unix_file_mode", "uint16", "uint32", "net.tcp.Port", "net.udp.Port", "net.ipv4.Address"}
TEXT_TYPES = {"string", "wstring", "uri", "net.ipnetwork", "net.IPNetwork"}
MODEL_TYPES = INT_TYPES | TEXT_TYPES | {"bytes", "boolean", "float", "datetime", "path", "command", "digest", "net.ipaddress", "net.IPAddress", "stringlist", "dictlist", "dynamic"}


def codec_class(T, v):
    """abstract class of spec/Codec.tla for a (coerced) field value"""
    import ipaddress as ipa

    if v is None:
        return "none"
    tn = type(v).__name__
    if T == "dynamic":
        if isinstance(v, bool) or tn == "boolean":
            return "bool"
        if isinstance(v, dt.datetime):
            return "utc" if v.utcoffset() == dt.timedelta(0) else "offset"
        if isinstance(v, int):
            return "native" if -(2**63) <= int(v) < 2**64 else "big"
        if isinstance(v, str):
            return "text"
        if isinstance(v, bytes):
            return "bytes"
        if isinstance(v, (list, tuple)):
            return "texts"
        return "other:" + tn
    if T in INT_TYPES:
        n = int(v.val) if T == "net.ipv4.Address" else int(v)
        return "native" if -(2**63) <= n < 2**64 else "big"
    if T in TEXT_TYPES:
        return "text"
    if T == "bytes":
        return "bytes"
    if T == "boolean":
        return "bool"
    if T == "float":
        return "float"
    if T == "datetime":
        return "utc" if (v.tzinfo is None or v.tzinfo == dt.timezone.utc) else "offset"
    if T in ("path", "command"):
        return "windows" if "windows" in tn else "posix"
    if T == "digest":
        if v.md5 and v.sha1:
            return "all"
        if v.md5:
            return "md5"
        if v.sha1:
            return "sha"
        return "none"
    if T in ("net.ipaddress", "net.IPAddress"):
        a = v.val
        if a.version == 4:
            return "v4"
        n = int(a)
        return "v6small" if n < 2**32 else ("v6mid" if n < 2**64 else "v6big")
    if T == "stringlist":
        return "texts" if len(v) else "empty"
    if T == "dictlist":
        return "dicts" if len(v) else "empty"
    return "?"


def obs_cmp(o):
    """observation used for identity in C01: everything but `fold` (identity of a timestamp is instant + UTC offset)"""
    if isinstance(o, dict):
        return {k: obs_cmp(v) for k, v in o.items() if k != "fold"}
    if isinstance(o, list):
        return [obs_cmp(x) for x in o]
    return o


def obs_key(rec):
    return json.dumps(obs_cmp(observe.obs_record(rec)), sort_keys=True)


def canon(v):
    """what the reference decoder (refcodec.norm) yields for a packed value: the canonical wire-level value"""
    import flow.record.base as B

    if isinstance(v, dt.datetime):
        return ("dt", *v.timetuple()[:6], v.microsecond) if (v.tzinfo is None or v.tzinfo == dt.timezone.utc) else ("dt", v.isoformat())
    if isinstance(v, B.GroupedRecord):
        return ("GRP", v.name, tuple(canon(m) for m in v.records))
    if isinstance(v, B.Record):
        i, vals = v._pack()
        return ("REC", canon(i), tuple(canon(x) for x in vals))
    if isinstance(v, bool):
        return v
    if isinstance(v, int) and type(v).__name__ != "boolean":
        return int(v)
    if isinstance(v, float):
        return float(v)
    if isinstance(v, str):
        return str(v)
    if isinstance(v, bytes):
        return bytes(v)
    if isinstance(v, (list, tuple)):
        return tuple(canon(x) for x in (v._pack() if isinstance(v, B.FieldType) and type(v).__name__ not in ("stringlist", "dictlist") else v))
    if isinstance(v, dict):
        return {canon(k): canon(x) for k, x in v.items()}
    if isinstance(v, B.FieldType):
        return canon(v._pack())
    return v


def to_ref(v):
    """a packed value (as canon() sees it) -> structure for the reference ENCODER"""
    if isinstance(v, tuple) and v and v[0] == "dt":
        return rc.ext_datetime_utc(*v[1:]) if len(v) == 8 else rc.ext_datetime_iso(v[1])
    if isinstance(v, tuple) and v and v[0] == "REC":
        return rc.ext(rc.T_RECORD, [list(v[1]) if isinstance(v[1], tuple) else v[1], [to_ref(x) for x in v[2]]])
    if isinstance(v, bool) or v is None or isinstance(v, (str, float)):
        return v
    if isinstance(v, int):
        return v if -(2**63) <= v < 2**64 else rc.ext_varint(v)
    if isinstance(v, bytes):
        return rc.Bin(v)
    if isinstance(v, tuple):
        return [to_ref(x) for x in v]
    if isinstance(v, dict):
        return {to_ref(k): to_ref(x) for k, x in v.items()}
    raise TypeError(type(v))


def repr_eq(a, b):
    return repr(a) == repr(b)  # repr: distinguishes -0.0 / nan / str vs bytes


def value_cases(rnd, thorough, tmp):
    """one case per (type, class, scalar/list, writer path)"""
    from flow.record import RecordDescriptor, RecordReader, RecordStreamReader, RecordStreamWriter, RecordWriter

    vc = gen.value_classes()
    cases, metas = [], []
    plan = [(t, False) for t in vc] + [(t, True) for t in gen.LISTABLE]
    for T, islist in plan:
        tn = T + ("[]" if islist else "")
        D = gen.desc_for(tn, extra=(("string", "tail"),))
        DKW = gen.desc_for(tn, extra=(("string", "from"),))     # a Python keyword as field name selects the OTHER generated class template
        extra = gen.random_values(T, rnd, 200 if thorough else 6) if not islist else [("rndlist", v) for _, v in gen.random_values(T, rnd, 20 if thorough else 2)]
        for label, v in list(vc[T]) + extra:
            if islist and label in ("len65535", "len65536", "len255", "len256"):
                continue
            val = ([v, v] if v is not None else None) if islist else v
            if islist and label == "rndlist":
                val = [v] * rnd.choice([0, 1, 15, 16, 17, 40])          # array header classes: fixarray / array16
            try:
                rec = D(val, "t", _source="s", _classification=None, _generated=dt.datetime(2020, 1, 1, 1, 1, 1, 5, tzinfo=gen.TZ530))
                reckw = DKW(val, "", _source="", _classification="", _generated=dt.datetime(2020, 1, 1, 1, 1, 1, 5, tzinfo=gen.TZ530)) if label not in ("rnd", "rndlist") or rnd.random() < 0.3 else None
            except Exception:
                continue
            fv = getattr(rec, "f")
            if T in MODEL_TYPES:
                cs = ([codec_class(T, x) for x in fv] if fv is not None else []) if islist else [codec_class(T, fv)]
            else:
                continue
            for via in ("lowlevel", "path", "lowlevel-kw"):
                crec, cD = rec, D
                if via == "lowlevel-kw":
                    if reckw is None:
                        continue
                    crec, cD = reckw, DKW
                before = obs_key(crec)
                c = {"kind": "value", "T": T, "islist": islist, "cs": cs, "label": label, "via": via, "modelled": not any(x.startswith("other") or x == "?" for x in cs), "identical": False, "out": [], "tree": {"f": "NIL"}, "frame": {"f": "NIL"},
                     "frame_is_record": False, "hash_ok": False, "ref_decode_ok": False, "impl_decodes_ref_ok": False, "exc": "none"}
                try:
                    if via.startswith("lowlevel"):
                        b = io.BytesIO()
                        w = RecordStreamWriter(b)
                        w.write(crec)
                        data = b.getvalue()
                        w.fp = None
                        back = list(RecordStreamReader(io.BytesIO(data)))
                    else:
                        p = os.path.join(tmp, "v.records")
                        with RecordWriter(p) as w:
                            w.write(crec)
                        data = open(p, "rb").read()
                        back = list(RecordReader(p))
                    c["identical"] = len(back) == 1 and obs_key(back[0]) == before and obs_key(crec) == before
                    bv = getattr(back[0], "f") if back else None
                    c["out"] = ([codec_class(T, x) for x in bv] if bv is not None else []) if islist else [codec_class(T, bv)]
                except Exception as e:
                    c["exc"] = type(e).__name__ + ":" + str(e)[:80]
                    data = None
                try:
                    # wire-level observations (C02) are kept apart: a symmetric format change must not disturb the round trip verdict
                    if data is None:
                        raise ValueError("nothing written")
                    fams = rc.frame_families(data)
                    c["frame"] = fams[-1]
                    c["frame_is_record"] = len(fams) == 3 and fams[0] == {"f": "BIN"} and fams[1].get("sub") == 2 and fams[2].get("sub") == 1
                    if c["frame_is_record"]:
                        c["tree"] = fams[2]["payload"]["items"][1]["items"][0]
                    dec = rc.decode_stream(data)
                    desc_fr = [d for d in dec if d[0] == "DESC"][0]
                    rec_fr = [d for d in dec if d[0] == "REC"][0]
                    c["hash_ok"] = tuple(rec_fr[1]) == (desc_fr[1], rc.descriptor_hash(desc_fr[1], desc_fr[2])) and desc_fr[1] == cD.name and tuple(desc_fr[2]) == tuple(cD.get_field_tuples())
                    c["ref_decode_ok"] = repr_eq(rec_fr, canon(crec))
                    # the reverse direction: the same record encoded by the REFERENCE encoder, read by the implementation
                    cn = canon(crec)
                    ref_bytes = rc.header_frame() + rc.descriptor_frame(cD.name, cD.get_field_tuples()) + rc.frame(to_ref(cn))
                    back2 = list(RecordStreamReader(io.BytesIO(ref_bytes)))
                    c["impl_decodes_ref_ok"] = len(back2) == 1 and obs_key(back2[0]) == before
                except Exception as e:
                    c["exc2"] = type(e).__name__ + ":" + str(e)[:80]
                cases.append(c)
                metas.append((tn, label, via))
    return cases, metas


def stream_cases(rnd, n, tmp):
    from flow.record import RecordReader, RecordStreamReader, RecordStreamWriter, RecordWriter

    from flow.record import RecordDescriptor

    cases = []
    P = RecordDescriptor("s/poison", [("dictlist", "dl"), ("string", "x")])
    import contextlib
    from flow.record.base import ignore_fields_for_comparison

    seqs = gen.fixed_streams() + gen.churn_streams() + gen.sample_streams(rnd, n, (1, 9))
    nfixed = len(gen.fixed_streams())
    for si, recs0 in enumerate(seqs):
        # every third sequence contains a write that FAILS while packing the first record of a new type (its descriptor
        # has already been announced), followed by good records of that type: the failed record is not part of what was written
        plan = [(r, True) for r in recs0]
        lazy = any(callable(r) for r in recs0)
        if si % 3 == 0 and si >= nfixed and not any(callable(r) for r in recs0):
            k = rnd.randint(0, len(plan))
            plan[k:k] = [(P([{"a": {1, 2}}], "bad", _generated=gen.GEN), False), (P([{"a": 1}], "good1", _generated=gen.GEN), True)]
            plan.append((P([], "good2", _generated=gen.GEN), True))
        recs = [r for r, ok in plan if ok and not callable(r)]
        written = [obs_key(r) for r in recs]
        # "+ignore": the same, written and read while a comparison-ignore setting is active (a de-duplicating copy loop):
        # an option of record COMPARISON must not reach the encoding
        vias = ("lowlevel", "path", "pathgz") + (("lowlevel+ignore", "path+ignore") if si < nfixed or si % 4 == 1 else ()) + (("dribble", "sessions") if si < nfixed or si % 3 == 2 else ())
        for via0 in vias:
            via, _, opt = via0.partition("+")
            cm = ignore_fields_for_comparison({"_generated", "a", "n", "path", "s"}) if opt else contextlib.nullcontext()
            with cm:
                c = _stream_case(via, via0, plan, recs, written, tmp, gen.fixed_streams_intent()[si] if si < nfixed else None)
            cases.append(c)
    # more record types than a table of fixed size holds, one of them recurring
    many = gen.many_types_stream()
    for via0 in ("lowlevel", "path"):
        cases.append(_stream_case(via0, via0 + ":many-types", [(r, True) for r in many], many, [obs_key(r) for r in many], tmp, None))
    # typed LISTS changed in place after the record was made (append / extend / item assignment store the plain value): what
    # is written is the list as the field type holds such values -- the same as a record constructed with the final list
    ML = RecordDescriptor("s/mutlists", [("path[]", "paths"), ("command[]", "cmds"), ("digest[]", "digs"), ("string[]", "names"), ("varint", "n")])
    MD5 = "d41d8cd98f00b204e9800998ecf8427e"
    final = dict(paths=["/a", "/raw/appended", "ab"], cmds=["ls -l", "cat /etc/passwd"], digs=[(MD5, None, None), (None, None, "e3b0c44298fc1c149afbf4c8996fb92427ae41e4649b934ca495991b7852b855")], names=["x", "y"])
    for how in ("append", "extend", "setitem"):
        mut = ML(paths=["/a"], cmds=["ls -l"], digs=[(MD5, None, None)], names=["x"], n=1, _generated=gen.GEN)
        if how == "append":
            mut.paths.append("/raw/appended"); mut.paths.append("ab"); mut.cmds.append("cat /etc/passwd"); mut.digs.append(final["digs"][1]); mut.names.append("y")
        elif how == "extend":
            mut.paths.extend(["/raw/appended", "ab"]); mut.cmds.extend(["cat /etc/passwd"]); mut.digs.extend([final["digs"][1]]); mut.names.extend(["y"])
        else:
            mut = ML(paths=["/a", "/zz", "zz"], cmds=["ls -l", "zz"], digs=[(MD5, None, None), (MD5, None, None)], names=["x", "zz"], n=1, _generated=gen.GEN)
            mut.paths[1], mut.paths[2], mut.cmds[1], mut.digs[1], mut.names[1] = "/raw/appended", "ab", "cat /etc/passwd", final["digs"][1], "y"
        expect = ML(**final, n=1, _generated=gen.GEN)
        for via0 in ("lowlevel", "path"):
            c = _stream_case(via0, via0 + ":list-changed-in-place:" + how, [(mut, True)], [expect], [obs_key(expect)], tmp, None)
            cases.append(c)
    return cases


def _descs_resolve(node, rec, latest):
    """does every identifier of the decoded frame resolve (through `latest`) to the descriptor of the corresponding record?"""
    import flow.record.base as B

    if node[0] == "GRP":
        ms = rec.records if isinstance(rec, B.GroupedRecord) else []
        return len(ms) == len(node[2]) and all(_descs_resolve(m, r, latest) for m, r in zip(node[2], ms))
    if isinstance(rec, B.GroupedRecord) or not isinstance(rec, B.Record):
        return False
    ident = node[1]
    key = (str(ident[0]), ident[1]) if isinstance(ident, tuple) and len(ident) == 2 else None
    want = (rec._desc.name, tuple(tuple(x) for x in rec._desc.get_field_tuples()))
    if key is None or latest.get(key) != want:
        return False
    ok = True
    for (t, n), val in zip(rec._desc.get_field_tuples(), node[2]):
        v = getattr(rec, n)
        if isinstance(v, B.Record) and isinstance(val, tuple) and val and val[0] in ("REC", "GRP"):
            ok &= _descs_resolve(val, v, latest)
        elif isinstance(v, list) and v and all(isinstance(x, B.Record) for x in v) and isinstance(val, tuple):
            ok &= len(val) == len(v) and all(_descs_resolve(a, b, latest) for a, b in zip(val, v))
    return ok


def _stream_case(via, via0, plan, recs, written, tmp, intent=None):
    from flow.record import RecordReader, RecordStreamReader, RecordStreamWriter, RecordWriter

    if True:
        if True:
            c = {"kind": "stream", "via": via0, "modelled": True, "n_written": len(recs), "n_read": -1, "order_ok": False, "all_identical": False, "frames": [], "hash_ok": False, "ref_decode_ok": False, "exc": "none",
                 "T": "varint", "islist": False, "cs": ["none"]}
            made, made_keys, made_canon = [], [], []

            def realise(r):
                """a thunk is turned into its record only now; what it looks like AT THIS MOMENT is what gets written"""
                if callable(r):
                    r = r()
                    made.append(r)
                    made_keys.append(obs_key(r))
                    made_canon.append(canon(r))
                return r

            try:
                if via in ("lowlevel", "dribble", "sessions"):
                    class _Sink(io.RawIOBase):
                        """takes at most three bytes per call: every part of every frame needs several short writes in a row"""

                        def __init__(self):
                            self.data = bytearray()

                        def writable(self):
                            return True

                        def write(self, bb):
                            if len(self.data) > 50_000_000:
                                raise IOError("runaway writer")
                            bb = bytes(bb)[:3]
                            self.data += bb
                            return len(bb)

                    b = io.BytesIO() if via != "dribble" else _Sink()
                    w = RecordStreamWriter(b)
                    half = len(plan) // 2
                    for k, (r, ok) in enumerate(plan):
                        if via == "sessions" and k == half and k:
                            w.fp = None
                            w = RecordStreamWriter(b)        # a second session appends to the same stream (own header, own registry)
                        try:
                            w.write(realise(r))
                        except Exception:
                            if ok:
                                raise
                    data = b.getvalue() if via != "dribble" else bytes(b.data)
                    w.fp = None
                    back = list(RecordStreamReader(io.BytesIO(data)))
                else:
                    p = os.path.join(tmp, "s.records" + (".gz" if via == "pathgz" else ""))
                    with RecordWriter(p) as w:
                        for r, ok in plan:
                            try:
                                w.write(realise(r))
                            except Exception:
                                if ok:
                                    raise
                    raw = open(p, "rb").read()
                    import gzip

                    data = gzip.decompress(raw) if via == "pathgz" else raw
                    back = list(RecordReader(p))
                if made:
                    recs = made
                    written = made_keys
                    c["n_written"] = len(made)
                got = [obs_key(r) for r in back]
                c["n_read"] = len(back)
                c["order_ok"] = not (sorted(got) == sorted(written) and got != written)
                c["all_identical"] = got == written
                if intent is not None and [gen.names_of(r) for r in back] != intent:
                    c["all_identical"] = False
                    c["exc"] = "type names read back differ from the descriptors the records were created with: " + repr([gen.names_of(r) for r in back])[:120]
            except Exception as e:
                c["exc"] = type(e).__name__ + ":" + str(e)[:80]
                data = None
            try:
                if data is None:
                    raise ValueError("nothing written")
                c["frames"] = rc.frame_families(data)
                dec = rc.decode_stream(data)
                descs = {}
                ok = True
                for d in dec:
                    if d[0] == "DESC":
                        descs[(d[1], rc.descriptor_hash(d[1], d[2]))] = d

                def idents(x):
                    if isinstance(x, tuple) and x and x[0] == "REC":
                        yield x[1]
                        for y in x[2]:
                            yield from idents(y)
                    elif isinstance(x, tuple) and x and x[0] == "GRP":
                        for m in x[2]:
                            yield from idents(m)
                    elif isinstance(x, tuple):
                        for y in x:
                            yield from idents(y)

                for d in dec:
                    if d[0] in ("REC", "GRP"):
                        for i in idents(d):
                            ok &= (str(i[0]), i[1]) in descs
                c["hash_ok"] = bool(ok)
                recframes = [d for d in dec if d[0] in ("REC", "GRP")]
                c["ref_decode_ok"] = len(recframes) == len(recs) and all(repr_eq(f, cr) for f, cr in zip(recframes, made_canon if made else [canon(r) for r in recs]))
                # an independent reader resolves every identifier a record frame carries to the LATEST definition in front
                # of it: that definition must be the descriptor (name, ordered fields) the record was created with
                latest, ri = {}, 0
                for d in dec:
                    if d[0] == "DESC":
                        latest[(d[1], rc.descriptor_hash(d[1], d[2]))] = (d[1], tuple(tuple(x) for x in d[2]))
                    elif d[0] in ("REC", "GRP") and ri < len(recs):
                        c["ref_decode_ok"] &= _descs_resolve(d, recs[ri], latest)
                        # ... and carries the type name the record was CREATED with (written down by hand for the fixed
                        # sequences: a record object whose descriptor was taken over cannot vouch for itself)
                        if intent is not None and ri < len(intent):
                            names = [str(m[1][0]) for m in d[2]] if d[0] == "GRP" else [str(d[1][0])]
                            if names != list(intent[ri]):
                                c["ref_decode_ok"] = False
                                c["exc2"] = f"frame {ri} carries type name(s) {names}, the record was created as {list(intent[ri])}"
                        ri += 1
            except Exception as e:
                c["exc2"] = type(e).__name__ + ":" + str(e)[:80]
            return c
