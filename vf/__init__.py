"""Verification framework for fox-it/flow.record: TLA+ specifications (spec/), TLC runner and
conformance drivers binding the specification to the implementation under /repo."""
