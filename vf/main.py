import argparse, importlib, os, sys, traceback, json
from . import common
from .common import MachineryError


def main(argv=None):
    ap = argparse.ArgumentParser(prog="check")
    ap.add_argument("prop")
    ap.add_argument("--tier", default=os.environ.get("VERIF_TIER") or "quick", choices=["quick", "thorough"])
    ap.add_argument("--seed", type=int)
    ap.add_argument("--replay")
    a = ap.parse_args(argv)
    if a.seed is not None:
        os.environ["VERIF_SEED"] = str(a.seed)
    prop = a.prop.upper()
    # safety net: a check must never hang for ever (code under test that spins is caught by the checks' own watchdogs
    # where it is expected; this one only stops the whole run and says so)
    import faulthandler, signal

    budget = int(os.environ.get("VERIF_WALL_BUDGET_S", "3600" if a.tier == "quick" else "21600"))

    def _too_long(sig, frm):
        faulthandler.dump_traceback(file=sys.stderr)
        print(f"MACHINERY-ERROR property={prop}: the check did not finish within {budget} s of CPU time (stack above)", file=sys.stderr)
        sys.stderr.flush()
        sys.stdout.flush()
        os._exit(common.EXIT_MACHINERY)

    if hasattr(signal, "SIGVTALRM"):
        signal.signal(signal.SIGVTALRM, _too_long)
        signal.setitimer(signal.ITIMER_VIRTUAL, budget)      # CPU time of this process (TLC runs in child processes with their own timeouts)
    try:
        common.use_repo()
        mod = importlib.import_module("checks." + prop.lower())
        if a.replay:
            with open(a.replay) as f:
                rp = json.load(f)
            if hasattr(mod, "replay"):
                return mod.replay(rp)
            # generic replay: same seed and tier regenerate the same histories/cases; the stored key is looked for again
            os.environ["VERIF_SEED"] = str(rp.get("seed", 0))
            print("replaying", json.dumps(rp.get("key"), sort_keys=True))
            return mod.run(rp.get("tier", "quick"))
        return mod.run(a.tier)
    except MachineryError as e:
        print(f"MACHINERY-ERROR property={prop}: {e}", file=sys.stderr)
        return common.EXIT_MACHINERY
    except Exception:
        traceback.print_exc()
        print(f"MACHINERY-ERROR property={prop}: unexpected exception in the harness", file=sys.stderr)
        return common.EXIT_MACHINERY


if __name__ == "__main__":
    sys.exit(main())
