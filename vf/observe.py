"""Deep canonical observation of flow.record values: identity, not __eq__.  JSON-able output."""
import datetime as _dt, ipaddress as _ip, math, pathlib, struct
def _cls(v): return type(v).__module__.replace("flow.record.", "fr.") + "." + type(v).__qualname__
def obs_value(v, unset_default=None):
    if v is None: return {"k": "none"}
    tn = type(v).__name__
    # records first (GroupedRecord is a Record)
    import flow.record.base as B
    if isinstance(v, B.GroupedRecord): return {"k": "grouped", "name": v.name, "members": [obs_record(r) for r in v.records]}
    if isinstance(v, B.Record): return {"k": "record", **obs_record(v)}
    if isinstance(v, bool) or tn == "boolean":
        return {"k": "bool", "cls": _cls(v), "v": bool(getattr(v, "value", v))}
    if isinstance(v, _dt.datetime):
        off = v.utcoffset()
        return {"k": "datetime", "cls": _cls(v), "wall": [v.year, v.month, v.day, v.hour, v.minute, v.second, v.microsecond], "fold": v.fold,
                "offset_s": None if off is None else off.days * 86400 + off.seconds, "offset_us": None if off is None else off.microseconds}
    if isinstance(v, int): return {"k": "int", "cls": _cls(v), "v": str(int(v))}          # str: any size, JSON safe
    if isinstance(v, float): return {"k": "float", "cls": _cls(v), "bits": struct.pack(">d", v).hex()}
    if isinstance(v, str): return {"k": "str", "cls": _cls(v), "cp": [ord(c) for c in v]}
    if isinstance(v, bytes): return {"k": "bytes", "cls": _cls(v), "hex": bytes(v).hex()}
    if isinstance(v, pathlib.PurePath):
        return {"k": "path", "flavour": "windows" if isinstance(v, pathlib.PureWindowsPath) else "posix", "s": [ord(c) for c in str(v)], "empty": bool(getattr(v, "_empty_path", False))}
    if tn in ("posix_command", "windows_command", "command"):
        return {"k": "command", "flavour": "windows" if tn == "windows_command" else "posix", "exe": obs_value(v.executable), "args": None if v.args is None else [[ord(c) for c in a] for a in v.args]}
    if tn == "digest": return {"k": "digest", "md5": v.md5, "sha1": v.sha1, "sha256": v.sha256}
    if tn in ("ipaddress",): return {"k": "ip", "version": v.val.version, "v": str(int(v.val))}
    if tn in ("ipnetwork",): return {"k": "net", "version": v.val.version, "s": str(v.val)}
    if tn == "address": return {"k": "ipv4addr", "v": str(v.val)}
    if isinstance(v, (list, tuple)):
        return {"k": "list", "cls": _cls(v) if isinstance(v, B.FieldType) else "seq", "items": [obs_value(x) for x in v]}
    if isinstance(v, dict): return {"k": "dict", "items": [[obs_value(k), obs_value(x)] for k, x in v.items()]}
    return {"k": "other", "cls": _cls(v), "repr": repr(v)}
def obs_record(r):
    d = r._desc
    out = {"name": d.name, "fields": [[t, n] for t, n in d.get_field_tuples()], "values": {}}
    all_fields = list(d.get_all_fields().values())
    for f in all_fields:
        v = getattr(r, f.name)
        o = obs_value(v)
        # "unset versus empty: for typed lists and digests unset is by definition the type's empty default"
        out["values"][f.name] = o
    return out
def normalise_written(o):
    """what a written record is expected to look like after a round trip: _version is always stamped."""
    return o

