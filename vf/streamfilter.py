"""Filtering a stream through the real readers / rdump, judged by spec/Trace_StreamFilter.tla (reference semantics
of spec/Selector.tla evaluated on every record of the stream)."""
import io, json, os

from . import common, selgen as sg, tlc
from .common import MachineryError

ORDERS = {"lack-only": [1, 2, 3], "wide-first": [4, 1, 2, 3], "wide-last": [1, 2, 3, 4], "wide-middle": [1, 4, 2, 3]}
N2IDX = {1: 1, 0: 2, 100: 3, 7: 4}


def plain_env(r):
    """the record as the PLAIN json-lines reader types it: lists become their text, addresses and paths plain text"""
    out = {}
    for k, v in r.items():
        if v["t"] == "list":
            out[k] = sg.S(repr(sg.val(v)))
        elif v["t"] in ("ip", "path", "cmd"):
            out[k] = sg.S(sg.val(v))
        else:
            out[k] = v
    names = list(r.keys())
    out["$types"] = {"t": "meta", "v": {n: "string" for n in names}}
    out["$order"] = {"t": "meta", "v": names}
    return out


def run(ctx, exprs, cases, tags, prop, thorough, rdump_ctx=("bare", "not", "or_true", "and_cmp", "true_and")):
    """exprs: [(ast, tag)], cases: the make_case dicts for the same expressions (per-record engine results)"""
    from flow.record import RecordReader, RecordWriter
    from flow.record.selector import CompiledSelector, Selector
    from flow.record.tools import rdump

    frecs, D = sg.real_records()
    envs = sg.envs()
    tmp = common.scratch("sfilter")
    onames = list(ORDERS)
    streams, files = [], {}
    for o in onames:
        streams.append([envs[i - 1] for i in ORDERS[o]])
    for o in onames:
        streams.append([plain_env(sg.RECS[i - 1]) for i in ORDERS[o]])
    for o in onames:
        p = os.path.join(tmp, f"{o}.records")
        with RecordWriter(p) as w:
            for i in ORDERS[o]:
                w.write(frecs[i - 1])
        pj = os.path.join(tmp, f"{o}.json")
        with RecordWriter(pj) as w:
            for i in ORDERS[o]:
                w.write(frecs[i - 1])
        pl = os.path.join(tmp, f"{o}.jsonl")
        with open(pl, "w") as f:
            for i in ORDERS[o]:
                f.write(json.dumps({k: sg.val(v) for k, v in sg.RECS[i - 1].items()}) + "\n")
        files[o] = (p, pj, pl)

    def ids(recs, order):
        out = []
        for r in recs:
            i = N2IDX.get(int(r.n), 0)
            out.append(order.index(i) + 1 if i in order else 0)
        return out

    out_cases, metas = [], []
    for ei, ((e, tag), c) in enumerate(zip(exprs, cases)):
        s = c["src"]
        for oi, o in enumerate(onames):
            order = ORDERS[o]
            p, pj, pl = files[o]
            chans = [("stream-text", p, s, "I")]
            if thorough or o in ("wide-first", "lack-only"):
                chans += [("stream-compiled", p, "COMPILED", "C"), ("json-text", pj, s, "I")]
            if thorough or o in ("wide-first", "wide-last"):
                chans += [("jsonl-plain", pl, s, None)]
            if o == "wide-first" and tag.get("ctx") in rdump_ctx and (thorough or ei % 4 == 0):
                chans += [("rdump", p, s, "C"), ("rdump-n", p, s, "I")]
            for chan, path, sel, eng in chans:
                how, got = "end", []
                try:
                    if chan.startswith("rdump"):
                        outp = os.path.join(tmp, "out.records")
                        if os.path.exists(outp):
                            os.remove(outp)
                        rdump.main([path, "-s", s, "-w", outp] + (["-n"] if chan == "rdump-n" else []))
                        got = ids(RecordReader(outp), order)
                    else:
                        selobj = CompiledSelector(s) if sel == "COMPILED" else s
                        rd = RecordReader(path, selector=selobj)
                        try:
                            for r in rd:
                                got.append(ids([r], order)[0])
                        finally:
                            rd.close()
                except BaseException as ex:  # noqa
                    if isinstance(ex, KeyboardInterrupt):
                        raise
                    how = "raise:" + type(ex).__name__
                direct = [c[eng][i - 1] for i in order] if eng else []
                out_cases.append({"e": e, "stream": (oi + 1) + (len(onames) if chan == "jsonl-plain" else 0), "chan": chan, "out": got, "how": "end" if how == "end" else "raise",
                                  "exc": how, "direct": [{"k": d["k"], "v": d["v"]} for d in direct], "has_direct": bool(eng)})
                metas.append((ei, o, chan))
                ctx.case(("stream-filter", s, o, chan))
    path = os.path.join(common.scratch("sfilter_t"), "cases.json")
    tlc.write_json(path, {"streams": streams, "cases": out_cases})
    r = ctx.tlc("Trace_StreamFilter", "Trace_StreamFilter.cfg", f"stream filtering: {len(out_cases)} (expression, stream order, channel) cases", env={"TRACE_FILE": path}, workers=8)
    os.remove(path)
    if not any(v["inv"] == "NoneDefined" for v in r.violations):
        raise MachineryError("stream filter: no case was defined on all records (vacuous)")
    seen = set()
    for v in r.violations:
        if v["inv"] != "FilterOK":
            continue
        cid = v["state"].get("cid")
        if cid is None:
            raise MachineryError(f"cannot attribute counter-example: {v}")
        if cid in seen:
            continue
        seen.add(cid)
        ei, o, chan = metas[cid - 1]
        c = out_cases[cid - 1]
        ctx.violation({"check": "stream-filter", "how": chan, "order": o, "ended": c["how"], **{k: tags[ei][k] for k in tags[ei]}},
                      {"selector": cases[ei]["src"], "stream_order": ORDERS[o], "yielded_positions": c["out"], "ended": c["exc"]})
    ctx.count(len(out_cases), sum(len(ORDERS[m[1]]) for m in metas))
    return len(seen)
