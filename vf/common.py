"""Shared plumbing: tree under test, scratch space, seeds, exit codes."""
import atexit, os, shutil, sys, tempfile, time, warnings, logging

VERIF = os.path.dirname(os.path.dirname(os.path.abspath(__file__)))
REPO = os.environ.get("VERIF_REPO", "/repo")
SPEC = os.path.join(VERIF, "spec")

EXIT_OK, EXIT_VIOLATION, EXIT_MACHINERY = 0, 1, 2


class MachineryError(Exception):
    """The checking machinery itself failed (TLC parse error, vacuity, tool missing): exit 2, never a verdict."""


def use_repo():
    """Put the tree under test first on sys.path and make sure that is what gets imported."""
    os.environ.setdefault("PYTHONHASHSEED", "0")
    sys.dont_write_bytecode = True
    root = os.path.realpath(REPO)
    if root not in sys.path:
        sys.path.insert(0, root)
    warnings.simplefilter("ignore")
    logging.disable(logging.CRITICAL)
    import flow.record  # noqa

    got = os.path.realpath(flow.record.__file__)
    if not got.startswith(root + os.sep):
        raise MachineryError(f"flow.record imported from {got}, expected under {root}")
    return root


def in_fresh_process(module, func, arg, extra_env=None):
    """Runs checks.<module>.<func>(arg) in a NEW interpreter on the same tree under test and returns its JSON result:
    whatever a process-wide cache remembers, it has not seen anything yet."""
    import json, subprocess

    code = (f"import json, sys\nfrom vf import common\ncommon.use_repo()\nimport checks.{module} as m\n"
            f"sys.stdout.write('\\n@@RESULT@@' + json.dumps(m.{func}(json.loads(sys.argv[1]))))")
    env = dict(os.environ, PYTHONPATH=VERIF + os.pathsep + os.environ.get("PYTHONPATH", ""), PYTHONDONTWRITEBYTECODE="1", PYTHONHASHSEED="0")
    env.update(extra_env or {})
    p = subprocess.run([sys.executable, "-c", code, json.dumps(arg)], cwd=VERIF, env=env, capture_output=True, text=True, timeout=900)
    if p.returncode != 0 or "@@RESULT@@" not in p.stdout:
        raise MachineryError(f"sub-process {module}.{func}({arg!r}) failed: rc={p.returncode} {p.stderr[-400:]}")
    return json.loads(p.stdout.split("@@RESULT@@", 1)[1])


_scratch_root = None


def scratch(name=""):
    """Per-process scratch directory under /verif/.scratch, removed at exit."""
    global _scratch_root
    if _scratch_root is None:
        base = os.path.join(VERIF, ".scratch")
        os.makedirs(base, exist_ok=True)
        _scratch_root = tempfile.mkdtemp(prefix=f"run{os.getpid()}_", dir=base)
        atexit.register(shutil.rmtree, _scratch_root, True)
    if not name:
        return _scratch_root
    p = os.path.join(_scratch_root, name)
    os.makedirs(p, exist_ok=True)
    return p


def seed():
    try:
        return int(os.environ.get("VERIF_SEED", "0"))
    except ValueError:
        return 0


class Timer:
    def __init__(self):
        self.t0 = time.time()

    def s(self):
        return round(time.time() - self.t0, 2)
