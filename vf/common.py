"""Shared plumbing: tree under test, scratch space, seeds, exit codes."""
import atexit, os, shutil, sys, tempfile, time, warnings, logging

VERIF = os.path.dirname(os.path.dirname(os.path.abspath(__file__)))
REPO = os.environ.get("VERIF_REPO", "/repo")
SPEC = os.path.join(VERIF, "spec")

EXIT_OK, EXIT_VIOLATION, EXIT_MACHINERY = 0, 1, 2


class MachineryError(Exception):
    """The checking machinery itself failed (TLC parse error, vacuity, tool missing): exit 2, never a verdict."""


def use_repo():
    """Put the tree under test first on sys.path and make sure that is what gets imported."""
    os.environ.setdefault("PYTHONHASHSEED", "0")
    sys.dont_write_bytecode = True
    root = os.path.realpath(REPO)
    if root not in sys.path:
        sys.path.insert(0, root)
    warnings.simplefilter("ignore")
    logging.disable(logging.CRITICAL)
    import flow.record  # noqa

    got = os.path.realpath(flow.record.__file__)
    if not got.startswith(root + os.sep):
        raise MachineryError(f"flow.record imported from {got}, expected under {root}")
    return root


_scratch_root = None


def scratch(name=""):
    """Per-process scratch directory under /verif/.scratch, removed at exit."""
    global _scratch_root
    if _scratch_root is None:
        base = os.path.join(VERIF, ".scratch")
        os.makedirs(base, exist_ok=True)
        _scratch_root = tempfile.mkdtemp(prefix=f"run{os.getpid()}_", dir=base)
        atexit.register(shutil.rmtree, _scratch_root, True)
    if not name:
        return _scratch_root
    p = os.path.join(_scratch_root, name)
    os.makedirs(p, exist_ok=True)
    return p


def seed():
    try:
        return int(os.environ.get("VERIF_SEED", "0"))
    except ValueError:
        return 0


class Timer:
    def __init__(self):
        self.t0 = time.time()

    def s(self):
        return round(time.time() - self.t0, 2)
