"""Minimal parser for TLA+ values as printed by TLC (records, functions, sequences, sets, strings, ints,
booleans) and for the behaviour files written by `tlc -simulate file=...`."""
import re

_ID = re.compile(r"[A-Za-z_][A-Za-z0-9_]*")
_INT = re.compile(r"-?\d+")


class P:
    def __init__(self, s):
        self.s = s
        self.i = 0

    def ws(self):
        while self.i < len(self.s) and self.s[self.i].isspace():
            self.i += 1

    def peek(self, t):
        self.ws()
        return self.s.startswith(t, self.i)

    def eat(self, t):
        self.ws()
        if not self.s.startswith(t, self.i):
            raise ValueError(f"expected {t!r} at {self.i}: {self.s[self.i:self.i+40]!r}")
        self.i += len(t)

    def value(self):
        self.ws()
        c = self.s[self.i]
        if self.peek("<<"):
            self.eat("<<")
            out = []
            if self.peek(">>"):
                self.eat(">>")
                return tuple(out)
            while True:
                out.append(self.value())
                if self.peek(","):
                    self.eat(",")
                    continue
                self.eat(">>")
                return tuple(out)
        if c == "[":
            self.eat("[")
            out = {}
            while True:
                self.ws()
                m = _ID.match(self.s, self.i)
                k = m.group(0)
                self.i = m.end()
                self.eat("|->")
                out[k] = self.value()
                if self.peek(","):
                    self.eat(",")
                    continue
                self.eat("]")
                return out
        if c == "{":
            self.eat("{")
            out = []
            if self.peek("}"):
                self.eat("}")
                return frozenset()
            while True:
                out.append(_freeze(self.value()))
                if self.peek(","):
                    self.eat(",")
                    continue
                self.eat("}")
                return frozenset(out)
        if c == "(":  # function  (k :> v @@ k :> v)
            self.eat("(")
            out = {}
            while True:
                k = self.value()
                self.eat(":>")
                out[_freeze(k)] = self.value()
                if self.peek("@@"):
                    self.eat("@@")
                    continue
                self.eat(")")
                return out
        if c == '"':
            j = self.i + 1
            buf = []
            while self.s[j] != '"':
                if self.s[j] == "\\":
                    j += 1
                buf.append(self.s[j])
                j += 1
            self.i = j + 1
            return "".join(buf)
        m = _INT.match(self.s, self.i)
        if m:
            self.i = m.end()
            return int(m.group(0))
        for w, v in (("TRUE", True), ("FALSE", False)):
            if self.s.startswith(w, self.i):
                self.i += len(w)
                return v
        m = _ID.match(self.s, self.i)  # model value
        if m:
            self.i = m.end()
            return m.group(0)
        raise ValueError(f"cannot parse at {self.i}: {self.s[self.i:self.i+40]!r}")


def _freeze(v):
    if isinstance(v, dict):
        return tuple(sorted((k, _freeze(x)) for k, x in v.items()))
    if isinstance(v, (list, tuple)):
        return tuple(_freeze(x) for x in v)
    return v


def parse_value(s):
    return P(s).value()


def parse_state(body):
    """'/\\ a = 1\\n/\\ b = <<>>' -> {a: 1, b: ()}"""
    st = {}
    body = body.strip()
    if body and not body.startswith("/\\"):
        body = "/\\ " + body  # a single-variable state is printed without the conjunction bullet
    for vm in re.finditer(r"/\\ (\w+) = (.*?)(?=\n/\\ |\Z)", body, re.S):
        st[vm.group(1)] = parse_value(vm.group(2))
    return st


def parse_behaviour(text):
    """simulate trace file -> list of (action_name, args tuple, {var: value})"""
    out = []
    pat = r"\\\* <(\w+)(\(.*?\))? line .*?>\s*\nSTATE_\d+ ==\s*\n(.*?)(?=\n\n\\\*|\n\n=+|\Z)"
    for m in re.finditer(pat, text, re.S):
        name, args, body = m.group(1), m.group(2), m.group(3)
        a = tuple(parse_value("<<" + args[1:-1] + ">>")) if args else ()
        out.append((name, a, parse_state(body)))
    return out
