"""Concretisation layer: abstract value classes of spec/Values -> concrete flow.record values.

Every class label below is a class of the specification's value vocabulary (boundaries of the encoding's
case analysis are classes of their own).  Import only after vf.common.use_repo().
"""
import datetime as dt
from zoneinfo import ZoneInfo

TZ530 = dt.timezone(dt.timedelta(hours=5, minutes=30))
TZSUB = dt.timezone(dt.timedelta(seconds=-3661))
TZ0 = dt.timezone(dt.timedelta(0), "zero")
AMS = ZoneInfo("Europe/Amsterdam")
GEN = dt.datetime(2020, 1, 2, 3, 4, 5, 6, tzinfo=dt.timezone.utc)

MD5 = "d41d8cd98f00b204e9800998ecf8427e"
SHA1 = "da39a3ee5e6b4b0d3255bfef95601890afd80709"
SHA256 = "e3b0c44298fc1c149afbf4c8996fb92427ae41e4649b934ca495991b7852b855"


def value_classes():
    """typename -> list of (class label, concrete value).  None is always class 'none'."""
    import flow.record.fieldtypes as ft

    S = [("empty", ""), ("one", "a"), ("len31", "x" * 31), ("len32", "y" * 32), ("len255", "z" * 255), ("len256", "w" * 256),
         ("len65535", "q" * 65535), ("len65536", "r" * 65536), ("latin", "caf\u00e9"), ("astral", "a\U0001f600b"), ("escape", "ab\udcff\udc80"),
         ("nul", "a\x00b"), ("csvish", 'a,"b";\tc'), ("newline", "l1\nl2\r\nl3"), ("space", " lead trail "),
         # text that LOOKS like structure to a line- or bracket-counting reader
         ("brace_open", "int main(void) {"), ("brace_close", "} // end of ["), ("jsonish", '{"_type": "recorddescriptor", "x": [1, 2'),
         ("none", None)]
    INTS = [("zero", 0), ("one", 1), ("neg1", -1), ("p127", 127), ("p128", 128), ("n32", -32), ("n33", -33), ("p255", 255), ("p256", 256),
            ("p65535", 65535), ("p65536", 65536), ("p2_31m1", 2**31 - 1), ("p2_31", 2**31), ("p2_32", 2**32), ("p2_63m1", 2**63 - 1),
            ("p2_63", 2**63), ("p2_64m1", 2**64 - 1), ("p2_64", 2**64), ("n2_63", -(2**63)), ("n2_63m1", -(2**63) - 1), ("p2_200", 2**200),
            ("n2_200", -(2**200)), ("none", None)]
    T = {
        "string": S,
        "wstring": [c for c in S if c[0] in ("empty", "one", "latin", "escape", "none")],
        "uri": [("url", "http://user:pw@example.com:8080/p/a.txt?q=1#f"), ("empty", ""), ("plain", "not a url"), ("none", None)],
        "bytes": [("empty", b""), ("one", b"\x00"), ("len255", b"\x01" * 255), ("len256", b"\x02" * 256), ("len65536", b"\xff" * 65536),
                  ("text", b"hello"), ("trailnul", b"ab\x00\x00"), ("none", None)],
        "varint": INTS,
        "filesize": [c for c in INTS if c[0] in ("zero", "one", "p2_32", "p2_63m1", "p2_64", "none")],
        "unix_file_mode": [("zero", 0), ("m644", 0o644), ("m7777", 0o7777), ("none", None)],
        "uint16": [("zero", 0), ("one", 1), ("max", 0xFFFF), ("none", None)],
        "uint32": [("zero", 0), ("p65536", 65536), ("max", 0xFFFFFFFF), ("none", None)],
        "net.tcp.Port": [("zero", 0), ("p80", 80), ("max", 65535), ("none", None)],
        "net.udp.Port": [("p53", 53), ("none", None)],
        "boolean": [("true", True), ("false", False), ("none", None)],
        "float": [("zero", 0.0), ("negzero", -0.0), ("frac", 1.5), ("third", 1 / 3), ("inf", float("inf")), ("ninf", float("-inf")),
                  ("nan", float("nan")), ("subnormal", 5e-324), ("big", 1.7976931348623157e308), ("none", None)],
        "datetime": [("naive", dt.datetime(2020, 1, 1, 1, 2, 3, 456)), ("utc", dt.datetime(2021, 6, 7, 8, 9, 10, 999999, tzinfo=dt.timezone.utc)),
                     ("zero_offset_nonutc", dt.datetime(2020, 5, 5, 5, 5, 5, tzinfo=TZ0)), ("plus0530", dt.datetime(2020, 1, 1, tzinfo=TZ530)),
                     ("subminute", dt.datetime(2020, 1, 1, 12, tzinfo=TZSUB)), ("year1", dt.datetime(1, 1, 1, 0, 0, 0, 1)),
                     ("year9999", dt.datetime(9999, 12, 31, 23, 59, 59, 999999)), ("y1969", dt.datetime(1969, 12, 31, 23, 59, 59, 1)),
                     ("y2038", dt.datetime(2038, 1, 19, 3, 14, 8)), ("zone", dt.datetime(2021, 7, 1, 12, 0, tzinfo=AMS)),
                     ("fold0", dt.datetime(2021, 10, 31, 2, 30, tzinfo=AMS)), ("fold1", dt.datetime(2021, 10, 31, 2, 30, fold=1, tzinfo=AMS)),
                     ("gap", dt.datetime(2021, 3, 28, 2, 30, tzinfo=AMS)), ("none", None)],
        "path": [("posix_abs", "/a/b c/d.txt"), ("posix_rel", "a/b"), ("windows", ft.path.from_windows("c:\\a\\b.txt")),
                 ("unc", ft.path.from_windows("\\\\srv\\share\\x")),
                 # POSIX paths that LOOK like Windows paths: a backslash in a file name, a colon as second character
                 ("posix_backslash", ft.path.from_posix("/tmp/back\\slash.txt")), ("posix_colon", ft.path.from_posix("a:b")), ("posix_drive_like", ft.path.from_posix("c:/data")),
                 ("empty", ""), ("dot", "."), ("escape", "/x/\udcfe"), ("none", None)],
        "command": [("posix", "ls -la 'a b'"), ("posix_noargs", "/bin/true"), ("windows", "c:\\x.exe /a b"), ("winenv", "%windir%\\x.exe"),
                    ("win_noexe", ft.command.from_windows(None)), ("posix_noexe", ft.command.from_posix(None)), ("win_explicit", ft.command.from_windows("x.exe /a")),
                    ("posix_explicit", ft.command.from_posix("x.exe /a")),
                    # an EMPTY executable (a command line that starts with an empty quoted string) is not a missing one
                    ("posix_empty_exe", ft.command.from_posix("'' --config x")), ("win_empty_exe", ft.command.from_windows('"" /c dir')), ("posix_only_empty", ft.command.from_posix("''")),
                    ("none", None)],
        "digest": [("md5", (MD5, None, None)), ("all", (MD5, SHA1, SHA256)), ("sha", (None, SHA1, SHA256)), ("none", None)],
        "net.ipaddress": [("v4", "1.2.3.4"), ("v4_zero", "0.0.0.0"), ("v4_max", "255.255.255.255"), ("v6", "2001:db8::1"),
                          ("v6_below_2_32", "::1"), ("v6_zero", "::"), ("v6_mapped", "::ffff:1.2.3.4"),
                          ("v6_at_2_32_minus_1", "::ffff:ffff"), ("v6_at_2_32", "::1:0:0"), ("v6_at_2_64_minus_1", "::ffff:ffff:ffff:ffff"), ("v6_at_2_64", "::1:0:0:0:0"),
                          ("v6_max", "ffff:ffff:ffff:ffff:ffff:ffff:ffff:ffff"), ("none", None)],
        "net.ipnetwork": [("v4", "10.0.0.0/8"), ("v4_host", "1.2.3.4/32"), ("v6", "2001:db8::/32"), ("v6_all", "::/0"), ("v4_all", "0.0.0.0/0"), ("none", None)],
        "net.IPAddress": [("v4", "9.8.7.6"), ("v6", "fe80::1"), ("none", None)],
        "net.IPNetwork": [("v4", "192.168.0.0/16"), ("none", None)],
        "net.ipv4.Address": [("v4", "1.2.3.4"), ("none", None)],
        "stringlist": [("two", ["a", "b"]), ("empty", []), ("none", None)],
        "dictlist": [("one", [{"a": 1, "b": None}]), ("two", [{"a": "x"}, {"c": True}]), ("empty", []), ("none", None)],
        "dynamic": [("str", "s"), ("int", 5), ("bigint", 2**70), ("bytes", b"b"), ("bool", True), ("dt", dt.datetime(2020, 1, 1)), ("list", ["a", "b"]),
                    ("path", ft.path("/p/q")), ("none", None)],
    }
    return T


# types whose typed-list form T[] is exercised
LISTABLE = ["string", "bytes", "varint", "uint16", "uint32", "boolean", "float", "datetime", "path", "digest", "net.ipaddress", "net.ipnetwork",
            "uri", "filesize", "command", "net.tcp.Port", "wstring", "unix_file_mode"]


def typename_slug(t):
    return t.replace(".", "_").replace("[]", "_l").lower()


_DESC_CACHE = {}


def desc_for(typename, extra=()):
    from flow.record import RecordDescriptor

    key = (typename, tuple(extra))
    if key not in _DESC_CACHE:
        _DESC_CACHE[key] = RecordDescriptor("t/" + typename_slug(typename), [(typename, "f")] + list(extra))
    return _DESC_CACHE[key]


def inner_desc():
    from flow.record import RecordDescriptor

    return RecordDescriptor("t/inner", [("string", "q"), ("varint", "n")])


def sample_streams(rnd, n_streams, n_records):
    """Record sequences mixing several descriptors, nested and grouped records, for framing-level checks."""
    from flow.record import GroupedRecord, RecordDescriptor

    A = RecordDescriptor("s/a", [("string", "a"), ("varint", "n")])
    B = RecordDescriptor("s/b", [("bytes", "b"), ("string[]", "l"), ("datetime", "ts")])
    H = RecordDescriptor("s/h", [("record", "r"), ("record[]", "rl")])
    C = RecordDescriptor("s/c", [("path", "p"), ("net.ipaddress", "ip"), ("digest", "d"), ("float", "x"), ("boolean", "ok")])
    A2 = RecordDescriptor("s/a", [("varint", "a")])
    vc = value_classes()

    def pick(t):
        while True:
            label, v = rnd.choice(vc[t])
            if not (isinstance(v, (str, bytes)) and len(v) > 300):
                return v

    def mk(kind):
        kw = dict(_generated=GEN, _source=rnd.choice([None, "src"]))
        if kind == "A":
            return A(pick("string"), pick("varint"), **kw)
        if kind == "A2":
            return A2(pick("varint"), **kw)
        if kind == "B":
            return B(rnd.choice([b"", b"\x00" * rnd.randint(1, 300), None]), [rnd.choice(["", "x", "\udcff"]) for _ in range(rnd.randint(0, 3))], pick("datetime"), **kw)
        if kind == "C":
            return C(rnd.choice(["/a/b", None, ""]), rnd.choice(["1.2.3.4", "2001:db8::1", None]), rnd.choice([(MD5, None, None), None]), pick("float"), pick("boolean"), **kw)
        if kind == "H":
            return H(mk(rnd.choice("AB")), [mk(rnd.choice("AC")) for _ in range(rnd.randint(0, 2))], **kw)
        if kind == "G":
            return GroupedRecord("s/g", [mk("A"), mk(rnd.choice("BC"))])
        raise ValueError(kind)

    out = []
    for _ in range(n_streams):
        out.append([mk(rnd.choice(["A", "A", "B", "C", "H", "G", "A2"])) for _ in range(rnd.randint(*n_records))])
    return out


def fixed_streams():
    """hand-made record sequences for framing-level checks: a type whose fields change while its name stays (schema
    change), in both orders and interleaved; two types whose identifiers coincide; a type without fields"""
    from flow.record import RecordDescriptor

    A = RecordDescriptor("s/a", [("string", "a"), ("varint", "n")])
    A2 = RecordDescriptor("s/a", [("varint", "a")])
    A3 = RecordDescriptor("s/a", [("string", "a"), ("varint", "n"), ("string", "more")])
    X = RecordDescriptor("t/x", [("string", "a"), ("string", "b")])
    Xc = RecordDescriptor("t/x", [("string", "astringb")])
    Z = RecordDescriptor("s/z", [])
    kw = dict(_generated=GEN)
    from flow.record import GroupedRecord

    # grouped records with the same group name and the same flattened fields whose MEMBER types differ
    E1 = RecordDescriptor("fs/entry", [("string", "path"), ("varint", "size")])
    E2 = RecordDescriptor("fs/ntfs/entry", [("string", "path"), ("varint", "size")])
    M = RecordDescriptor("hit/meta", [("string", "rule")])
    # type names that differ only in "/" versus "_" with identical fields (their generated classes have the same name)
    U1 = RecordDescriptor("browser/chrome_history", [("string", "url"), ("varint", "n")])
    U2 = RecordDescriptor("browser_chrome/history", [("string", "url"), ("varint", "n")])

    def G(e, i):
        return GroupedRecord("grouped/hit", [e("/p%d" % i, i, **kw), M("r%d" % i, **kw)])

    extra = [
        [G(E1, 1), G(E2, 2), G(E1, 3), G(E2, 4)],
        [G(E2, 1), E1("/q", 9, **kw), G(E1, 2)],
        [U1("u1", 1, **kw), U2("u2", 2, **kw), U1("u3", 3, **kw), U2("u4", 4, **kw)],
        [U2("u1", 1, **kw), U1("u2", 2, **kw)],
    ]
    # member types whose FIELD names are what a grouped record calls its own attributes
    Nm = RecordDescriptor("member/named", [("string", "name"), ("varint", "records")])
    Nd = RecordDescriptor("member/other", [("string", "descriptors"), ("string", "flat_fields")])
    return extra + [
        [A("one", 1, **kw), A2(2, **kw), A("three", 3, **kw), A2(4, **kw), A3("five", 5, "m", **kw), A("six", 6, **kw)],
        [A2(1, **kw), A("two", 2, **kw), A2(3, **kw), Z(**kw), A3("x", 4, "y", **kw), A3("x", 5, "z", **kw)],
        [X("1", "2", **kw), Xc("3", **kw), X("4", "5", **kw), Xc("6", **kw)],
        [GroupedRecord("grp/attrs", [Nm("the member's own name", 7, **kw), Nd("d", "f", **kw)]), Nm("plain", 8, **kw), GroupedRecord("grp/attrs2", [Nd("d2", "f2", **kw), Nm("second member's name", 9, **kw)])],
    ]


def many_types_stream(n=1100, every=97):
    """more distinct record types in one stream than any table of a plausible fixed size holds, with ONE type that keeps
    recurring in between (a heartbeat record in a long-running job)"""
    from flow.record import RecordDescriptor

    kw = dict(_generated=GEN)
    H = RecordDescriptor("many/heartbeat", [("varint", "seq"), ("string", "s")])
    out = [H(0, "first", **kw)]
    for i in range(n):
        T = RecordDescriptor("many/t", [("varint", "n"), ("string", "f%d" % i)])          # the same name, another field list each time
        out.append(T(i, "v", **kw))
        if i % every == every - 1:
            out.append(H(i, "again", **kw))
    out.append(H(n, "last", **kw))
    return out


def big_streams():
    """a stream with frames far beyond 64 KiB whose content compresses very well (and one that does not)"""
    import random

    from flow.record import RecordDescriptor

    B = RecordDescriptor("s/big", [("bytes", "blob"), ("string", "text"), ("varint", "n")])
    kw = dict(_generated=GEN)
    rnd = random.Random(5)
    noise = bytes(rnd.getrandbits(8) for _ in range(70000))
    return [[B(b"x", "small", 1, **kw), B(b"\x00" * 200000, "z" * 70000, 2, **kw), B(b"y", "after the big one", 3, **kw), B(noise, "noise", 4, **kw), B(b"", "last", 5, **kw)]]


def churn_streams():
    """descriptor CHURN: a long-lived writer is fed records whose (equal) descriptors are re-created for every job and
    freed again, interleaved with records of brand-new types -- the objects come and go and their addresses are
    recycled.  The entries are thunks: each record is created only when it is about to be written."""
    import gc

    from flow.record import RecordDescriptor

    kw = dict(_generated=GEN)
    out = []
    for variant in range(2):
        recs = []
        for job in range(40):
            def same(job=job):
                D = RecordDescriptor("churn/same", [("string", "a"), ("varint", "n")])       # an equal copy, new object
                return D("job%d" % job, job, **kw)

            def new(job=job, variant=variant):
                if variant:
                    gc.collect()
                N = RecordDescriptor("churn/new%d" % job, [("string", "b%d" % (job % 3))])    # a type never seen before
                return N("x", **kw)
            recs += [same, same, same, new] if job % 2 == 0 else [same, new]
        out.append(recs)
    # the SAME record object written twice with one of its values changed in between -- directly on the (member) record
    from flow.record import GroupedRecord

    P = RecordDescriptor("mut/plain", [("string", "a"), ("varint", "n")])
    M = RecordDescriptor("mut/member", [("string", "rule")])
    plain = P("first", 1, **kw)
    grouped = GroupedRecord("mut/grouped", [P("in-group", 2, **kw), M("rule-1", **kw)])

    def again_plain():
        plain.a = "second"
        return plain

    def again_grouped():
        grouped.records[1].rule = "rule-2"          # not through the grouped view
        return grouped

    def third_grouped():
        grouped.records[0].n = 3
        return grouped
    out.append([lambda: plain, lambda: grouped, again_plain, again_grouped, third_grouped, lambda: plain])
    return out


def fixed_streams_intent():
    """type names the records of fixed_streams() were CREATED with (for a grouped record: its members'), written down
    by hand: a record object that no longer carries the descriptor it was created with cannot vouch for itself"""
    g1, g2 = ["fs/entry", "hit/meta"], ["fs/ntfs/entry", "hit/meta"]
    u1, u2 = ["browser/chrome_history"], ["browser_chrome/history"]
    a, x, z = ["s/a"], ["t/x"], ["s/z"]
    return [[g1, g2, g1, g2], [g2, ["fs/entry"], g1], [u1, u2, u1, u2], [u2, u1], [a, a, a, a, a, a], [a, a, a, z, a, a], [x, x, x, x],
            [["member/named", "member/other"], ["member/named"], ["member/other", "member/named"]]]


def names_of(rec):
    from flow.record import GroupedRecord

    if isinstance(rec, GroupedRecord):
        return [m._desc.name for m in rec.records]
    return [rec._desc.name]


def random_values(T, rnd, n):
    """seeded random values inside the classes of a type (used on top of the boundary representatives)"""
    import struct

    out = []
    for i in range(n):
        if T in ("varint", "filesize", "dynamic"):
            bits = rnd.choice([1, 7, 8, 15, 16, 31, 32, 33, 63, 64, 65, 100, 200])
            v = rnd.getrandbits(bits) + rnd.choice([-1, 0, 1])
            out.append(("rnd", v if T == "filesize" else rnd.choice([v, -v])))
        elif T in ("uint16", "net.tcp.Port", "net.udp.Port"):
            out.append(("rnd", rnd.randint(0, 0xFFFF)))
        elif T == "uint32":
            out.append(("rnd", rnd.randint(0, 0xFFFFFFFF)))
        elif T in ("string", "wstring", "uri"):
            L = rnd.choice([0, 1, 30, 31, 32, 33, 254, 255, 256, 257, rnd.randint(0, 400)])
            alphabet = ["a", "Z", "0", " ", "\n", "\t", '"', "'", "\\", ",", "é", "ß", "中", "\U0001f600", "\udc80", "\udcff", "\x00", "\x7f"]
            out.append(("rnd", "".join(rnd.choice(alphabet) for _ in range(L))))
        elif T == "bytes":
            L = rnd.choice([0, 1, 254, 255, 256, 257, rnd.randint(0, 600)])
            out.append(("rnd", bytes(rnd.getrandbits(8) for _ in range(L))))
        elif T == "float":
            v = struct.unpack(">d", struct.pack(">Q", rnd.getrandbits(64)))[0]
            out.append(("rnd", v))
        elif T == "datetime":
            tz = rnd.choice([None, dt.timezone.utc, TZ530, TZSUB, dt.timezone(dt.timedelta(minutes=rnd.randint(-14 * 60, 14 * 60))), AMS, ZoneInfo("America/New_York")])
            try:
                out.append(("rnd", dt.datetime(rnd.randint(1, 9999), rnd.randint(1, 12), rnd.randint(1, 28), rnd.randint(0, 23), rnd.randint(0, 59), rnd.randint(0, 59), rnd.randint(0, 999999), tzinfo=tz)))
            except Exception:
                pass
        elif T in ("net.ipaddress", "net.IPAddress"):
            import ipaddress as ipa

            if rnd.random() < 0.5:
                a = ipa.IPv4Address(rnd.getrandbits(rnd.choice([8, 31, 32])))
            else:
                a = ipa.IPv6Address(rnd.getrandbits(rnd.choice([1, 16, 31, 32, 33, 63, 64, 65, 128])))
            out.append(("rnd", str(a)))
        elif T == "boolean":
            out.append(("rnd", rnd.random() < 0.5))
        elif T == "path":
            parts = [rnd.choice(["a", "b c", "é", "..", ".", "x.txt", "\udcfe"]) for _ in range(rnd.randint(0, 4))]
            out.append(("rnd", ("/" if rnd.random() < 0.5 else "") + "/".join(parts)))
    return out
