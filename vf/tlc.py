"""TLC runner and output parser.

Every run happens in the spec directory with a private -metadir under the scratch directory. The parser
extracts: summary counts, per-action coverage, every invariant / action-property violation (with the last
state of its counter-example parsed into Python values), PrintT output and hard errors.
"""
import os, re, subprocess, time, shutil
from . import common, tlaval
from .common import MachineryError

JAR = "/opt/veriftools/tla/tla2tools.jar"
CP = JAR + ":/opt/veriftools/tla/CommunityModules-deps.jar"


class TlcResult:
    def __init__(self):
        self.generated = 0
        self.distinct = 0
        self.depth = 0
        self.initial = 0
        self.violations = []  # [{"inv": name, "state": {...}, "trace_len": n}]
        self.errors = []  # hard errors (parse, evaluation)
        self.actions = {}  # action name -> (distinct, generated)
        self.prints = []
        self.wall_s = 0.0
        self.output = ""
        self.cmd = ""

    @property
    def transitions(self):
        return max(self.generated - self.initial, 0)


_RE_SUMMARY = re.compile(r"(\d+) states generated, (\d+) distinct states found")
_RE_DEPTH = re.compile(r"The depth of the complete state graph search is (\d+)")
_RE_INIT = re.compile(r"Finished computing initial states: (\d+) distinct state")
_RE_ACTION = re.compile(r"^<(\w+) line \d+, col \d+ to line \d+, col \d+ of module (\w+)>: (\d+):(\d+)", re.M)
_RE_SIM = re.compile(r"The number of states generated: (\d+)")


def _parse_violations(out):
    vios = []
    # split on "Error: " blocks
    parts = re.split(r"^Error: ", out, flags=re.M)
    i = 1
    while i < len(parts):
        blk = parts[i]
        m = re.match(r"(?:Invariant|Action property) (\S+) is violated( by the initial state:)?\.?", blk)
        if m:
            name = m.group(1)
            if m.group(2):
                body = blk[m.end():]
                states = [body]
            else:
                # next block is "The behavior up to this point is:"
                body = parts[i + 1] if i + 1 < len(parts) else ""
                states = re.split(r"^State \d+: .*$", body, flags=re.M)[1:]
                i += 1
            last = states[-1] if states else ""
            # cut at blank line
            last = last.strip("\n").split("\n\n")[0]
            try:
                st = tlaval.parse_state(last)
            except Exception as e:  # keep raw when unparsable
                st = {"_raw": last[:2000], "_parse_error": repr(e)}
            vios.append({"inv": name, "state": st, "trace_len": len(states)})
        i += 1
    return vios


_HARD = (
    "Parsing or semantic analysis failed",
    "TLC threw an unexpected exception",
    "Evaluating assumption",
    "Assumption line",
    "The exception was a",
    "was violated",  # "Assumption ... is false" variants handled below
    "In evaluation, the identifier",
    "Attempted to",
    "TLC encountered",
    "java.lang.",
    "Error: Deadlock reached",
    "is not a ",
    "The first argument of",
    "Too many possible next states",
)


def run(module, cfg, env=None, workers=16, cont=True, coverage=False, simulate=None, depth=None,
        seed=None, timeout=1800, extra=None, heap=None):
    """Run TLC on spec/<module>.tla with spec/<cfg>. Returns TlcResult; raises MachineryError on hard errors."""
    meta = common.scratch("tlcmeta_%d" % int(time.time() * 1000 % 10**9))
    cmd = ["java", "-XX:+UseParallelGC"]
    if heap:
        cmd.append(f"-Xmx{heap}")
    cmd += ["-cp", CP, "tlc2.TLC", "-workers", str(workers), "-metadir", meta, "-noGenerateSpecTE"]
    if cont:
        cmd.append("-continue")
    if coverage:
        cmd += ["-coverage", "1"]
    if simulate:
        cmd += ["-simulate", simulate]
    if depth:
        cmd += ["-depth", str(depth)]
    if seed is not None:
        cmd += ["-seed", str(seed)]
    if extra:
        cmd += list(extra)
    cmd += ["-config", cfg, module + ".tla"]
    e = dict(os.environ)
    if env:
        e.update({k: str(v) for k, v in env.items()})
    t0 = time.time()
    try:
        p = subprocess.run(cmd, cwd=common.SPEC, env=e, stdout=subprocess.PIPE, stderr=subprocess.STDOUT,
                           timeout=timeout, text=True, errors="replace")
    except subprocess.TimeoutExpired as ex:
        raise MachineryError(f"TLC timed out after {timeout}s on {module}/{cfg}") from ex
    finally:
        shutil.rmtree(meta, ignore_errors=True)
    r = TlcResult()
    r.wall_s = round(time.time() - t0, 2)
    r.output = out = p.stdout
    r.cmd = " ".join(cmd[cmd.index("tlc2.TLC"):])
    m = _RE_SUMMARY.findall(out)
    if m:
        r.generated, r.distinct = int(m[-1][0]), int(m[-1][1])
    else:
        m = _RE_SIM.findall(out)
        if m:
            r.generated = r.distinct = int(m[-1])
    m = _RE_DEPTH.search(out)
    if m:
        r.depth = int(m.group(1))
    m = _RE_INIT.search(out)
    if m:
        r.initial = int(m.group(1))
    for a in _RE_ACTION.finditer(out):
        name = a.group(1)
        d, g = int(a.group(3)), int(a.group(4))
        od, og = r.actions.get(name, (0, 0))
        r.actions[name] = (od + d, og + g)
    r.violations = _parse_violations(out)
    for line in out.splitlines():
        if line.startswith("Error: ") and not re.match(r"Error: (Invariant|Action property) \S+ is violated", line) \
                and not line.startswith("Error: The behavior up to this point is") \
                and not line.startswith("Error: The following behavior constitutes"):
            r.errors.append(line)
    finished = ("Model checking completed" in out) or ("Finished in" in out) or simulate
    if r.errors or not finished or p.returncode not in (0, 12, 13):
        # 12/13: violation exit codes without -continue
        if r.errors or not finished:
            tail = "\n".join(out.splitlines()[-40:])
            raise MachineryError(f"TLC failed on {module}/{cfg} (rc={p.returncode}):\n" + "\n".join(r.errors[:5]) + "\n" + tail)
    return r


def require_actions(res, names, module):
    """Vacuity guard: every named action must have been taken at least once (needs coverage=True)."""
    missing = [n for n in names if res.actions.get(n, (0, 0))[1] == 0]
    if missing:
        raise MachineryError(f"vacuity: actions never taken in {module}: {missing}")


def _sanitize(x):
    """JSON for TLC: no nulls (JsonDeserialize rejects them), integers within 32 bits, no floats."""
    if x is None:
        return "none"
    if isinstance(x, bool):
        return x
    if isinstance(x, int):
        return x if -(2**31) < x < 2**31 else str(x)
    if isinstance(x, float):
        return repr(x)
    if isinstance(x, dict):
        return {str(k): _sanitize(v) for k, v in x.items()}
    if isinstance(x, (list, tuple)):
        return [_sanitize(v) for v in x]
    return x


def write_json(path, obj):
    import json

    with open(path, "w") as f:
        json.dump(_sanitize(obj), f)
    return path
