"""Selector grammar: abstract syntax (as JSON for spec/Selector.tla), rendering to source text, records,
and evaluation by CPython's eval (cross-validation of the reference semantics) and by both engines."""
import itertools

# ---------- tagged values ----------
def I(n): return {"t": "int", "v": n}
def B(b): return {"t": "bool", "v": bool(b)}
NN = {"t": "none"}
def S(s): return {"t": "str", "v": [ord(c) for c in s]}
def LI(xs): return {"t": "list", "v": list(xs)}
def TU(xs): return {"t": "tuple", "v": list(xs)}
def IP(s): return {"t": "ip", "v": [ord(c) for c in s]}
def PA(s): return {"t": "path", "v": [ord(c) for c in s]}
def CM(s): return {"t": "cmd", "v": [ord(c) for c in s]}


def val(v):
    t = v["t"]
    if t in ("int", "bool"): return v["v"]
    if t == "none": return None
    if t in ("str", "ip", "path", "cmd"): return "".join(map(chr, v["v"]))
    if t == "list": return [val(x) for x in v["v"]]
    if t == "tuple": return tuple(val(x) for x in v["v"])
    raise ValueError(t)


# ---------- expressions ----------
def C(v): return {"k": "const", "v": v}
def F(f): return {"k": "field", "f": f}
V = {"k": "var"}
def LST(*es): return {"k": "list", "es": list(es)}
def TUP(*es): return {"k": "tuple", "es": list(es)}
def CMP(op, a, b): return {"k": "cmp", "op": op, "a": a, "b": b}
def CHAIN(op, op2, a, b, c): return {"k": "chain", "op": op, "op2": op2, "a": a, "b": b, "c": c}
def BOOL(op, a, b): return {"k": "bool", "op": op, "a": a, "b": b}
def NOT(a): return {"k": "not", "a": a}
def NEG(a): return {"k": "neg", "a": a}
def BIN(op, a, b): return {"k": "bin", "op": op, "a": a, "b": b}
def CALL(f, a): return {"k": "call", "f": f, "a": a}
def GEN(q, it, elt, cond=None):
    return {"k": "gen", "q": q, "it": it, "elt": elt, "hasif": cond is not None, "cond": cond if cond is not None else C(B(True))}
def GEN2(q, it1, cond1, it2, elt):
    """any/all(elt for x in it1 if cond1 for y in it2): the filter sits on the OUTER clause"""
    return {"k": "gen2", "q": q, "it": it1, "cond": cond1, "it2": it2, "elt": elt}
V2 = {"k": "var2"}
def LISTCOMP(it, elt, cond=None):
    return {"k": "listcomp", "it": it, "elt": elt, "cond": cond if cond is not None else C(B(True))}
def HELPER(f, fields, strs): return {"k": "helper", "f": f, "fields": list(fields), "strs": [[ord(c) for c in s] for s in strs]}
def SUBSCR(a, i): return {"k": "sub", "a": a, "i": i}
def IFEXP(c, a, b): return {"k": "ifexp", "c": c, "a": a, "b": b}
def CTOR(f, arg): return {"k": "ctor", "f": f, "arg": [ord(c) for c in arg]}
def TREF(ty): return {"k": "tref", "ty": ty}
def HASFIELD(f): return {"k": "hasfield", "f": f}
def TYPED(ty, op, b): return {"k": "typed", "form": "cmp", "ty": ty, "op": op, "b": b}
def INTYPED(ty, b): return {"k": "typed", "form": "in", "ty": ty, "op": "In", "b": b}

OPS = {"Eq": "==", "NotEq": "!=", "Lt": "<", "LtE": "<=", "Gt": ">", "GtE": ">=", "In": "in", "NotIn": "not in", "Add": "+", "Mult": "*", "Mod": "%",
       "Div": "/", "BitAnd": "&", "BitOr": "|", "And": "and", "Or": "or", "Sub": "-", "FloorDiv": "//"}
CMPOPS = ["Eq", "NotEq", "Lt", "LtE", "Gt", "GtE", "In", "NotIn"]
BINOPS_SUP = ["Add", "Mult", "Mod", "Div", "BitAnd", "BitOr"]
BINOPS_UNSUP = ["Sub", "FloorDiv"]


def src(e, vn="x"):
    """vn: the name of the enclosing generator expression's loop variable"""
    k = e["k"]
    _src, src = src_, (lambda x: src_(x, vn))
    if k == "const": return repr(val(e["v"]))
    if k == "field": return "r." + e["f"]
    if k == "var": return vn
    if k == "var2": return "y"
    if k == "gen2":
        return f"{e['q']}({_src(e['elt'], 'x')} for x in {src(e['it'])} if {_src(e['cond'], 'x')} for y in {_src(e['it2'], 'x')})"
    if k == "tref": return "Type." + e["ty"]
    if k == "list": return "[" + ", ".join(src(x) for x in e["es"]) + "]"
    if k == "tuple": return "(" + ", ".join(src(x) for x in e["es"]) + ("," if len(e["es"]) == 1 else "") + ")"
    if k in ("cmp", "bool", "bin"): return f"({src(e['a'])} {OPS[e['op']]} {src(e['b'])})"
    if k == "chain": return f"({src(e['a'])} {OPS[e['op']]} {src(e['b'])} {OPS[e['op2']]} {src(e['c'])})"
    if k == "not": return f"(not {src(e['a'])})"
    if k == "neg": return f"(-{src(e['a'])})"
    if k == "call": return f"{e['f']}({src(e['a'])})"
    if k == "gen":
        v2 = e.get("vn", "x")
        s = f"{e['q']}({_src(e['elt'], v2)} for {v2} in {src(e['it'])}"
        if e["hasif"]: s += f" if {_src(e['cond'], v2)}"
        return s + ")"
    if k == "listcomp":
        return f"[{_src(e['elt'], 'x')} for x in {src(e['it'])} if {_src(e['cond'], 'x')}]"
    if k == "helper":
        strs = ["".join(map(chr, q)) for q in e["strs"]]
        if e["f"] == "field_regex":
            return f"field_regex(r, {e['fields']!r}, {strs[0]!r})"
        return f"{e['f']}(r, {e['fields']!r}, {strs!r})"
    if k == "sub": return f"{src(e['a'])}[{e['i']}]"
    if k == "ifexp": return f"({src(e['a'])} if {src(e['c'])} else {src(e['b'])})"
    if k == "ctor": return f"{e['f']}({''.join(map(chr, e['arg']))!r})"
    if k == "hasfield": return f"has_field(r, {e['f']!r})"
    if k == "typed":
        if e["form"] == "cmp": return f"(Type.{e['ty']} {OPS[e['op']]} {src(e['b'])})"
        return f"({src(e['b'])} in Type.{e['ty']})"
    raise ValueError(k)


src_ = src


def supported_interpreted(e):
    """Is the expression inside the documented language of the interpreted engine?"""
    k = e["k"]
    if k in ("neg", "sub", "ifexp", "listcomp"): return False
    if k == "bin" and e["op"] in BINOPS_UNSUP: return False
    for key in ("a", "b", "c", "it", "elt", "cond", "it2"):
        if key in e and isinstance(e[key], dict) and not supported_interpreted(e[key]): return False
    for x in e.get("es", []):
        if not supported_interpreted(x): return False
    return True


def walk(e):
    yield e
    for key in ("a", "b", "c", "it", "elt", "cond", "it2"):
        if key in e and isinstance(e[key], dict):
            yield from walk(e[key])
    for x in e.get("es", []):
        yield from walk(x)


# ---------- records ----------
FIELDS = [("varint", "n"), ("string", "s"), ("string[]", "l"), ("string", "z"), ("boolean", "t"), ("net.ipaddress", "ip"), ("path", "p"), ("string", "w")]
FIELD_C = ("command", "c")     # only the C08 grammar's in-memory records carry it (the JSON adapter does not claim command fields)
RECS = [
    {"n": I(1), "s": S("Ab"), "l": LI([S("a"), S("b")]), "z": NN, "t": B(True), "ip": IP("10.0.0.1"), "p": PA("/a/B"), "w": S("a"), "c": CM("ls -l")},
    {"n": I(0), "s": S(""), "l": LI([]), "z": NN, "t": B(False), "ip": IP("10.0.0.2"), "p": PA("/a"), "w": S("zz"), "c": CM("x")},
    {"n": I(100), "s": S("a"), "l": LI([S("Ab")]), "z": NN, "t": B(True), "ip": NN, "p": NN, "w": S("b"), "c": NN},
    # a record of ANOTHER descriptor with the same type name that HAS the field `m` the others lack
    {"n": I(7), "s": S("a"), "l": LI([S("a")]), "z": NN, "t": B(False), "ip": NN, "p": NN, "w": S("a"), "c": CM("ls -l"), "m": S("a")},
]
FIELDS_M = FIELDS + [("string", "m")]


GROUPED_OTHER = {"q": S("a"), "n": I(55)}      # second member of the grouped record: field q is new, n is shadowed by the first member


def envs(with_c=False, grouped=False):
    """the records as environments for spec/Selector.tla (with the field-type table the typed matchers need).
    grouped: append the environment of a GROUPED record made of record 1 and another record (first member wins)"""
    out = []
    for r in RECS:
        fl = (FIELDS_M if "m" in r else FIELDS) + ([FIELD_C] if with_c else [])
        r = {k: v for k, v in r.items() if with_c or k != "c"}
        out.append(dict(r, **{"$types": {"t": "meta", "v": {n: t for t, n in fl}}, "$order": {"t": "meta", "v": [n for t, n in fl]}}))
    if grouped:
        first = out[0]
        env = dict(first)
        env["q"] = GROUPED_OTHER["q"]
        env["$types"] = {"t": "meta", "v": dict(first["$types"]["v"], q="string")}
        env["$order"] = {"t": "meta", "v": first["$order"]["v"] + ["q"]}
        out.append(env)
    return out
MISSING = ["m", "m2"]   # field names no record has


class _R:
    def __init__(self, d): self.__dict__.update(d)


class _Missing:
    """what a well-behaved missing-field sentinel is for plain Python: only used so that CPython's eval has a
    value for r.m in cross-validation; cases with a missing field are cross-validated against the C08 rule
    (every comparison False) by the specification itself, so py is recorded as 'exc' for them"""


def _lower(s): return s.lower() if isinstance(s, str) else s
def _upper(s): return s.upper() if isinstance(s, str) else s


def py_eval(code, recd):
    ns = {"r": _R(recd), "lower": _lower, "upper": _upper, "str": str, "any": any, "all": all}
    try:
        return {"k": "ok", "v": bool(eval(code, ns))}
    except Exception:
        return {"k": "exc", "v": False}


def real_records(with_c=False, grouped=False):
    from flow.record import GroupedRecord, RecordDescriptor

    extra = [FIELD_C] if with_c else []
    D = RecordDescriptor("t/sel", FIELDS + extra)
    DM = RecordDescriptor("t/sel", FIELDS_M + extra)
    recs = [(DM if "m" in r else D)(**{k: val(v) for k, v in r.items() if with_c or k != "c"}, _generated=None) for r in RECS]
    if grouped:
        O = RecordDescriptor("t/other", [("string", "q"), ("varint", "n")])
        first = (D)(**{k: val(v) for k, v in RECS[0].items() if with_c or k != "c"}, _generated=None)
        recs.append(GroupedRecord("g/sel", [first, O(**{k: val(v) for k, v in GROUPED_OTHER.items()}, _generated=None)]))
    return recs, D


def nested_records():
    """records that HOLD records (one and two levels deep, in `record` and `record[]` fields) for the typed matchers, with
    their environments: (real records, environments).  The outer fields carry values the usual constants do not match, so
    a match has to come from the depth it sits at."""
    from flow.record import RecordDescriptor

    Deep = RecordDescriptor("t/deep", [("string", "dq"), ("varint", "dk"), ("boolean", "db")])
    Inner = RecordDescriptor("t/inner", [("string", "iq"), ("varint", "ik"), ("record", "deeper")])
    Outer = RecordDescriptor("t/outer", [("string", "s"), ("varint", "n"), ("record", "sub"), ("record[]", "subs")])

    def env(fields, vals, subs):
        e = {n: v for (t, n), v in zip(fields, vals)}
        e["$types"] = {"t": "meta", "v": {n: t for t, n in fields}}
        e["$order"] = {"t": "meta", "v": [n for t, n in fields]}
        e["$sub"] = {"t": "meta", "v": subs}
        return e

    REC = {"t": "rec", "v": []}
    fd, fi, fo = Deep.get_field_tuples(), Inner.get_field_tuples(), Outer.get_field_tuples()
    shapes = [
        # (outer s, outer n, inner (iq, ik, deep (dq, dk, db)) | None, [elements of subs as deep tuples])
        ("q", 9, ("x", 5, ("zz", 50, True)), [("b", 1, False)]),
        ("q", 9, ("a", 1, None), []),
        ("q", 9, None, [("a", 100, True), ("zz", 0, False)]),
        ("a", 1, ("x", 5, ("y", 6, False)), []),
        ("q", 9, None, []),
    ]
    recs, envs_ = [], []
    for s_, n_, inner, subs in shapes:
        def deep(tu):
            return (Deep(tu[0], tu[1], tu[2], _generated=None), env(fd, [S(tu[0]), I(tu[1]), B(tu[2])], []))
        inner_rec, inner_env = None, None
        if inner is not None:
            d = deep(inner[2]) if inner[2] is not None else (None, None)
            inner_rec = Inner(inner[0], inner[1], d[0], _generated=None)
            inner_env = env(fi, [S(inner[0]), I(inner[1]), REC], [d[1]] if d[1] is not None else [])
        sub_pairs = [deep(tu) for tu in subs]
        recs.append(Outer(s_, n_, inner_rec, [p[0] for p in sub_pairs], _generated=None))
        envs_.append(env(fo, [S(s_), I(n_), REC, REC], ([inner_env] if inner_env is not None else []) + [p[1] for p in sub_pairs]))
    return recs, envs_


def layout_records():
    """records of ONE type name in different layouts (two versions of a record type), met one after the other: the typed
    matchers look at the fields of the record in front of them, not at those of the first layout they saw"""
    from flow.record import RecordDescriptor

    La = RecordDescriptor("t/lay", [("string", "s")])
    Lb = RecordDescriptor("t/lay", [("varint", "n"), ("string", "s"), ("string", "extra"), ("boolean", "flag")])
    Lc = RecordDescriptor("t/lay", [("varint", "s"), ("string", "n")])          # the same names with the types swapped

    def env(D, vals):
        ft = D.get_field_tuples()
        e = {n: v for (t, n), v in zip(ft, vals)}
        e["$types"] = {"t": "meta", "v": {n: t for t, n in ft}}
        e["$order"] = {"t": "meta", "v": [n for t, n in ft]}
        return e

    plan = [(La, ["q"], [S("q")]), (Lb, [50, "q", "zz", True], [I(50), S("q"), S("zz"), B(True)]), (La, ["a"], [S("a")]), (Lc, [1, "b"], [I(1), S("b")]), (Lb, [0, "x", "a", False], [I(0), S("x"), S("a"), B(False)])]
    return [D(*raw, _generated=None) for D, raw, _ in plan], [env(D, vals) for D, _, vals in plan]


def wrapper_named_records():
    """record types with a FIELD literally called `record` (the name of the slot a wrapped record keeps its record in), holding
    a record that has fields the outer one lacks and lacks fields the outer one has -> (real records, environments)"""
    from flow.record import RecordDescriptor

    Inner = RecordDescriptor("t/held", [("string", "m"), ("string", "w")])
    Outer = RecordDescriptor("t/holder", [("string", "s"), ("string", "w"), ("record", "record")])
    fo = Outer.get_field_tuples()
    REC = {"t": "rec", "v": []}
    recs, envs_ = [], []
    for s_, w_, inner in (("a", "a", ("a", "zz")), ("Ab", "b", None), ("a", "a", ("b", "a")), ("zz", "zz", ("a", "a"))):
        recs.append(Outer(s_, w_, Inner(*inner, _generated=None) if inner else None, _generated=None))
        envs_.append({"s": S(s_), "w": S(w_), "record": REC if inner else NN, "$types": {"t": "meta", "v": {n: t for t, n in fo}}, "$order": {"t": "meta", "v": [n for t, n in fo]}})
    return recs, envs_


def wrapper_named_exprs():
    out = []
    for fn in ("field_equals", "field_contains", "field_regex"):
        for fl in (["m"], ["s"], ["w"], ["m", "s"], ["w", "m"], ["s", "m2"], ["m", "m2"]):
            for ss in (["a"], ["b"], ["zz"], ["Ab", "a"]):
                if fn == "field_regex" and len(ss) > 1:
                    continue
                out.append((HELPER(fn, fl, ss), {"group": "helper_on_record_named_field", "fn": fn, "fields": ",".join(fl)}))
    for o in ("Eq", "NotEq", "In"):
        for f in ("m", "s", "w"):
            out.append((CMP(o, F(f), C(S("a"))), {"group": "cmp_on_record_named_field", "op": o, "field": f}))
    # missing fields whose NAMES are what a mapping (or any container) calls its methods: a record that lacks the field lacks it
    for nm in ("keys", "values", "items", "get", "copy", "update", "index", "count"):
        for o in ("Eq", "NotEq", "In", "NotIn", "Lt", "GtE"):
            out.append((CMP(o, F(nm), C(S("a"))), {"group": "cmp_on_method_named_missing_field", "op": o, "field": nm}))
            out.append((CMP(o, C(S("a")), F(nm)), {"group": "cmp_on_method_named_missing_field", "op": o, "field": nm, "side": "right"}))
        out.append((NOT(CMP("Eq", F(nm), C(I(1)))), {"group": "cmp_on_method_named_missing_field", "op": "not-eq", "field": nm}))
        for fn in ("field_equals", "field_contains", "field_regex"):
            out.append((HELPER(fn, [nm, "s"], ["a"]), {"group": "helper_on_method_named_missing_field", "fn": fn, "fields": nm + ",s"}))
    return out


def engine_eval(cls, source, recs, cache=None):
    out = []
    try:
        sel = cls(source)
    except Exception as e:
        return [{"k": "exc", "v": False, "c": "compile:" + type(e).__name__} for _ in recs]
    for r in recs:
        try:
            out.append({"k": "ok", "v": bool(sel.match(r)), "c": "none"})
        except Exception as e:
            out.append({"k": "exc", "v": False, "c": type(e).__name__})
    return out


def has_missing(e):
    return any(x["k"] == "field" and x["f"] in MISSING for x in walk(e))


def make_case(e, frecs, plain):
    from flow.record.selector import CompiledSelector, Selector

    s = src(e)
    miss = has_missing(e)
    if miss or any(x["k"] in ("helper", "hasfield", "typed", "ctor", "tref") or (x["k"] == "field" and x["f"] in ("ip", "p")) for x in walk(e)):
        py = [{"k": "skip", "v": False} for _ in plain]   # not cross-validated by eval (see _Missing)
    else:
        code = compile(s, "<e>", "eval")
        py = [py_eval(code, r) for r in plain]
    I1 = engine_eval(Selector, s, frecs)
    Cc = engine_eval(CompiledSelector, s, frecs)
    I2 = engine_eval(Selector, s, frecs)        # a NEW interpreted selector for the same text after the compiled one exists
    C2 = engine_eval(CompiledSelector, s, frecs)
    return {"e": e, "src": s, "supI": supported_interpreted(e), "supC": True,
            "py": py, "I": I1 if I1 == I2 else I2, "C": Cc if Cc == C2 else C2}


# ---------- the C08 grammar: exhaustive ----------
def c08_exprs():
    """operator x position of the missing operand x kind of the other operand x boolean context, + helpers"""
    others = {
        "int": C(I(1)), "str": C(S("a")), "none": C(NN), "bool": C(B(True)), "field_int": F("n"), "field_str": F("s"), "field_list": F("l"),
        "field_none": F("z"), "field_bool": F("t"), "field_ip": F("ip"), "field_path": F("p"), "field_command": F("c"), "list": LST(C(I(1)), C(S("a"))), "tuple": TUP(C(I(1)), C(S("a"))), "missing": F("m2"), "emptystr": C(S("")),
        "list_with_missing": LST(F("m2"), C(I(1))), "tuple_with_missing": TUP(F("m2"), F("n")),
        "subnet4": CTOR("net.ipv4.Subnet", "10.0.0.0/8"), "ipnetwork": CTOR("net.ipnetwork", "10.0.0.0/8"),
    }
    containers = {"str", "field_str", "field_list", "list", "tuple", "missing", "emptystr", "list_with_missing", "tuple_with_missing", "subnet4", "ipnetwork"}
    out = []
    for op in CMPOPS:
        for pos in ("left", "right"):
            for ok, other in others.items():
                if op in ("In", "NotIn"):
                    # the right operand of a membership test must be a container for ANY left operand; the
                    # missing field itself counts as one
                    right_kind = ok if pos == "left" else "missing"
                    if right_kind not in containers:
                        continue
                base = CMP(op, F("m"), other) if pos == "left" else CMP(op, other, F("m"))
                tag = {"op": op, "pos": pos, "other": ok}
                # the missing field wrapped in a helper that passes the sentinel through: lower(r.m), upper(r.m)
                wrapped = CMP(op, CALL("lower", F("m")), other) if pos == "left" else CMP(op, other, CALL("upper", F("m")))
                for cn, e in {"wrapped": wrapped, "wrapped_not": NOT(wrapped)}.items():
                    out.append((e, dict(tag, ctx=cn)))
                ctxs = {
                    "bare": base, "and_true": BOOL("And", base, C(B(True))), "true_and": BOOL("And", C(B(True)), base), "or_false": BOOL("Or", base, C(B(False))),
                    "or_true": BOOL("Or", base, C(B(True))), "not": NOT(base), "any": GEN("any", LST(C(I(1)), C(I(2))), base), "all": GEN("all", LST(C(I(1))), base),
                    "and_cmp": BOOL("And", CMP("Eq", F("n"), F("n")), base), "gen_if": GEN("any", F("l"), CMP("Eq", V, V), base),
                }
                for cn, e in ctxs.items():
                    out.append((e, dict(tag, ctx=cn)))
    # chained comparison through a missing field
    for op, op2 in (("Lt", "Lt"), ("LtE", "GtE"), ("Eq", "NotEq")):
        out.append((CHAIN(op, op2, C(I(0)), F("m"), C(I(3))), {"op": op + "," + op2, "pos": "middle", "other": "int", "ctx": "chain"}))
        out.append((CHAIN(op, op2, F("m"), F("n"), C(I(300))), {"op": op + "," + op2, "pos": "left", "other": "field_int", "ctx": "chain"}))
    # helper functions skip missing fields
    for f in ("field_equals", "field_contains", "field_regex"):
        for fields in (["m"], ["m", "s"], ["s", "m"], ["m", "m2"], ["s"]):
            for strs in (["a"], ["ab"], ["zz"]):
                out.append((HELPER(f, fields, strs), {"op": f, "pos": "helper", "other": ",".join(fields), "ctx": "bare"}))
                out.append((NOT(HELPER(f, fields, strs)), {"op": f, "pos": "helper", "other": ",".join(fields), "ctx": "not"}))
    for f in ("m", "s", "n"):
        out.append((HASFIELD(f), {"op": "has_field", "pos": "helper", "other": f, "ctx": "bare"}))
    # truthiness of a missing field itself
    out.append((F("m"), {"op": "truth", "pos": "bare", "other": "-", "ctx": "bare"}))
    out.append((NOT(F("m")), {"op": "truth", "pos": "bare", "other": "-", "ctx": "not"}))
    out.append((BOOL("Or", F("m"), CMP("Eq", F("n"), C(I(1)))), {"op": "truth", "pos": "left", "other": "cmp", "ctx": "or"}))
    return out


# ---------- the C07 grammar: bounded depth ----------
def c07_exprs(rnd, budget):
    consts = [C(I(0)), C(I(1)), C(I(2)), C(I(3)), C(S("")), C(S("a")), C(S("b")), C(S("Ab")), C(NN), C(B(True)), C(B(False))]
    fields = [F("n"), F("s"), F("l"), F("z"), F("t")]
    atoms = consts + fields
    lists = [LST(x) for x in (C(I(1)), C(S("a")), F("n"), F("s"))] + [LST(x, y) for x in (C(I(1)), C(S("a"))) for y in (C(I(100)), C(S("Ab")), F("s"))]
    tuples = [TUP(C(I(1)), C(I(100))), TUP(C(S("a")), F("s")), TUP(C(S("Ab")),)]
    a1 = atoms + lists + tuples
    cmps = [CMP(o, x, y) for o in CMPOPS for x in atoms for y in a1]
    bins = [BIN(o, x, y) for o in BINOPS_SUP + BINOPS_UNSUP for x in atoms for y in atoms]
    calls = [CALL(f, x) for f in ("lower", "upper", "str") for x in atoms]
    chains = [CHAIN(o, o2, x, y, z) for o in ("Lt", "LtE", "Eq") for o2 in ("Lt", "GtE", "NotEq") for x in (C(I(0)), C(I(1)), F("n"))
              for y in (F("n"), C(I(2)), F("s")) for z in (C(I(3)), F("n"), C(S("b")))]
    gens = [GEN(q, it, CMP(o, V, y), (CMP("NotEq", V, y2) if h else None)) for q in ("any", "all") for it in [F("l"), F("s"), F("n"), F("z")] + lists
            for o in ("Eq", "Lt", "In") for y in (C(S("a")), C(I(1)), F("s")) for h in (False, True) for y2 in ((C(S("a")), C(I(1))) if h else (C(I(1)),))]
    l2 = [CMP(o, x, y) for o in ("Eq", "Lt", "In") for x in bins + calls for y in (C(I(2)), C(S("ab")), F("s"), F("n"))]
    negs = [CMP("Lt", NEG(x), C(I(0))) for x in (F("n"), C(I(1)), F("s"))]
    simple = [c for c in cmps if c["op"] in ("Eq", "Lt") and c["b"] in atoms]
    right = atoms + [c for c in cmps if c["op"] in ("In", "GtE") and c["a"] in fields and (c["b"] in fields or c["b"] in lists)]
    bools = [BOOL(o, x, y) for o in ("And", "Or") for x in simple for y in right]
    nots = [NOT(x) for x in atoms + [c for c in cmps if c["b"] in fields]]
    # generator variables NAMED like a field type (record, path, string, net ...): the name denotes the element
    def named(gx, vn):
        return dict(gx, vn=vn)
    gen_named = [named(gx, vn) for vn in ("path", "record", "string", "net", "uri", "digest") for gx in rnd.sample(gens, 25)]
    # typed field matchers inside CHAINED comparisons: (Type.t OP b) and (b OP2 c)
    tchains = [CHAIN(o, o2, TREF(ty), b, c) for ty in ("string", "varint") for o in ("In", "Eq", "NotEq", "Lt") for o2 in ("NotEq", "Eq", "Lt", "In")
               for b in (LST(C(S("a")), C(S("b"))), TUP(C(I(1)), C(I(2))), LST(C(S("zz"))), C(S("a")), C(I(1)))
               for c in (LST(), C(S("a")), TUP(C(I(3)), C(I(4))), LST(LST(C(S("zz"))), C(I(1))))
               if not (o == "In" and b["k"] == "const")]       # `Type.t in <text>` is documented as interpreted-only
    # generator expressions with TWO for-clauses and a filter on the outer one
    gen2x = [GEN2(q, it1, c1, it2, elt) for q in ("any", "all") for it1 in (F("l"), LST(C(I(1)), C(I(2)), C(I(3))), F("s"))
             for c1 in (CMP("NotEq", V, C(S("a"))), CMP("Gt", V, C(I(1))), CMP("Eq", V, V))
             for it2 in (F("l"), LST(C(I(2)), C(I(3))), LST(V, C(S("b"))))
             for elt in (CMP("Eq", V, V2), CMP("Lt", V, V2), CMP("In", V2, F("l")))]
    helpers = [HELPER(f, fs, ss) for f in ("field_equals", "field_contains", "field_regex") for fs in (["s"], ["s", "z"], ["n"], ["w", "s"]) for ss in (["a"], ["AB"], ["b", "a"], [""], ["", "q"])]
    # two generator expressions in ONE expression (same loop variable), under and / or / not
    g_short = [x for x in gens if x["it"] in (F("l"), F("s")) or x["it"] in lists]
    gen2 = [BOOL(o, a, b) for o in ("And", "Or") for a in rnd.sample(g_short, 14) for b in rnd.sample(g_short, 14)] + [NOT(BOOL("And", a, b)) for a in rnd.sample(g_short, 8) for b in rnd.sample(g_short, 8)]
    # forms OUTSIDE the language (subscript, conditional expression): alone, and as direct / nested operands of and / or / not / comparisons / generators
    unsup_atoms = [CMP("Eq", SUBSCR(F("l"), 0), C(S("a"))), CMP("Eq", SUBSCR(F("s"), 0), C(S("A"))), CMP("Eq", SUBSCR(F("l"), 1), C(S("b"))), CMP("In", SUBSCR(F("s"), 0), F("l")),
                   CMP("Eq", IFEXP(F("t"), C(I(1)), C(I(0))), C(I(1))), IFEXP(F("t"), CMP("Eq", F("n"), C(I(1))), CMP("Eq", F("s"), C(S("a")))), SUBSCR(F("l"), 0), CMP("Eq", SUBSCR(TUP(C(I(5)), C(I(6))), 1), C(I(6)))]
    # a list comprehension (outside the language) used as a VALUE: its truth value and its equality with a list
    lc_all, lc_none, lc_some = LISTCOMP(F("l"), V), LISTCOMP(F("l"), V, CMP("Eq", V, C(S("zz")))), LISTCOMP(F("l"), V, CMP("Eq", V, C(S("a"))))
    unsup_atoms += [lc_none, lc_some, CMP("Eq", lc_all, F("l")), CMP("NotEq", lc_all, F("l")), CMP("Eq", lc_some, LST(C(S("a")))), CMP("In", C(S("a")), lc_all),
                    CMP("Eq", LISTCOMP(LST(C(I(1)), C(I(2))), BIN("Add", V, C(I(1)))), LST(C(I(2)), C(I(3))))]
    plain_cmps = [CMP("Eq", F("n"), C(I(0))), CMP("Eq", F("n"), C(I(1))), CMP("NotEq", F("s"), C(S(""))), C(B(True)), C(B(False)), F("t")]
    unsup = list(unsup_atoms)
    for u in unsup_atoms:
        unsup += [NOT(u), GEN("any", F("l"), u), GEN("all", LST(C(I(1))), CMP("Eq", V, C(I(1))), u)]
        for p in plain_cmps:
            unsup += [BOOL(o, p, u) for o in ("And", "Or")] + [BOOL(o, u, p) for o in ("And", "Or")] + [NOT(BOOL("Or", p, u)), BOOL("And", p, BOOL("Or", p, u))]
    typed = [TYPED(ty, o, b) for ty in ("string", "varint", "boolean") for o in ("Eq", "NotEq", "Lt", "GtE") for b in (C(S("a")), C(S("zz")), C(I(1)), C(I(50)), C(B(True)))] + \
            [INTYPED("string", b) for b in (C(S("a")), C(S("b")), C(S("z")), C(S("")))]
    iph = [CMP(o, F(f), b) for f in ("ip", "p") for o in ("Eq", "NotEq") for b in (C(S("10.0.0.1")), C(S("/a")), C(S("/a/B")), C(NN), C(I(1)))] + \
          [CMP(o, b, F(f)) for f in ("ip", "p") for o in ("Eq", "NotEq") for b in (C(S("10.0.0.1")), C(S("/a")))] + \
          [HELPER("field_equals", fs, ss) for fs in (["ip"], ["p"], ["ip", "s"], ["p", "m"]) for ss in (["10.0.0.1"], ["/a/b"], ["/A"], ["/a", "10.0.0.2"])]
    # display KINDS: a tuple display is a tuple and a list display is a list (equal elements, different kind)
    elems = [(C(I(1)), C(I(100))), (C(S("a")), C(S("b"))), (C(S("Ab")),), (F("n"), F("s")), ()]
    kinds = [CMP(o, mk1(*es), mk2(*es)) for o in ("Eq", "NotEq") for es in elems for mk1 in (LST, TUP) for mk2 in (LST, TUP)] + \
            [CMP(o, F("l"), mk(*es)) for o in ("Eq", "NotEq") for es in elems for mk in (LST, TUP)] + \
            [CMP(o, mk(*es), LST(mk1(*es), C(I(1)))) for o in ("In", "NotIn") for es in elems[:3] for mk in (LST, TUP) for mk1 in (LST, TUP)] + \
            [CMP("Eq", BIN("Add", mk(*es), mk(*es)), mk2(*(es + es))) for es in elems[:3] for mk in (LST, TUP) for mk2 in (LST, TUP)]
    # calls whose arguments are literals that are EQUAL but of different types (1 / True, 0 / False): each call has its own result
    st = lambda v: CALL("str", C(v))
    call_literals = [CMP(o, st(a), st(b)) for o in ("Eq", "NotEq") for a, b in ((I(1), B(True)), (B(True), I(1)), (I(0), B(False)), (B(False), I(0)), (I(1), I(1)), (B(True), B(True)))] + \
                    [BOOL(bo, CMP("Eq", st(a), C(S(x))), CMP("Eq", st(b), C(S(y)))) for bo in ("And", "Or")
                     for a, x, b, y in ((I(1), "1", B(True), "True"), (B(True), "True", I(1), "1"), (I(0), "0", B(False), "False"), (B(False), "0", I(0), "False"), (B(True), "1", I(1), "True"))] + \
                    [CMP("In", st(B(True)), LST(st(I(1)), C(S("x")))), CMP("In", st(I(0)), TUP(st(B(False)))), CMP("Eq", LST(st(I(1)), st(B(True))), LST(C(S("1")), C(S("True"))))]
    # text whose lower-case form is NOT its case-folded form (round g): lower() is Python's str.lower -- sharp s stays sharp s
    lo = lambda t: CALL("lower", C(S(t)))
    case_text = [CMP("Eq", lo("Stra\u00dfe"), C(S("stra\u00dfe"))), CMP("Eq", lo("Stra\u00dfe"), C(S("strasse"))), CMP("In", C(S("\u00df")), lo("MA\u00df")), CMP("In", C(S("ss")), lo("MA\u00df")),
                 CMP("NotEq", lo("\u00df"), C(S("ss"))), BOOL("And", CMP("Eq", lo("A\u00df"), C(S("a\u00df"))), CMP("Eq", F("s"), F("s")))]
    groups = {"call_literals": call_literals, "kinds": kinds, "typed": typed, "ip_path": iph, "cmp": cmps, "bin": [CMP("Eq", b, C(I(2))) for b in bins] + bins, "call": calls, "chain": chains, "gen": gens, "l2cmp": l2, "neg": negs, "bool": bools, "not": nots, "helper": helpers, "gen2": gen2, "unsupported": unsup, "gen_named": gen_named, "typed_chain": tchains, "gen2x": gen2x, "case_text": case_text}
    total = sum(len(g) for g in groups.values())
    out = []
    # groups of moderate size are ALWAYS taken completely (a sample of them once lost the only expressions that tell a
    # tuple display from a list display); only the two product groups are sampled, stratified by operator
    big = {"l2cmp": 2000, "bool": 3000}
    for name, g in groups.items():
        if budget is None or total <= budget or name not in big:
            pick = g
        else:
            k = big[name]
            strata = {}
            for e in g:
                strata.setdefault((e.get("op"), e["a"]["k"], e["a"].get("op"), e["b"]["k"], e["b"].get("op")), []).append(e)
            pick = []
            per = max(1, k // len(strata))
            for key in sorted(strata, key=repr):
                s = strata[key]
                pick += s if len(s) <= per else rnd.sample(s, per)
        out += [(e, {"group": name}) for e in pick]
    return out, total
