"""Known findings: committed file /verif/known_findings.json, read-only at run time.

An entry turns a violation into a KNOWN-FINDING line only when status == "open" and every item of its
"match" object equals the corresponding item of the violation's key (a list in "match" means "one of").
A finding is therefore identified by the failing input / call site / history, never by the property id alone.
"""
import json, os
from . import common

PATH = os.path.join(common.VERIF, "known_findings.json")


def load():
    if not os.path.exists(PATH):
        return []
    with open(PATH) as f:
        return json.load(f)["findings"]


def _match(entry, prop, key):
    if entry.get("property") != prop or entry.get("status") != "open":
        return False
    for k, want in entry.get("match", {}).items():
        got = key.get(k)
        if isinstance(want, list):
            if got not in want:
                return False
        elif got != want:
            return False
    return True


def classify(prop, violations):
    """-> (known: {entry_id: [violations]}, unknown: [violations])"""
    entries = load()
    known, unknown = {}, []
    for v in violations:
        for e in entries:
            if _match(e, prop, v["key"]):
                known.setdefault(e["id"], []).append(v)
                break
        else:
            unknown.append(v)
    return known, unknown, {e["id"]: e for e in entries}
