"""Apalache (symbolic model checker) for the integer counter abstractions under spec/apalache: an inductive invariant is
checked in two steps (Init => IndInv at length 0; IndInv /\\ Next => IndInv' at length 1 starting from IndInit), which
holds for EVERY value of the constants and every length of history.  The modules do not depend on the tree under test, so
a failure here is a defect of the specification (MachineryError); a tool that cannot run (missing, out of memory, timeout)
is noted in the evidence file and never decides anything."""
import os, re, shutil, subprocess, time

from vf import common
from vf.common import MachineryError


def inductive(ctx, module, what, timeout=600):
    exe = shutil.which("apalache-mc")
    d = os.path.join(common.VERIF, "spec", "apalache")
    rec = {"what": what, "module": "apalache/" + module, "cfg": "--cinit=ConstInit --inv=IndInv; (Init, length 0) and (IndInit, length 1)", "generated": 0, "distinct": 0, "depth": 1, "violations": 0, "wall_s": 0.0,
           "actions": None}
    if exe is None:
        ctx.note(f"apalache-mc not found: the unbounded argument for {module} was not re-checked in this run")
        return None
    t0 = time.time()
    out = common.scratch("apalache_" + module)
    verdicts = []
    for step in (["--init=Init", "--length=0"], ["--init=IndInit", "--length=1"]):
        try:
            p = subprocess.run([exe, "check", "--cinit=ConstInit", "--inv=IndInv", f"--out-dir={out}"] + step + [module + ".tla"], cwd=d, capture_output=True, text=True, timeout=timeout)
        except subprocess.TimeoutExpired:
            ctx.note(f"apalache-mc timed out on {module} {step}: not decided in this run")
            return None
        m = re.search(r"EXITCODE: (\w+)(?: \((\d+)\))?", p.stdout)
        if m and m.group(1) == "OK":
            verdicts.append(True)
        elif m and m.group(2) == "12":            # a counter-example to the invariant
            raise MachineryError(f"apalache: IndInv of {module} is not inductive at step {step}: {p.stdout[-600:]}")
        else:
            ctx.note(f"apalache-mc could not run {module} {step} ({(m.group(0) if m else 'no exit line')}): not decided in this run")
            return None
    rec["wall_s"] = round(time.time() - t0, 2)
    ctx.tlc_runs.append(rec)
    print(f"  apalache {module}: IndInv inductive (Init => IndInv; IndInv /\\ Next => IndInv'), {rec['wall_s']}s  [{what}]", flush=True)
    return True
