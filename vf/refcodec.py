"""Independent reference codec for the flow.record stream format.
Pure Python; imports neither flow.record nor msgpack. Token level keeps wire kinds (str vs bin, widths)."""
import hashlib, struct, datetime as _dt
MAGIC = b"RECORDSTREAM\n"
EXT = 0x0E
T_RECORD, T_DESC, T_FIELDTYPE, T_DATETIME, T_VARINT, T_GROUPED = 0x1, 0x2, 0x3, 0x10, 0x11, 0x12
class Tok:
    __slots__ = ("kind", "wire", "val", "n")
    def __init__(self, kind, wire, val=None, n=None): self.kind, self.wire, self.val, self.n = kind, wire, val, n
    def __repr__(self): return f"{self.wire}({self.val if self.val is not None else self.n})"
class Short(Exception): pass
def _need(b, o, n):
    if o + n > len(b): raise Short(f"need {n} at {o}, have {len(b)-o}")
def tokenize(b, o=0):
    """Yield tokens of ONE msgpack value starting at o; returns (tokens, next_offset). Containers are flattened
    as header token followed by their items' tokens (pre-order)."""
    toks = []
    def one(o):
        _need(b, o, 1); c = b[o]; o += 1
        def rd(fmt, n):
            nonlocal o
            _need(b, o, n); v = struct.unpack(fmt, b[o:o+n])[0]; o += n; return v
        def raw(n):
            nonlocal o
            _need(b, o, n); v = bytes(b[o:o+n]); o += n; return v
        if c <= 0x7f: toks.append(Tok("int", "posfixint", c))
        elif c >= 0xe0: toks.append(Tok("int", "negfixint", c - 256))
        elif 0x80 <= c <= 0x8f:
            n = c & 0x0f; toks.append(Tok("map", "fixmap", n=n))
            for _ in range(2*n): o = one(o)
        elif 0x90 <= c <= 0x9f:
            n = c & 0x0f; toks.append(Tok("array", "fixarray", n=n))
            for _ in range(n): o = one(o)
        elif 0xa0 <= c <= 0xbf: toks.append(Tok("str", "fixstr", raw(c & 0x1f)))
        elif c == 0xc0: toks.append(Tok("nil", "nil"))
        elif c == 0xc2: toks.append(Tok("bool", "false", False))
        elif c == 0xc3: toks.append(Tok("bool", "true", True))
        elif c in (0xc4, 0xc5, 0xc6):
            n = rd({0xc4: ">B", 0xc5: ">H", 0xc6: ">I"}[c], {0xc4: 1, 0xc5: 2, 0xc6: 4}[c]); toks.append(Tok("bin", {0xc4: "bin8", 0xc5: "bin16", 0xc6: "bin32"}[c], raw(n)))
        elif c in (0xc7, 0xc8, 0xc9):
            n = rd({0xc7: ">B", 0xc8: ">H", 0xc9: ">I"}[c], {0xc7: 1, 0xc8: 2, 0xc9: 4}[c]); t = rd(">b", 1); toks.append(Tok("ext", {0xc7: "ext8", 0xc8: "ext16", 0xc9: "ext32"}[c], (t, raw(n))))
        elif c == 0xca: toks.append(Tok("float", "float32", rd(">f", 4)))
        elif c == 0xcb: toks.append(Tok("float", "float64", rd(">d", 8)))
        elif c in (0xcc, 0xcd, 0xce, 0xcf): toks.append(Tok("int", {0xcc: "uint8", 0xcd: "uint16", 0xce: "uint32", 0xcf: "uint64"}[c], rd({0xcc: ">B", 0xcd: ">H", 0xce: ">I", 0xcf: ">Q"}[c], {0xcc: 1, 0xcd: 2, 0xce: 4, 0xcf: 8}[c])))
        elif c in (0xd0, 0xd1, 0xd2, 0xd3): toks.append(Tok("int", {0xd0: "int8", 0xd1: "int16", 0xd2: "int32", 0xd3: "int64"}[c], rd({0xd0: ">b", 0xd1: ">h", 0xd2: ">i", 0xd3: ">q"}[c], {0xd0: 1, 0xd1: 2, 0xd2: 4, 0xd3: 8}[c])))
        elif c in (0xd4, 0xd5, 0xd6, 0xd7, 0xd8):
            n = {0xd4: 1, 0xd5: 2, 0xd6: 4, 0xd7: 8, 0xd8: 16}[c]; t = rd(">b", 1); toks.append(Tok("ext", f"fixext{n}", (t, raw(n))))
        elif c in (0xd9, 0xda, 0xdb):
            n = rd({0xd9: ">B", 0xda: ">H", 0xdb: ">I"}[c], {0xd9: 1, 0xda: 2, 0xdb: 4}[c]); toks.append(Tok("str", {0xd9: "str8", 0xda: "str16", 0xdb: "str32"}[c], raw(n)))
        elif c in (0xdc, 0xdd):
            n = rd({0xdc: ">H", 0xdd: ">I"}[c], {0xdc: 2, 0xdd: 4}[c]); toks.append(Tok("array", {0xdc: "array16", 0xdd: "array32"}[c], n=n))
            for _ in range(n): o = one(o)
        elif c in (0xde, 0xdf):
            n = rd({0xde: ">H", 0xdf: ">I"}[c], {0xde: 2, 0xdf: 4}[c]); toks.append(Tok("map", {0xde: "map16", 0xdf: "map32"}[c], n=n))
            for _ in range(2*n): o = one(o)
        else: raise ValueError(f"invalid msgpack byte 0x{c:02x}")
        return o
    o = one(o)
    return toks, o
class Ext:   # decoded ext-14 value
    def __init__(self, sub, payload): self.sub, self.payload = sub, payload
    def __repr__(self): return f"Ext({self.sub:#x}, {self.payload!r})"
class Str(str): pass          # wire str (utf-8 with surrogateescape)
def build(toks, i=0):
    """tokens -> python structure (tuples for arrays); ext 14 decoded recursively into Ext(sub, payload)."""
    t = toks[i]
    if t.kind in ("int", "bool", "float"): return t.val, i + 1
    if t.kind == "nil": return None, i + 1
    if t.kind == "str": return Str(t.val.decode("utf-8", "surrogateescape")), i + 1
    if t.kind == "bin": return t.val, i + 1
    if t.kind == "array":
        out = []; i += 1
        for _ in range(t.n): v, i = build(toks, i); out.append(v)
        return tuple(out), i
    if t.kind == "map":
        out = {}; i += 1
        for _ in range(t.n): k, i = build(toks, i); v, i = build(toks, i); out[k] = v
        return out, i
    if t.kind == "ext":
        code, data = t.val
        if code != EXT: raise ValueError(f"unknown ext type {code}")
        inner, o = tokenize(data)
        if o != len(data): raise ValueError("trailing bytes in ext")
        v, _ = build(inner)
        sub, payload = v
        return Ext(sub, payload), i + 1
    raise ValueError(t.kind)
def frames(data):
    """-> list of (offset, length_of_body, body bytes); raises Short on a truncated tail."""
    o = 0; out = []
    while o < len(data):
        _need(data, o, 4); n = struct.unpack(">I", data[o:o+4])[0]; _need(data, o + 4, n)
        out.append((o, n, data[o+4:o+4+n])); o += 4 + n
    return out
def descriptor_hash(name, fields):
    data = name + "".join(f"{n}{t}" for t, n in fields)
    return int.from_bytes(hashlib.sha256(data.encode()).digest()[:4], "big")
def decode_stream(data):
    """-> list of ('HDR',) | ('DESC', name, fields) | ('REC', identifier, values) | ('GRP', name, members) with values as
    plain structures: int (varint ext resolved), ('dt', ...) for datetimes, nested ('REC', ...)."""
    out = []
    for off, n, body in frames(data):
        toks, o = tokenize(body)
        if o != len(body): raise ValueError("trailing bytes in frame")
        v, _ = build(toks)
        out.append(norm_top(v, toks))
    return out
def norm(v):
    if isinstance(v, Ext):
        if v.sub == T_VARINT:
            neg, h = v.payload; x = int.from_bytes(h, "big"); return -x if neg else x
        if v.sub == T_DATETIME: return ("dt",) + tuple(v.payload)
        if v.sub == T_RECORD:
            ident, values = v.payload; return ("REC", norm(ident), tuple(norm(x) for x in values))
        if v.sub == T_GROUPED:
            name, members = v.payload; return ("GRP", str(name), tuple(("REC", norm(i), tuple(norm(x) for x in vals)) for i, vals in members))
        if v.sub == T_DESC:
            name, fields = v.payload; return ("DESC", str(name), tuple((str(t), str(n)) for t, n in fields))
        raise ValueError(f"unknown subtype {v.sub:#x}")
    if isinstance(v, tuple): return tuple(norm(x) for x in v)
    if isinstance(v, dict): return {norm(k): norm(x) for k, x in v.items()}
    return v
def norm_top(v, toks):
    if isinstance(v, (bytes, str)) and (v == MAGIC or v == MAGIC.decode()):
        return ("HDR", toks[0].kind)
    return norm(v)



# ---------------------------------------------------------------- reference ENCODER (independent of msgpack / flow.record)
class Bin(bytes):
    """force the bin family"""


class RawExt:
    def __init__(self, code, data):
        self.code, self.data = code, bytes(data)


def pack(o):
    """msgpack-encode plain Python structures: None, bool, int, float, str (utf-8 + surrogateescape), bytes (bin),
    list/tuple (array), dict (map), RawExt."""
    if o is None:
        return b"\xc0"
    if o is True:
        return b"\xc3"
    if o is False:
        return b"\xc2"
    if isinstance(o, int):
        if 0 <= o <= 0x7F:
            return struct.pack("B", o)
        if -32 <= o < 0:
            return struct.pack("b", o)
        if 0 <= o <= 0xFF:
            return b"\xcc" + struct.pack("B", o)
        if 0 <= o <= 0xFFFF:
            return b"\xcd" + struct.pack(">H", o)
        if 0 <= o <= 0xFFFFFFFF:
            return b"\xce" + struct.pack(">I", o)
        if 0 <= o <= 0xFFFFFFFFFFFFFFFF:
            return b"\xcf" + struct.pack(">Q", o)
        if -0x80 <= o < 0:
            return b"\xd0" + struct.pack("b", o)
        if -0x8000 <= o < 0:
            return b"\xd1" + struct.pack(">h", o)
        if -0x80000000 <= o < 0:
            return b"\xd2" + struct.pack(">i", o)
        if -0x8000000000000000 <= o < 0:
            return b"\xd3" + struct.pack(">q", o)
        raise OverflowError("integer beyond msgpack's native range: use ext_varint")
    if isinstance(o, float):
        return b"\xcb" + struct.pack(">d", o)
    if isinstance(o, str):
        b = o.encode("utf-8", "surrogateescape")
        n = len(b)
        if n <= 31:
            return struct.pack("B", 0xA0 | n) + b
        if n <= 0xFF:
            return b"\xd9" + struct.pack("B", n) + b
        if n <= 0xFFFF:
            return b"\xda" + struct.pack(">H", n) + b
        return b"\xdb" + struct.pack(">I", n) + b
    if isinstance(o, (bytes, bytearray)):
        n = len(o)
        if n <= 0xFF:
            return b"\xc4" + struct.pack("B", n) + bytes(o)
        if n <= 0xFFFF:
            return b"\xc5" + struct.pack(">H", n) + bytes(o)
        return b"\xc6" + struct.pack(">I", n) + bytes(o)
    if isinstance(o, (list, tuple)):
        n = len(o)
        head = struct.pack("B", 0x90 | n) if n <= 15 else (b"\xdc" + struct.pack(">H", n) if n <= 0xFFFF else b"\xdd" + struct.pack(">I", n))
        return head + b"".join(pack(x) for x in o)
    if isinstance(o, dict):
        n = len(o)
        head = struct.pack("B", 0x80 | n) if n <= 15 else (b"\xde" + struct.pack(">H", n) if n <= 0xFFFF else b"\xdf" + struct.pack(">I", n))
        return head + b"".join(pack(k) + pack(v) for k, v in o.items())
    if isinstance(o, RawExt):
        n = len(o.data)
        if n in (1, 2, 4, 8, 16):
            return {1: b"\xd4", 2: b"\xd5", 4: b"\xd6", 8: b"\xd7", 16: b"\xd8"}[n] + struct.pack("b", o.code) + o.data
        if n <= 0xFF:
            return b"\xc7" + struct.pack("B", n) + struct.pack("b", o.code) + o.data
        if n <= 0xFFFF:
            return b"\xc8" + struct.pack(">H", n) + struct.pack("b", o.code) + o.data
        return b"\xc9" + struct.pack(">I", n) + struct.pack("b", o.code) + o.data
    raise TypeError(type(o))


def ext(sub, payload):
    """the record-stream extension value: ext type 14 wrapping msgpack([sub-type, payload])"""
    return RawExt(EXT, pack([sub, payload]))


def ext_varint(n):
    neg = n < 0
    v = abs(n)
    return ext(T_VARINT, [neg, Bin(v.to_bytes((v.bit_length() + 7) // 8, "big"))])


def ext_datetime_utc(y, mo, d, h, mi, s, us):
    return ext(T_DATETIME, [y, mo, d, h, mi, s, us])


def ext_datetime_iso(text):
    return ext(T_DATETIME, [text])


def frame(value):
    body = pack(value)
    return struct.pack(">I", len(body)) + body


def header_frame():
    return frame(Bin(MAGIC))


def descriptor_frame(name, fields):
    """fields: sequence of (typename, fieldname)"""
    return frame(ext(T_DESC, [name, [[t, n] for t, n in fields]]))


def record_value(name, fields, values, identifier="tuple"):
    ident = [name, descriptor_hash(name, fields)] if identifier == "tuple" else name
    return ext(T_RECORD, [ident, list(values)])


def record_frame(name, fields, values, identifier="tuple"):
    return frame(record_value(name, fields, values, identifier))


# ---------------------------------------------------------------- token-family trees (the vocabulary of spec/Codec.tla)
def family(toks, i=0):
    """tokens (pre-order) -> (token-family tree, next index).  Widths are dropped: only the msgpack family is kept.
    ext 14 values are opened: {"f": "EXT", "sub": n, "payload": tree}."""
    t = toks[i]
    if t.kind == "int":
        return {"f": "INT"}, i + 1
    if t.kind == "bool":
        return {"f": "BOOL"}, i + 1
    if t.kind == "float":
        return {"f": "FLOAT"}, i + 1
    if t.kind == "nil":
        return {"f": "NIL"}, i + 1
    if t.kind == "str":
        return {"f": "STR"}, i + 1
    if t.kind == "bin":
        return {"f": "BIN"}, i + 1
    if t.kind == "array":
        items = []
        i += 1
        for _ in range(t.n):
            x, i = family(toks, i)
            items.append(x)
        return {"f": "ARR", "items": items}, i
    if t.kind == "map":
        i += 1
        for _ in range(2 * t.n):
            _, i = family(toks, i)
        return {"f": "MAP"}, i
    if t.kind == "ext":
        code, data = t.val
        if code != EXT:
            return {"f": "EXT?", "sub": code, "payload": {"f": "NIL"}}, i + 1
        inner, o = tokenize(data)
        tree, _ = family(inner)
        if tree["f"] != "ARR" or len(tree["items"]) != 2 or inner[1].kind != "int":
            return {"f": "EXT?", "sub": -1, "payload": tree}, i + 1
        return {"f": "EXT", "sub": inner[1].val, "payload": tree["items"][1]}, i + 1
    raise ValueError(t.kind)


def frame_families(data):
    """stream bytes -> list of family trees, one per frame"""
    out = []
    for off, n, body in frames(data):
        toks, o = tokenize(body)
        if o != len(body):
            raise ValueError("trailing bytes in frame")
        out.append(family(toks)[0])
    return out
